import Vata.Proofs.LtsUtilSC

/-!
# `SharedCounter` as coded refines a table of numbers (part 2: `decr`)
-/
namespace Vata.LU.SC
namespace P

/-- the value after `decr` at key index `idx` -/
abbrev decA (a : A) (idx : Nat) : A := { a with val := a.val.set idx (a.at idx - 1) }

theorem decr_row {cfg : Cfg} (a : A) (idx : Nat) (hvl : idx < a.val.length) (col : Nat) (hcol : col < cfg.rowSize) :
    (decA a idx).at (idx / cfg.rowSize * cfg.rowSize + col) =
      if col = idx % cfg.rowSize then a.at idx - 1 else a.at (idx / cfg.rowSize * cfg.rowSize + col) :=
  at_set_row a idx _ hvl col hcol

theorem decr_le {cfg : Cfg} (a : A) (idx : Nat) (hvl : idx < a.val.length) (col : Nat) (hcol : col < cfg.rowSize) :
    (decA a idx).at (idx / cfg.rowSize * cfg.rowSize + col) ≤ a.at (idx / cfg.rowSize * cfg.rowSize + col) := by
  rw [decr_row a idx hvl col hcol]
  split
  · rename_i h; rw [h, idx_split]; omega
  · exact Nat.le_refl _

theorem decr_sum {cfg : Cfg} (a : A) (idx : Nat) (hvl : idx < a.val.length) (hrs : 0 < cfg.rowSize) (hpos : 0 < a.at idx) :
    sumTo (fun col => (decA a idx).at (idx / cfg.rowSize * cfg.rowSize + col)) cfg.rowSize + 1 =
      sumTo (fun col => a.at (idx / cfg.rowSize * cfg.rowSize + col)) cfg.rowSize := by
  have hcol : idx % cfg.rowSize < cfg.rowSize := Nat.mod_lt _ hrs
  have := sumTo_update (f := fun col => a.at (idx / cfg.rowSize * cfg.rowSize + col))
    (g := fun col => (decA a idx).at (idx / cfg.rowSize * cfg.rowSize + col))
    (j := idx % cfg.rowSize) hcol (fun col hc' hne => by rw [decr_row a idx hvl col hc', if_neg hne])
  rw [decr_row a idx hvl _ hcol, if_pos rfl, idx_split] at this
  omega

theorem cell_of_cells {m m' : Mem} (h : m'.cells = m.cells) (p j : Nat) : cell m' p j = cell m p j := by
  unfold cell; rw [h]

/-- `decr` never writes a data column of a row that has two or more sharers -/
def NoSharedWrite (cfg : Cfg) (cs : List (Option Cnt)) (m m' : Mem) : Prop :=
  ∀ x, 2 ≤ refs x cs → ∀ col, col < cfg.rowSize → cell m' x col = cell m x col

/-- `decr`, everything in `master_` -/
theorem decr_none {cfg : Cfg} {m : Mem} {cs : List (Option Cnt)} {aw : AWorld} {i idx : Nat} {c : Cnt} {a : A}
    {row : Row} (hinv : Inv cfg ⟨m, cs⟩ aw) (hc : cs.getD i none = some c) (ha : aw.getD i none = some a)
    (hrs : 0 < cfg.rowSize) (hph : a.phase = .running) (hidx : idx < a.rows * cfg.rowSize) (hpos : 0 < a.at idx)
    (hr : c[idx / cfg.rowSize]? = some row) (hd : row.data = none) :
    Inv cfg ⟨m, cs.set i (some (c.set (idx / cfg.rowSize) ⟨row.master - 1, none⟩))⟩ (aw.set i (some (decA a idx))) ∧
    row.master - 1 = a.at idx - 1 := by
  have hold : CntInv cfg m cs c a := hinv.cnt i c a hc ha
  have hrow := hold.rows _ row hr
  have hvl : idx < a.val.length := by rw [hold.vlen]; exact hidx
  have hcol : idx % cfg.rowSize < cfg.rowSize := Nat.mod_lt _ hrs
  have hamo := (hrow.noData hd).2
  have hsame : ∀ p', refs p' (cs.set i (some (c.set (idx / cfg.rowSize) ⟨row.master - 1, none⟩))) = refs p' cs := by
    intro p'
    have := refs_update (p := p') ⟨row.master - 1, none⟩ hc hr
    simp only [hd] at this
    simpa using this
  have hsum := decr_sum (cfg := cfg) a idx hvl hrs hpos
  constructor
  · refine update_row hinv hc ha hr rfl rfl (by simp) (fun r' col hr' hcol' => at_set_other a idx _ hvl r' col hr' hcol')
      (Nat.le_refl _) ?_ ?_ ?_ hinv.nodup ?_
    · intro p' hp'; cases hp'
    · intro p' _ _ _
      exact ⟨Same.rfl' rfl, by rw [hsame]⟩
    · refine ⟨?_, fun _ => ⟨(fun h => by rw [hph] at h; cases h), ?_⟩, fun p' hp' => by cases hp'⟩
      · show row.master - 1 = _
        rw [hrow.master]; omega
      · exact hamo.mono (fun col hc' => decr_le a idx hvl col hc')
    · intro p' hp'
      rw [hsame]; exact hinv.free p' hp'
  · have := hamo.sum_eq hcol (by show 0 < a.at _; rw [idx_split]; exact hpos)
    simp only [idx_split] at this
    rw [hrow.master, this]


/-- `decr`, branch "move everything to `master_`": the row is dropped (count - 1, reclaimed at 0) -/
theorem decr_drop {cfg : Cfg} {m : Mem} {cs : List (Option Cnt)} {aw : AWorld} {i idx p : Nat} {c : Cnt} {a : A}
    {row : Row} (hinv : Inv cfg ⟨m, cs⟩ aw) (hc : cs.getD i none = some c) (ha : aw.getD i none = some a)
    (hrs : 0 < cfg.rowSize) (hph : a.phase = .running) (hidx : idx < a.rows * cfg.rowSize) (hpos : 0 < a.at idx)
    (hr : c[idx / cfg.rowSize]? = some row) (hd : row.data = some p)
    (hcond : row.master = cell m p (idx % cfg.rowSize) ∨ row.master = 2) :
    Inv cfg ⟨if dec64 (cell m p cfg.rowSize) = 0
              then reclaim (setCell m p cfg.rowSize (dec64 (cell m p cfg.rowSize))) p
              else setCell m p cfg.rowSize (dec64 (cell m p cfg.rowSize)),
        cs.set i (some (c.set (idx / cfg.rowSize) ⟨row.master - 1, none⟩))⟩ (aw.set i (some (decA a idx))) ∧
    dec64 (cell m p (idx % cfg.rowSize)) = a.at idx - 1 ∧
    NoSharedWrite cfg cs m (if dec64 (cell m p cfg.rowSize) = 0
              then reclaim (setCell m p cfg.rowSize (dec64 (cell m p cfg.rowSize))) p
              else setCell m p cfg.rowSize (dec64 (cell m p cfg.rowSize))) := by
  have hold : CntInv cfg m cs c a := hinv.cnt i c a hc ha
  have hrow := hold.rows _ row hr
  have hdi := hrow.data p hd
  have hvl : idx < a.val.length := by rw [hold.vlen]; exact hidx
  have hcol : idx % cfg.rowSize < cfg.rowSize := Nat.mod_lt _ hrs
  have hfpos : 0 < a.at (idx / cfg.rowSize * cfg.rowSize + idx % cfg.rowSize) := by rw [idx_split]; exact hpos
  have hv : cell m p (idx % cfg.rowSize) = a.at idx := by
    have := hdi.cols _ hcol hfpos
    rw [this, idx_split]
  have hrc := hdi.run hph
  have hppos : 0 < refs p cs := refs_pos_of_get hc hr hd
  have hrefs : ∀ p', refs p' (cs.set i (some (c.set (idx / cfg.rowSize) ⟨row.master - 1, none⟩))) +
      (if p = p' then 1 else 0) = refs p' cs := by
    intro p'
    have := refs_update (p := p') ⟨row.master - 1, none⟩ hc hr
    simp only [hd, Option.some.injEq] at this
    simpa using this
  have hsum := decr_sum (cfg := cfg) a idx hvl hrs hpos
  rw [dec64_pos (show 0 < cell m p cfg.rowSize by omega)]
  generalize hm' : (if cell m p cfg.rowSize - 1 = 0
              then reclaim (setCell m p cfg.rowSize (cell m p cfg.rowSize - 1)) p
              else setCell m p cfg.rowSize (cell m p cfg.rowSize - 1)) = m'
  have hcells : m'.cells = (setCell m p cfg.rowSize (cell m p cfg.rowSize - 1)).cells := by
    rw [← hm']; split <;> rfl
  have hnext : m'.next = m.next := by rw [← hm']; split <;> rfl
  have hget : ∀ x, x ≠ p → m'.cells.get x = m.cells.get x := by
    intro x hx; rw [hcells, setCell_get_ne _ _ _ _ hx]
  have hsameP : Same cfg m m' p := by
    constructor
    · rw [hcells, setCell_len]
    · intro col hc'
      rw [cell_of_cells hcells, cell_setCell_ne_col _ _ _ _ _ (by omega)]
  have hcnt : cell m' p cfg.rowSize = cell m p cfg.rowSize - 1 := by
    rw [cell_of_cells hcells]; exact cell_setCell_same (by rw [hdi.len]; omega)
  refine ⟨?_, by rw [hv, dec64_pos hpos], ?_⟩
  · refine update_row hinv hc ha hr rfl rfl (by simp) (fun r' col hr' hcol' => at_set_other a idx _ hvl r' col hr' hcol')
      (by omega) ?_ ?_ ?_ ?_ ?_
    · intro p' hp'; cases hp'
    · intro p' _ _ _
      have hrf := hrefs p'
      by_cases hpp : p' = p
      · subst hpp
        rw [if_pos rfl] at hrf
        exact ⟨hsameP, by omega⟩
      · rw [if_neg (fun e => hpp e.symm)] at hrf
        refine ⟨Same.rfl' (hget p' hpp), ?_⟩
        rw [cell_of_get (hget p' hpp)]; omega
    · refine ⟨?_, fun _ => ⟨(fun h => by rw [hph] at h; cases h), ?_⟩, fun p' hp' => by cases hp'⟩
      · show row.master - 1 = _
        rw [hrow.master]; omega
      · by_cases hs : sumTo (fun col => a.at (idx / cfg.rowSize * cfg.rowSize + col)) cfg.rowSize =
            a.at (idx / cfg.rowSize * cfg.rowSize + idx % cfg.rowSize)
        · have hz := sumTo_eq_single hcol hs
          refine atMostOne_of_zero (j := idx % cfg.rowSize) ?_
          intro col hc' hne
          rw [decr_row a idx hvl col hc', if_neg hne]
          exact hz col hc' hne
        · apply atMostOne_of_sum_le_one
          have hm2 : row.master = 2 := by
            rcases hcond with h | h
            · rw [hrow.master, hv] at h; rw [idx_split] at hs; exact absurd h hs
            · exact h
          have hle := le_sumTo (f := fun col => a.at (idx / cfg.rowSize * cfg.rowSize + col)) hcol
          rw [hrow.master] at hm2
          simp only [idx_split] at hs hle
          omega
    · rw [← hm']
      split
      · rw [reclaim_free, setCell_free, List.nodup_cons]
        exact ⟨hinv.free_not_ref hppos, hinv.nodup⟩
      · exact hinv.nodup
    · intro x hx
      have hrf := hrefs x
      have hxin : x ∈ m.free ∨ (x = p ∧ cell m p cfg.rowSize - 1 = 0) := by
        rw [← hm'] at hx
        split at hx
        · rename_i h0
          rw [reclaim_free, setCell_free, List.mem_cons] at hx
          rcases hx with h | h
          · exact Or.inr ⟨h, h0⟩
          · exact Or.inl h
        · exact Or.inl hx
      rw [hnext]
      rcases hxin with h | ⟨h, h0⟩
      · have : x < m.next ∧ refs x cs = 0 := hinv.free x h
        exact ⟨this.1, by omega⟩
      · subst h
        rw [if_pos rfl] at hrf
        exact ⟨hdi.lt, by omega⟩
  · intro x _ col hc'
    by_cases hxp : x = p
    · subst hxp; exact hsameP.2 col hc'
    · exact cell_of_get (hget x hxp) col


/-- `decr`, the row has one sharer: the column is decremented in place -/
theorem decr_inplace {cfg : Cfg} {m : Mem} {cs : List (Option Cnt)} {aw : AWorld} {i idx p : Nat} {c : Cnt} {a : A}
    {row : Row} (hinv : Inv cfg ⟨m, cs⟩ aw) (hc : cs.getD i none = some c) (ha : aw.getD i none = some a)
    (hrs : 0 < cfg.rowSize) (hph : a.phase = .running) (hidx : idx < a.rows * cfg.rowSize) (hpos : 0 < a.at idx)
    (hr : c[idx / cfg.rowSize]? = some row) (hd : row.data = some p)
    (hrc1 : ¬ cell m p cfg.rowSize > 1) :
    Inv cfg ⟨setCell m p (idx % cfg.rowSize) (dec64 (cell m p (idx % cfg.rowSize))),
        cs.set i (some (c.set (idx / cfg.rowSize) ⟨row.master - 1, some p⟩))⟩ (aw.set i (some (decA a idx))) ∧
    dec64 (cell m p (idx % cfg.rowSize)) = a.at idx - 1 ∧
    NoSharedWrite cfg cs m (setCell m p (idx % cfg.rowSize) (dec64 (cell m p (idx % cfg.rowSize)))) := by
  have hold : CntInv cfg m cs c a := hinv.cnt i c a hc ha
  have hrow := hold.rows _ row hr
  have hdi := hrow.data p hd
  have hvl : idx < a.val.length := by rw [hold.vlen]; exact hidx
  have hcol : idx % cfg.rowSize < cfg.rowSize := Nat.mod_lt _ hrs
  have hfpos : 0 < a.at (idx / cfg.rowSize * cfg.rowSize + idx % cfg.rowSize) := by rw [idx_split]; exact hpos
  have hv : cell m p (idx % cfg.rowSize) = a.at idx := by
    have := hdi.cols _ hcol hfpos
    rw [this, idx_split]
  have hrc := hdi.run hph
  have hppos : 0 < refs p cs := refs_pos_of_get hc hr hd
  have hp1 : refs p cs = 1 := by omega
  have hsame : ∀ p', refs p' (cs.set i (some (c.set (idx / cfg.rowSize) ⟨row.master - 1, some p⟩))) = refs p' cs := by
    intro p'
    have := refs_update (p := p') ⟨row.master - 1, some p⟩ hc hr
    simp only [hd] at this
    omega
  have hsum := decr_sum (cfg := cfg) a idx hvl hrs hpos
  rw [hv, dec64_pos hpos]
  have hget : ∀ x, x ≠ p → (setCell m p (idx % cfg.rowSize) (a.at idx - 1)).cells.get x = m.cells.get x :=
    fun x hx => setCell_get_ne _ _ _ _ hx
  refine ⟨?_, rfl, ?_⟩
  · refine update_row hinv hc ha hr rfl rfl (by simp) (fun r' col hr' hcol' => at_set_other a idx _ hvl r' col hr' hcol')
      (Nat.le_refl _) ?_ ?_ ?_ hinv.nodup ?_
    · intro p' hp'; cases hp'
      rw [hsame]; exact hp1
    · intro p' hp' _ _
      have hne : p' ≠ p := fun e => hp' (by rw [e])
      refine ⟨Same.rfl' (hget p' hne), ?_⟩
      rw [cell_of_get (hget p' hne), hsame]
    · refine ⟨?_, (fun h => by cases h), ?_⟩
      · show row.master - 1 = _
        rw [hrow.master]; omega
      · intro p' hp'
        cases hp'
        refine ⟨hdi.lt, by simp [hdi.len], ?_, fun _ => ?_, (fun h => by rw [hph] at h; cases h),
          (fun h => by rw [hph] at h; cases h)⟩
        · intro col hc' hcpos
          rw [decr_row a idx hvl col hc'] at hcpos ⊢
          by_cases hcc : col = idx % cfg.rowSize
          · rw [if_pos hcc, hcc]
            exact cell_setCell_same (by rw [hdi.len]; omega)
          · rw [if_neg hcc] at hcpos ⊢
            rw [cell_setCell_ne_col _ _ _ _ _ hcc]
            exact hdi.cols col hc' hcpos
        · rw [cell_setCell_ne_col _ _ _ _ _ (by omega), hsame]; exact hrc
    · intro p' hp'
      rw [hsame]; exact hinv.free p' hp'
  · intro x hx col _
    have hne : x ≠ p := fun e => by rw [e] at hx; omega
    exact cell_of_get (hget x hne) col

/-- `decr`, the row has two or more sharers: copy on write -/
theorem decr_copy {cfg : Cfg} {m : Mem} {cs : List (Option Cnt)} {aw : AWorld} {i idx p : Nat} {c : Cnt} {a : A}
    {row : Row} (hinv : Inv cfg ⟨m, cs⟩ aw) (hc : cs.getD i none = some c) (ha : aw.getD i none = some a)
    (hrs : 0 < cfg.rowSize) (hph : a.phase = .running) (hidx : idx < a.rows * cfg.rowSize) (hpos : 0 < a.at idx)
    (hr : c[idx / cfg.rowSize]? = some row) (hd : row.data = some p) :
    Inv cfg ⟨(cow cfg m p (idx % cfg.rowSize)).1,
        cs.set i (some (c.set (idx / cfg.rowSize) ⟨row.master - 1, some (cow cfg m p (idx % cfg.rowSize)).2.1⟩))⟩
      (aw.set i (some (decA a idx))) ∧
    (cow cfg m p (idx % cfg.rowSize)).2.2 = a.at idx - 1 ∧
    NoSharedWrite cfg cs m (cow cfg m p (idx % cfg.rowSize)).1 := by
  have hold : CntInv cfg m cs c a := hinv.cnt i c a hc ha
  have hrow := hold.rows _ row hr
  have hdi := hrow.data p hd
  have hvl : idx < a.val.length := by rw [hold.vlen]; exact hidx
  have hcol : idx % cfg.rowSize < cfg.rowSize := Nat.mod_lt _ hrs
  have hfpos : 0 < a.at (idx / cfg.rowSize * cfg.rowSize + idx % cfg.rowSize) := by rw [idx_split]; exact hpos
  have hv : cell m p (idx % cfg.rowSize) = a.at idx := by
    have := hdi.cols _ hcol hfpos
    rw [this, idx_split]
  have hrc := hdi.run hph
  have hppos : 0 < refs p cs := refs_pos_of_get hc hr hd
  have hsum := decr_sum (cfg := cfg) a idx hvl hrs hpos
  have hcow := cow_spec (cfg := cfg) (m := m) (cs := cs) (p := p) (col := idx % cfg.rowSize) hinv.nodup hinv.free
    (fun x hx => (hinv.ref hx).1) hppos hdi.len hcol (by rw [hv]; exact hpos)
  generalize (cow cfg m p (idx % cfg.rowSize)).1 = m' at *
  generalize (cow cfg m p (idx % cfg.rowSize)).2.1 = q at *
  generalize (cow cfg m p (idx % cfg.rowSize)).2.2 = out at *
  have hrefs : ∀ p', refs p' (cs.set i (some (c.set (idx / cfg.rowSize) ⟨row.master - 1, some q⟩))) +
      (if p = p' then 1 else 0) = refs p' cs + (if q = p' then 1 else 0) := by
    intro p'
    have := refs_update (p := p') ⟨row.master - 1, some q⟩ hc hr
    simp only [hd, Option.some.injEq] at this
    exact this
  have hq1 : refs q (cs.set i (some (c.set (idx / cfg.rowSize) ⟨row.master - 1, some q⟩))) = 1 := by
    have := hrefs q
    rw [if_neg (show ¬ p = q from fun e => hcow.ne e.symm), if_pos rfl, hcow.fresh] at this
    omega
  refine ⟨?_, by rw [hcow.out, hv], ?_⟩
  · refine update_row hinv hc ha hr rfl rfl (by simp) (fun r' col hr' hcol' => at_set_other a idx _ hvl r' col hr' hcol')
      hcow.next ?_ ?_ ?_ hcow.nodup ?_
    · intro p' hp'; cases hp'
      exact hq1
    · intro p' hp' hpos' _
      have hne : p' ≠ q := fun e => hp' (by rw [e])
      have hrf := hrefs p'
      rw [if_neg (show ¬ q = p' from fun e => hne e.symm)] at hrf
      by_cases hpp : p' = p
      · subst hpp
        rw [if_pos rfl] at hrf
        refine ⟨hcow.same, ?_⟩
        rw [hcow.cnt]; omega
      · rw [if_neg (show ¬ p = p' from fun e => hpp e.symm)] at hrf
        refine ⟨Same.rfl' (hcow.other p' hpp hne), ?_⟩
        rw [cell_of_get (hcow.other p' hpp hne)]; omega
    · refine ⟨?_, (fun h => by cases h), ?_⟩
      · show row.master - 1 = _
        rw [hrow.master]; omega
      · intro p' hp'
        cases hp'
        refine ⟨hcow.lt, hcow.len, ?_, fun _ => ?_, (fun h => by rw [hph] at h; cases h),
          (fun h => by rw [hph] at h; cases h)⟩
        · intro col hc' hcpos
          rw [decr_row a idx hvl col hc'] at hcpos ⊢
          by_cases hcc : col = idx % cfg.rowSize
          · rw [if_pos hcc, hcc, hcow.atCol, hv]
          · rw [if_neg hcc] at hcpos ⊢
            rw [hcow.atOther col hc' hcc]
            exact hdi.cols col hc' hcpos
        · rw [hcow.one, hq1]
    · intro x hx
      have hx' := hcow.free x hx
      have hx2 : x < m.next ∧ refs x cs = 0 := hinv.free x hx'.1
      refine ⟨Nat.lt_of_lt_of_le hx2.1 hcow.next, ?_⟩
      have hrf := hrefs x
      rw [if_neg (show ¬ q = x from fun e => hx'.2 e.symm)] at hrf
      omega
  · intro x hx col hc'
    by_cases hxp : x = p
    · subst hxp; exact hcow.same.2 col hc'
    · have hxq : x ≠ q := fun e => by rw [e, hcow.fresh] at hx; omega
      exact cell_of_get (hcow.other x hxp hxq) col


/-- `decr(label, state)` inside the discipline -/
theorem decr_inv {cfg : Cfg} {m : Mem} {cs : List (Option Cnt)} {aw : AWorld} {i l q idx : Nat} {c : Cnt} {a : A}
    (hinv : Inv cfg ⟨m, cs⟩ aw) (hc : cs.getD i none = some c) (ha : aw.getD i none = some a)
    (hk : keyIdx cfg l q = some idx) (hph : a.phase = .running) (hidx : idx < a.rows * cfg.rowSize)
    (hpos : 0 < a.at idx) :
    ∃ r, decr cfg m c l q = some r ∧
      Inv cfg ⟨r.1, cs.set i (some r.2.1)⟩ (aw.set i (some (decA a idx))) ∧ r.2.2 = a.at idx - 1 ∧
      NoSharedWrite cfg cs m r.1 := by
  obtain ⟨hloc, hrs⟩ := locate_of_keyIdx hk
  have hold : CntInv cfg m cs c a := hinv.cnt i c a hc ha
  have hrl : idx / cfg.rowSize < c.length := by rw [hold.len]; exact div_lt_rows hidx
  have hr : c[idx / cfg.rowSize]? = some c[idx / cfg.rowSize] := List.getElem?_eq_getElem hrl
  generalize c[idx / cfg.rowSize] = row at hr
  have hrow := hold.rows _ row hr
  have hcol : idx % cfg.rowSize < cfg.rowSize := Nat.mod_lt _ hrs
  have hm : ¬ row.master = 0 := by
    have := le_sumTo (f := fun col => a.at (idx / cfg.rowSize * cfg.rowSize + col)) hcol
    simp only [idx_split] at this
    rw [hrow.master]; omega
  unfold decr
  simp only [hloc, hr, if_neg hm]
  cases hd : row.data with
  | none =>
    obtain ⟨h1, h2⟩ := decr_none hinv hc ha hrs hph hidx hpos hr hd
    exact ⟨_, rfl, h1, h2, fun _ _ _ _ => rfl⟩
  | some p =>
    simp only
    by_cases hcond : row.master = cell m p (idx % cfg.rowSize) ∨ row.master = 2
    · rw [if_pos hcond]
      obtain ⟨h1, h2, h3⟩ := decr_drop hinv hc ha hrs hph hidx hpos hr hd hcond
      exact ⟨_, rfl, h1, h2, h3⟩
    · rw [if_neg hcond]
      by_cases hrc : cell m p cfg.rowSize > 1
      · rw [if_pos hrc]
        obtain ⟨h1, h2, h3⟩ := decr_copy hinv hc ha hrs hph hidx hpos hr hd
        exact ⟨_, rfl, h1, h2, h3⟩
      · rw [if_neg hrc]
        obtain ⟨h1, h2, h3⟩ := decr_inplace hinv hc ha hrs hph hidx hpos hr hd hrc
        exact ⟨_, rfl, h1, h2, h3⟩

end P
end Vata.LU.SC
