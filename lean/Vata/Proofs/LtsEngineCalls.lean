import Vata.LtsEngineCalls
import Vata.Proofs.LtsEngine
/-!
# The instrumented LTS engine: trace erasure

Forgetting the trace of `Vata/LtsEngineCalls.lean` gives the plain engine of `Vata/LtsEngine.lean`, function by function.
-/
namespace Vata.LEC
open Vata.L Vata.LE Vata.LU

theorem foldl_fst {σ τ α : Type} (g : σ × τ → α → σ × τ) (f : σ → α → σ) (h : ∀ s x, (g s x).1 = f s.1 x) :
    ∀ (l : List α) (s : σ × τ), (l.foldl g s).1 = l.foldl f s.1
  | [], _ => rfl
  | x :: l, s => by simp only [List.foldl_cons]; rw [foldl_fst g f h l, h]

theorem fastSplitStepI_fst (L : LTS) (obj : Nat → Nat) (part0 : List (List Nat)) (rm : List Nat) (et : IE) (b : Nat) :
    (fastSplitStepI L obj part0 rm et b).1 = fastSplitStep L part0 rm et.1 b := by
  unfold fastSplitStepI fastSplitStep
  cases trySplit (et.1.block b) (tmpOf part0 rm b) with
  | none => rfl
  | some rn => rfl

theorem fastSplitI_fst (L : LTS) (obj : Nat → Nat) (et : IE) (rm : List Nat) :
    (fastSplitI L obj et rm).1 = fastSplit L et.1 rm := by
  unfold fastSplitI fastSplit
  exact foldl_fst _ _ (fastSplitStepI_fst L obj et.1.part rm) _ _

theorem initRefineI_fst (L : LTS) (obj : Nat → Nat) (et : IE) : (initRefineI L obj et).1 = initRefine L et.1 := by
  unfold initRefineI initRefine
  exact foldl_fst _ _ (fun s a => fastSplitI_fst L obj s (delta1 L a)) _ _

theorem splitStepI_fst (L : LTS) (obj : Nat → Nat) (part0 : List (List Nat)) (rm : List Nat)
    (emt : (Eng × List Nat) × Tr) (b : Nat) : (splitStepI L obj part0 rm emt b).1 = splitStep L part0 rm emt.1 b := by
  unfold splitStepI splitStep
  cases trySplit (emt.1.1.block b) (tmpOf part0 rm b) with
  | none => rfl
  | some rn => rfl

theorem splitI_fst (L : LTS) (obj : Nat → Nat) (et : IE) (rm : List Nat) : (splitI L obj et rm).1 = split L et.1 rm := by
  unfold splitI split
  exact foldl_fst _ _ (splitStepI_fst L obj et.1.part rm) _ _

theorem processRemoveI_fst (L : LTS) (obj : Nat → Nat) (et : IE) (b a : Nat) :
    (processRemoveI L obj et b a).1 = processRemove L et.1 b a := by
  unfold processRemoveI processRemove
  cases et.1.remv b a with
  | none => rfl
  | some remove =>
    simp only
    rw [foldl_fst (fun (et' : IE) b1 => (pruneRow L _ et'.1 b1, et'.2.addSR [SR.Op.eraseRow b1 _]))
      (pruneRow L (splitI L obj ({ et.1 with rem := setRem et.1.rem b a none }, et.2) (flat remove)).1.2) (fun _ _ => rfl)]
    simp only [splitI_fst]

theorem stepOnceI_fst (L : LTS) (obj : Nat → Nat) (et : IE) : (stepOnceI L obj et).1 = stepOnce L et.1 := by
  unfold stepOnceI stepOnce
  cases et.1.queue with
  | nil => rfl
  | cons k rest => obtain ⟨b, a⟩ := k; exact processRemoveI_fst L obj _ b a

theorem engineRunI_fst (L : LTS) (obj : Nat → Nat) : ∀ (fuel : Nat) (et : IE),
    (engineRunI L obj fuel et).map (·.1) = engineRun L fuel et.1
  | 0, et => by
    unfold engineRunI engineRun
    cases et.1.queue <;> rfl
  | fuel + 1, et => by
    unfold engineRunI engineRun
    cases et.1.queue with
    | nil => rfl
    | cons k rest =>
      obtain ⟨b, a⟩ := k
      simp only
      rw [engineRunI_fst L obj fuel, processRemoveI_fst]

theorem initCountersI_fst (L : LTS) (so : Nat) (et : IE) : (initCountersI L so et).1 = initCounters L et.1 := by
  unfold initCountersI initCounters
  rw [foldl_fst (f := fun e b1 => (e.ins b1).foldl (initSlot L b1) e)]
  intro s b1
  exact foldl_fst _ (initSlot L b1) (fun _ _ => rfl) _ _

theorem engineInitI_fst (L : LTS) (part : List (List Nat)) (rel : Rel) : (engineInitI L part rel).1 = engineInit L part rel := by
  unfold engineInitI engineInit
  simp only [initCountersI_fst, initPruneI, initRefineI_fst, initBlocksI]

theorem stateAfterI_fst (L : LTS) (part : List (List Nat)) (rel : Rel) :
    ∀ k, (stateAfterI L part rel k).1 = stateAfter L part rel k
  | 0 => engineInitI_fst L part rel
  | k + 1 => by
    show (stepOnceI L _ (stateAfterI L part rel k)).1 = stepOnce L (stateAfter L part rel k)
    rw [stepOnceI_fst, stateAfterI_fst L part rel k]

/-- **trace erasure**: the instrumented engine returns what the plain engine returns -/
theorem trace_erasure (L : LTS) (part : List (List Nat)) (rel : Rel) (size : Nat) :
    (computeSimulationI L part rel size).map (·.1) = computeSimulation L part rel size := by
  unfold computeSimulationI computeSimulation
  split
  · rfl
  · rw [Option.map_map, ← engineInitI_fst, ← engineRunI_fst L (objR L (nb0 L part rel)), Option.map_map]
    rfl

end Vata.LEC
