import Vata.Timbuk
/-!
# Normal forms of Timbuk descriptions (property C13) – executable definitions

The C++ `AutDescription` keeps `std::set`s; the model keeps lists.  A list is *the* list of a `std::set` when it is
strictly increasing for the C++ comparison (`sortedB`).  `Desc.sortedB` / `AutDesc.NormalForm`: all four lists of a
description are in `std::set` iteration order; `Desc.normalize` / `AutDesc.normalize`: the `std::set` view of an arbitrary
description, with the name the serializer writes (`anonymous` for the empty name).
-/
namespace Vata.Timbuk

/-- every element is below its successor (for a transitive `lt`: the list is strictly increasing) -/
def sortedB {α : Type} (lt : α → α → Bool) : List α → Bool
  | [] => true
  | [_] => true
  | a :: b :: r => lt a b && sortedB lt (b :: r)

/-- the four lists are in `std::set` iteration order -/
def Desc.sortedB (d : Desc) : Bool :=
  Timbuk.sortedB ltSym d.symbols && Timbuk.sortedB ltStr d.states && Timbuk.sortedB ltStr d.final &&
    Timbuk.sortedB ltTrans d.trans

/-- the description as `std::set`s, under the name that the serializer writes -/
def Desc.normalize (d : Desc) : Desc where
  name := if d.name.isEmpty then kwAnonymous else d.name
  symbols := norm ltSym d.symbols
  states := norm ltStr d.states
  final := norm ltStr d.final
  trans := norm ltTrans d.trans

/-- executable test: the two lists have the same set of elements -/
def sameSetB {α : Type} [DecidableEq α] (l l' : List α) : Bool :=
  l.all (fun x => l'.contains x) && l'.all (fun x => l.contains x)

/-- executable test: the same name and, section by section, the same sets -/
def Desc.sameSetsB (d d' : Desc) : Bool :=
  decide (d.name = d'.name) && sameSetB d.symbols d'.symbols && sameSetB d.states d'.states &&
    sameSetB d.final d'.final && sameSetB d.trans d'.trans

end Vata.Timbuk

namespace Vata
open Timbuk

/-- the four lists of the description are in `std::set` iteration order (strictly increasing for `std::string` /
`std::pair` / `Triple` `operator<`, hence duplicate-free) -/
def AutDesc.NormalForm (d : AutDesc) : Prop := (ofS d).sortedB = true

instance (d : AutDesc) : Decidable d.NormalForm := inferInstanceAs (Decidable (_ = true))

/-- the description as `std::set`s, under the name that the serializer writes (`anonymous` for the empty name) -/
def AutDesc.normalize (d : AutDesc) : AutDesc := (ofS d).normalize.toS

end Vata
