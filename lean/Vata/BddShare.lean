import Vata.Ref
import Vata.UnionModel
import Vata.IsectModel
/-!
# BDD automata are handles on SHARED transition tables – the sharing model (property C08)

`BDDBUTreeAutCore` / `BDDTDTreeAutCore` (`src/bdd_bu_tree_aut_core.{hh,cc}`, `src/bdd_td_tree_aut_core.{hh,cc}`) hold a
`std::shared_ptr` to a transition table and, per object, the final states; the bottom-up class holds in addition, PER
OBJECT, the MTBDD of the nullary tuple (`TransTableWrapper::nullaryMtbdd_`, `src/bdd_bu_tt_wrapper.hh`: only the non-empty
tuples live in the shared `BDDBottomUpTransTable`).  The copy constructor and `operator=` copy the pointer.  This file is
the executable model of that plumbing at the abstraction "a table is a list of rules" (the MTBDD level is
`Vata/BddAbs.lean`, `Vata/BddAbsTD.lean`, `Vata/BddIsect.lean`):

* a heap of table cells `(rules, use_count)`, never reusing an identifier; a cell whose count drops to 0 is freed;
* a pool of handles `(table id, own leaf rules, own final states)` – the leaf rules are `[]` in the top-down encoding;
* every step of the `bddh` histories of the correspondence check (`harness/vharness.cc`, `bddHist`) AS CODED with respect
  to sharing:

| step | table of the result | code |
|---|---|---|
| `def` (load + `ReindexStates`) | fresh | `ReindexStates(trans)`: `BDD…Core res; …SetMtbdd…` |
| `copy`, `assign` | shares (`use_count` + 1; `assign` releases the old table) | copy constructor, `operator=` |
| `kill` | releases | destructor |
| `loadinto` (`LoadFromString` into an existing object) | `AddTransition`: `MakeUnique()` – copies the table first iff `use_count > 1` (repair 810f4347), then adds; final states and (bottom-up) leaf rules are the object's own | `loadFromAutDescExplicit` |
| `final` | untouched (own final set) | `SetStateFinal` |
| `union`, same table | shares; own leaf rules `N₁ ∪ N₂`, final states `F₁ ∪ F₂` (repair a5b49300) | `Union`, `ShareTransTable` branch |
| `union`, distinct tables | fresh (both operands reindexed into it) | `Union`, else branch |
| `uniondisj`, same table | as `union`, same table | `UnionDisjointStates` |
| `uniondisj`, distinct tables | **shares the table of the LEFT operand and WRITES the entries of the right operand's table into it IN PLACE** (`result = lhs; for (e : rhs.GetTransTable()) result.SetMtbdd(e.first, e.second)`: no `MakeUnique`, an existing entry with the same key is REPLACED) | `UnionDisjointStates`, else branch |
| `isect`, `unreach`, `useless` | fresh | `BDD…Core result;` |

The key of a table entry is the parent state (top-down) or the non-empty children tuple (bottom-up).

The fresh-table operations are represented by the explicit reference constructions whose languages are proved elsewhere
(`unionModel`, `isectFull`, `removeUnreachable`, `restrict · (prodStates ·)`, `removeUseless`); which NUMBERS the real
operations hand out (hash orders) is irrelevant here: the model is about who shares what, and the theorems quantify over
the numbers that occur.  Not visible at this abstraction: entries whose MTBDD has only empty leaves (a key without
rules; `Intersection` and the trimmings may leave such entries) – see the report in `Vata/Properties/C08_Sharing.lean`.

`pre` is the precondition of a step; `Vata/Proofs/BddShare.lean` proves it sufficient (every step inside `pre` yields
the specified language and leaves the language of every other live handle unchanged) and each of its clauses necessary
(kernel-checked histories).
-/
namespace Vata.BddShare

inductive Enc where
  | bu | td
deriving DecidableEq, Repr

/-- a cell of the table heap: the rules of the table (bottom-up: the non-nullary ones) and `use_count` -/
structure Cell where
  rules : List Rule
  rc : Nat
deriving DecidableEq, Repr

/-- an automaton object: `shared_ptr` to its table, its own nullary MTBDD (bottom-up; pairs symbol, parent), `finalStates_` -/
structure Hnd where
  tid : Nat
  nul : List (Nat × Nat)
  fin : List Nat
deriving DecidableEq, Repr

structure St where
  /-- the table heap; `none`: never allocated or freed -/
  tabs : Nat → Option Cell
  /-- the next identifier to hand out (identifiers are not reused) -/
  next : Nat
  /-- the pool of the history: entry `k` is the `k`-th automaton created; `none`: destroyed -/
  pool : List (Option Hnd)

def init : St := ⟨fun _ => none, 0, []⟩

/-- the leaf rule `f → p` -/
def leafRule (x : Nat × Nat) : Rule := ⟨x.1, [], x.2⟩

/-- does a rule live in the shared table (`true`) or in the object's nullary MTBDD (`false`)? -/
def inTable : Enc → Rule → Bool
  | .td, _ => true
  | .bu, r => !r.kids.isEmpty

def tblPart (enc : Enc) (rs : List Rule) : List Rule := rs.filter (inTable enc)
def nulPart (enc : Enc) (rs : List Rule) : List (Nat × Nat) := (rs.filter (fun r => !inTable enc r)).map (fun r => (r.sym, r.parent))

namespace St

def trules (σ : St) (t : Nat) : List Rule := match σ.tabs t with | some c => c.rules | none => []
def rcOf (σ : St) (t : Nat) : Nat := match σ.tabs t with | some c => c.rc | none => 0
def hnd (σ : St) (k : Nat) : Option Hnd := (σ.pool[k]?).join

/-- the rules an object sees: its table and its own leaf rules -/
def visible (σ : St) (h : Hnd) : List Rule := σ.trules h.tid ++ h.nul.map leafRule
/-- the explicit automaton an object denotes (this is what `DumpToString` shows) -/
def aut (σ : St) (h : Hnd) : TA := ⟨σ.visible h, h.fin⟩
def lang (σ : St) (h : Hnd) (t : Tree) : Bool := accepts (σ.aut h) t

def modCell (σ : St) (t : Nat) (f : Cell → Option Cell) : St :=
  { σ with tabs := fun t' => if t' = t then (σ.tabs t).bind f else σ.tabs t' }

/-- one more owner -/
def incr (σ : St) (t : Nat) : St := σ.modCell t (fun c => some { c with rc := c.rc + 1 })
/-- one owner less; the last owner frees the table -/
def decr (σ : St) (t : Nat) : St := σ.modCell t (fun c => if c.rc ≤ 1 then none else some { c with rc := c.rc - 1 })
/-- in-place write -/
def write (σ : St) (t : Nat) (rs : List Rule) : St := σ.modCell t (fun c => some { c with rules := rs })
/-- `new Table` with one owner; its identifier is `σ.next` -/
def alloc (σ : St) (rs : List Rule) : St :=
  { σ with tabs := fun t' => if t' = σ.next then some ⟨rs, 1⟩ else σ.tabs t', next := σ.next + 1 }
def push (σ : St) (h : Hnd) : St := { σ with pool := σ.pool ++ [some h] }
def setH (σ : St) (k : Nat) (o : Option Hnd) : St := { σ with pool := σ.pool.set k o }

/-- number of live handles on table `t` -/
def refs (σ : St) (t : Nat) : Nat := σ.pool.countP (fun o => match o with | some h => h.tid == t | none => false)

end St

/-- a new object with a fresh table holding the automaton `A` -/
def fresh (enc : Enc) (σ : St) (A : TA) : St :=
  (σ.alloc (tblPart enc A.rules)).push ⟨σ.next, nulPart enc A.rules, A.final⟩

/-- do two rules sit in the same table entry? (top-down: same parent; bottom-up: same non-empty children tuple) -/
def clash : Enc → Rule → Rule → Bool
  | .td, r, r' => r.parent == r'.parent
  | .bu, r, r' => !r.kids.isEmpty && r.kids == r'.kids

/-- `for (e : rhs.table) lhs.table.SetMtbdd(e.first, e.second)`: the entries of `Tb` REPLACE the entries of `Ta` with the same key -/
def overwrite (enc : Enc) (Ta Tb : List Rule) : List Rule :=
  Ta.filter (fun r => !(Tb.any (fun r' => clash enc r r'))) ++ Tb

/-- `RemoveUnreachableStates`: top-down reachable from the final states / bottom-up reachable (productive) -/
def trimU : Enc → TA → TA
  | .td, A => removeUnreachable A
  | .bu, A => restrict A (prodStates A)

inductive Step where
  /-- load an automaton and renumber it: `A` is the automaton WITH the numbers it received -/
  | defn (A : TA)
  | copy (i : Nat)
  /-- `pool[i] = pool[j]` -/
  | assign (i j : Nat)
  | kill (i : Nat)
  /-- `pool[i].LoadFromString(…)`: `B` is the loaded automaton with the numbers the fresh dictionary handed out -/
  | loadinto (i : Nat) (B : TA)
  | final (i q : Nat)
  | union (i j : Nat)
  | uniondisj (i j : Nat)
  | isect (i j : Nat)
  | unreach (i : Nat)
  | useless (i : Nat)
  /-- dump / reload round trip: reads only -/
  | rt (i : Nat)
deriving Repr

/-- the result of `Union` / `UnionDisjointStates` of two objects on ONE table: a copy of the left operand with the leaf rules
and the final states of both -/
def sharedRes (hi hj : Hnd) : Hnd := ⟨hi.tid, hi.nul ++ hj.nul, hi.fin ++ hj.fin⟩

def step (enc : Enc) (σ : St) : Step → Option St
  | .defn A => some (fresh enc σ A)
  | .copy i => do
    let h ← σ.hnd i
    some ((σ.incr h.tid).push h)
  | .assign i j => do
    let hi ← σ.hnd i
    let hj ← σ.hnd j
    if i = j then some σ else some (((σ.incr hj.tid).decr hi.tid).setH i (some hj))
  | .kill i => do
    let h ← σ.hnd i
    some ((σ.decr h.tid).setH i none)
  | .loadinto i B => do
    let h ← σ.hnd i
    let nul' := h.nul ++ nulPart enc B.rules
    let fin' := h.fin ++ B.final
    if B.rules.isEmpty then some (σ.setH i (some ⟨h.tid, nul', fin'⟩))
    else if 1 < σ.rcOf h.tid then
      -- copy on write: `table_ = TablePtr(new Table(*table_))`
      some (((σ.decr h.tid).alloc (σ.trules h.tid ++ tblPart enc B.rules)).setH i (some ⟨σ.next, nul', fin'⟩))
    else some ((σ.write h.tid (σ.trules h.tid ++ tblPart enc B.rules)).setH i (some ⟨h.tid, nul', fin'⟩))
  | .final i q => do
    let h ← σ.hnd i
    some (σ.setH i (some { h with fin := h.fin ++ [q] }))
  | .union i j => do
    let hi ← σ.hnd i
    let hj ← σ.hnd j
    if hi.tid = hj.tid then some ((σ.incr hi.tid).push (sharedRes hi hj))
    else some (fresh enc σ (unionModel (σ.aut hi) (σ.aut hj) [] []).1)
  | .uniondisj i j => do
    let hi ← σ.hnd i
    let hj ← σ.hnd j
    if hi.tid = hj.tid then some ((σ.incr hi.tid).push (sharedRes hi hj))
    else some ((((σ.incr hi.tid).write hi.tid (overwrite enc (σ.trules hi.tid) (σ.trules hj.tid)))).push (sharedRes hi hj))
  | .isect i j => do
    let hi ← σ.hnd i
    let hj ← σ.hnd j
    some (fresh enc σ (isectFull (σ.aut hi) (σ.aut hj)))
  | .unreach i => do
    let h ← σ.hnd i
    some (fresh enc σ (trimU enc (σ.aut h)))
  | .useless i => do
    let h ← σ.hnd i
    some (fresh enc σ (removeUseless (σ.aut h)))
  | .rt i => do
    let _ ← σ.hnd i
    some σ

/-! ## the precondition -/

def rstates (rs : List Rule) : List Nat := rs.flatMap Rule.states

def disj (a b : List Nat) : Bool := a.all (fun x => !b.contains x)

/-- one round of the upward closure: the parents of the rules that have a child in `C` -/
def upStep (rs : List Rule) (C : List Nat) : List Nat :=
  unionL C ((rs.filter (fun r => r.kids.any (fun k => C.contains k))).map (·.parent))

def upClose (rs : List Rule) : Nat → List Nat → List Nat
  | 0, C => C
  | n + 1, C => upClose rs n (upStep rs C)

/-- `C` is closed upwards under the rules: a rule with a child in `C` has its parent in `C` -/
def upClosedB (rs : List Rule) (C : List Nat) : Bool :=
  rs.all (fun r => !(r.kids.any (fun k => C.contains k)) || C.contains r.parent)

/-- the states that the leaf rules `n₂ \ n₁` can influence: the upward closure of their parents under the table -/
def influence (R : List Rule) (n₁ n₂ : List (Nat × Nat)) : List Nat :=
  upClose R (R.length + 1) (dedupL ((n₂.filter (fun x => !n₁.contains x)).map (·.2)))

/-- **clause S** (`union` / `uniondisj` of two objects on ONE table; vacuous in the top-down encoding, where objects have no
leaf rules of their own): every final state of the result is a final state of one operand that the leaf rules ONLY THE OTHER
operand has cannot influence (`C₁`: what the leaf rules of `hj` missing in `hi` influence, `C₂`: the converse) -/
def clauseS (σ : St) (hi hj : Hnd) : Bool :=
  let R := σ.trules hi.tid
  let C₁ := influence R hi.nul hj.nul
  let C₂ := influence R hj.nul hi.nul
  upClosedB R C₁ && upClosedB R C₂ &&
    (hi.fin ++ hj.fin).all (fun q => (hi.fin.contains q && !C₁.contains q) || (hj.fin.contains q && !C₂.contains q))

/-- **clause T** (`uniondisj`, distinct tables): no state of the right operand – of its WHOLE table, its leaf rules, its final
states – occurs in the left operand's TABLE (stale rules of earlier writes included) -/
def clauseT (σ : St) (hi hj : Hnd) : Bool := disj (rstates (σ.trules hi.tid)) (σ.aut hj).states

/-- **clause A**: … nor in the left operand's own leaf rules or final states -/
def clauseA (σ : St) (hi hj : Hnd) : Bool := disj (hi.nul.map (·.2) ++ hi.fin) (σ.aut hj).states

/-- **clause H**: no OTHER live object on the left operand's table has a final state that is the parent of a rule of the
right operand's table (the rules that get written) -/
def clauseH (σ : St) (i : Nat) (hi hj : Hnd) : Bool :=
  (List.range σ.pool.length).all (fun k => k == i || match σ.hnd k with
    | some h => h.tid != hi.tid || disj h.fin ((σ.trules hj.tid).map (·.parent))
    | none => true)

/-- **clause L** (`loadinto`): the numbers of the loaded automaton do not occur in the object -/
def clauseL (σ : St) (h : Hnd) (B : TA) : Bool := disj (σ.aut h).states B.states

def pre (_enc : Enc) (σ : St) : Step → Bool
  | .loadinto i B => match σ.hnd i with
    | some h => clauseL σ h B
    | none => false
  | .union i j => match σ.hnd i, σ.hnd j with
    | some hi, some hj => hi.tid != hj.tid || clauseS σ hi hj
    | _, _ => false
  | .uniondisj i j => match σ.hnd i, σ.hnd j with
    | some hi, some hj =>
      if hi.tid = hj.tid then clauseS σ hi hj else clauseT σ hi hj && clauseA σ hi hj && clauseH σ i hi hj
    | _, _ => false
  | _ => true

/-! ## histories -/

def run (enc : Enc) : St → List Step → Option St
  | σ, [] => some σ
  | σ, s :: ss => (step enc σ s).bind (fun σ' => run enc σ' ss)

/-- every step of the history is inside the precondition (and defined: its operands are live) -/
def preRun (enc : Enc) : St → List Step → Bool
  | _, [] => true
  | σ, s :: ss => pre enc σ s && match step enc σ s with
    | some σ' => preRun enc σ' ss
    | none => false

/-- the language of entry `k` after a history, on one tree (`none`: the history is undefined or the entry is dead) -/
def langAfter (enc : Enc) (ss : List Step) (k : Nat) (t : Tree) : Option Bool :=
  (run enc init ss).bind (fun σ => (σ.hnd k).map (fun h => σ.lang h t))

/-- the dump of entry `k` after a history -/
def autAfter (enc : Enc) (ss : List Step) (k : Nat) : Option TA :=
  (run enc init ss).bind (fun σ => (σ.hnd k).map (fun h => σ.aut h))

/-! ## the generator's heuristic (`tools/gen.py`, `g_bddh`), for comparison with `pre`

"Table families" (entries that MAY share a table) and "number blocks" (`q / 100`; block `0` is the generator's block `"f"` of
small numbers handed out by fresh dictionaries and counters): `uniondisj a b` is emitted only for entries of different
families whose block sets are disjoint, `loadinto i` only when the family of `i` has no small numbers; `final` and `union`
are always emitted. -/

structure HSt where
  /-- entry ↦ family -/
  fam : List Nat
  /-- family ↦ blocks that occur in a table or final set of its members -/
  blocks : List (List Nat)

def HSt.famOf (σ : HSt) (i : Nat) : Nat := σ.fam.getD i 0
def HSt.bl (σ : HSt) (f : Nat) : List Nat := σ.blocks.getD f []
def HSt.addBlocks (σ : HSt) (f : Nat) (bl : List Nat) : HSt := { σ with blocks := σ.blocks.set f (unionL (σ.bl f) bl) }
/-- a new entry in family `f` -/
def HSt.newIn (σ : HSt) (f : Nat) (bl : List Nat) : HSt := ({ σ with fam := σ.fam ++ [f] }).addBlocks f bl
/-- a new entry in a new family -/
def HSt.newFam (σ : HSt) (bl : List Nat) : HSt := { fam := σ.fam ++ [σ.blocks.length], blocks := σ.blocks ++ [dedupL bl] }

/-- one step of the generator's bookkeeping; `none`: the generator does not emit the step in this situation -/
def heurStep (σ : HSt) : Step → Option HSt
  | .defn A => some (σ.newFam (A.states.map (· / 100)))
  | .copy i => some (σ.newIn (σ.famOf i) [])
  | .assign i j => some { σ with fam := σ.fam.set i (σ.famOf j) }
  | .kill _ => some σ
  | .loadinto i _ => if (σ.bl (σ.famOf i)).contains 0 then none else some (σ.addBlocks (σ.famOf i) [0])
  | .final i q => some (σ.addBlocks (σ.famOf i) [q / 100])
  | .union i j => if σ.famOf i = σ.famOf j then some (σ.newIn (σ.famOf i) [0]) else some (σ.newFam [0])
  | .uniondisj a b =>
    if σ.famOf a ≠ σ.famOf b ∧ disj (σ.bl (σ.famOf a)) (σ.bl (σ.famOf b)) = true
    then some (σ.newIn (σ.famOf a) (σ.bl (σ.famOf b))) else none
  | .isect _ _ => some (σ.newFam [0])
  | .unreach i => some (σ.newIn (σ.famOf i) [])
  | .useless i => some (σ.newIn (σ.famOf i) [])
  | .rt _ => some σ

/-- the generator may emit this history -/
def heurRun : HSt → List Step → Bool
  | _, [] => true
  | σ, s :: ss => match heurStep σ s with
    | some σ' => heurRun σ' ss
    | none => false

end Vata.BddShare
