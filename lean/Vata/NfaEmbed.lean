import Vata.Lang
import Vata.Nfa
/-!
# Word automata inside the tree-automata engine (L1)

An NFA is embedded as a tree automaton over the unary signature `{#:0} ∪ {a+1 : 1}`: the word `a₁…aₙ` is the tree
`aₙ(…a₁(#))`.  `accepts (toTA N) (treeOf w) = acceptsW N w`, and no other tree is accepted, so every Boolean
combination of word-acceptance by several NFAs, quantified over all words, is decided exactly by `forallTrees`
(`forallWords_iff`).
-/
namespace Vata
open Vata.W

def toTA (N : NFA) : TA :=
  ⟨N.start.map (fun q => ⟨0, [], q⟩) ++ N.trans.map (fun e => ⟨e.2.1 + 1, [e.1], e.2.2⟩), N.final⟩

/-- the tree of a word given in reverse (last letter first) -/
def treeOfR : List Nat → Tree
  | [] => .node 0 []
  | a :: r => .node (a + 1) [treeOfR r]

def treeOf (w : List Nat) : Tree := treeOfR w.reverse

theorem mem_reach_leaf (N : NFA) (q : Nat) : q ∈ reach (toTA N) (.node 0 []) ↔ q ∈ N.start := by
  rw [reach, mem_post']
  simp only [toTA, List.mem_append, List.mem_map, reachL]
  constructor
  · rintro ⟨r, h | h, hs, hm, hp⟩
    · obtain ⟨q', hq', rfl⟩ := h; simp at hp; subst hp; exact hq'
    · obtain ⟨e, _, rfl⟩ := h; simp at hs
  · intro h; exact ⟨⟨0, [], q⟩, Or.inl ⟨q, h, rfl⟩, rfl, by simp [matchKids], rfl⟩

theorem mem_reach_unary (N : NFA) (a : Nat) (t : Tree) (q : Nat) :
    q ∈ reach (toTA N) (.node (a + 1) [t]) ↔ q ∈ stepW N (reach (toTA N) t) a := by
  rw [reach, mem_post']
  simp only [toTA, List.mem_append, List.mem_map, reachL, stepW, List.mem_filter, Bool.and_eq_true,
    List.contains_iff_mem, beq_iff_eq]
  constructor
  · rintro ⟨r, h | h, hs, hm, hp⟩
    · obtain ⟨q', _, rfl⟩ := h; simp at hs
    · obtain ⟨e, he, rfl⟩ := h
      simp only [matchKids, Bool.and_eq_true, List.contains_iff_mem, and_true] at hm
      simp only [Nat.add_right_cancel_iff] at hs
      exact ⟨e, ⟨he, hm, hs⟩, hp⟩
  · rintro ⟨e, ⟨he, hm, hs⟩, hp⟩
    refine ⟨⟨e.2.1 + 1, [e.1], e.2.2⟩, Or.inr ⟨e, he, rfl⟩, by simp [hs], ?_, hp⟩
    simp [matchKids, hm]

theorem reach_treeOfR (N : NFA) : ∀ (r : List Nat) (q : Nat), q ∈ reach (toTA N) (treeOfR r) ↔ q ∈ run N r.reverse
  | [], q => by simp [treeOfR, mem_reach_leaf, run]
  | a :: r, q => by
    rw [treeOfR, mem_reach_unary, List.reverse_cons, run_snoc]
    have ih : W.SetEq (reach (toTA N) (treeOfR r)) (run N r.reverse) := fun x => reach_treeOfR N r x
    rw [stepW_congr N ih]

theorem accepts_treeOf (N : NFA) (w : List Nat) : accepts (toTA N) (treeOf w) = acceptsW N w := by
  have h : W.SetEq (reach (toTA N) (treeOf w)) (run N w) := by
    intro q; rw [treeOf, reach_treeOfR, List.reverse_reverse]
  simp only [accepts, acceptsW]
  rw [← W.accepting_congr N h]
  rfl

/-! ### trees that are not words are rejected -/

def isWordTree : Tree → Bool
  | .node 0 [] => true
  | .node (_ + 1) [t] => isWordTree t
  | _ => false

def wordOfTreeR : Tree → List Nat
  | .node (a + 1) [t] => a :: wordOfTreeR t
  | _ => []

theorem treeOfR_wordOfTreeR : ∀ t : Tree, isWordTree t = true → treeOfR (wordOfTreeR t) = t
  | .node 0 [] => fun _ => rfl
  | .node 0 (_ :: _) => by simp [isWordTree]
  | .node (a + 1) [] => by simp [isWordTree]
  | .node (a + 1) [t] => by
    intro h
    simp only [isWordTree] at h
    simp only [wordOfTreeR, treeOfR, treeOfR_wordOfTreeR t h]
  | .node (a + 1) (_ :: _ :: _) => by simp [isWordTree]

theorem reach_nil_of_not_word (N : NFA) : ∀ t : Tree, isWordTree t = false → reach (toTA N) t = []
  | .node 0 [] => by simp [isWordTree]
  | .node 0 (t :: ts) => by
    intro _
    apply List.eq_nil_iff_forall_not_mem.mpr
    intro q hq
    rw [reach, mem_post'] at hq
    obtain ⟨r, hr, hs, hm, _⟩ := hq
    simp only [toTA, List.mem_append, List.mem_map] at hr
    rcases hr with ⟨q', _, rfl⟩ | ⟨e, _, rfl⟩
    · simp [matchKids, reachL] at hm
    · simp at hs
  | .node (a + 1) [] => by
    intro _
    apply List.eq_nil_iff_forall_not_mem.mpr
    intro q hq
    rw [reach, mem_post'] at hq
    obtain ⟨r, hr, hs, hm, _⟩ := hq
    simp only [toTA, List.mem_append, List.mem_map] at hr
    rcases hr with ⟨q', _, rfl⟩ | ⟨e, _, rfl⟩
    · simp at hs
    · simp [matchKids, reachL] at hm
  | .node (a + 1) [t] => by
    intro h
    simp only [isWordTree] at h
    have ih := reach_nil_of_not_word N t h
    apply List.eq_nil_iff_forall_not_mem.mpr
    intro q hq
    rw [mem_reach_unary, ih] at hq
    simp [stepW] at hq
  | .node (a + 1) (t :: t' :: ts) => by
    intro _
    apply List.eq_nil_iff_forall_not_mem.mpr
    intro q hq
    rw [reach, mem_post'] at hq
    obtain ⟨r, hr, hs, hm, _⟩ := hq
    simp only [toTA, List.mem_append, List.mem_map] at hr
    rcases hr with ⟨q', _, rfl⟩ | ⟨e, _, rfl⟩
    · simp at hs
    · simp [matchKids, reachL] at hm

/-- every tree is the tree of a word or is rejected by every embedded automaton -/
theorem tree_cases (t : Tree) : (∃ w, t = treeOf w) ∨ (∀ N : NFA, accepts (toTA N) t = false) := by
  cases h : isWordTree t
  · right; intro N; exact accepts_false_of_reach_nil (reach_nil_of_not_word N t h)
  · left
    refine ⟨(wordOfTreeR t).reverse, ?_⟩
    rw [treeOf, List.reverse_reverse, treeOfR_wordOfTreeR t h]

/-! ### the decision procedure on words -/

def forallWords (Ns : List NFA) (φ : List Bool → Bool) (fuel : Nat) : Option Bool :=
  forallTrees (Ns.map toTA) φ fuel

theorem forallWords_iff (Ns : List NFA) (φ : List Bool → Bool) (fuel : Nat) (b : Bool)
    (h : forallWords Ns φ fuel = some b) :
    b = true ↔ (∀ w, φ (Ns.map (fun N => acceptsW N w)) = true) ∧ φ (Ns.map (fun _ => false)) = true := by
  rw [forallWords] at h
  rw [forallTrees_iff _ _ _ _ h]
  simp only [List.map_map]
  constructor
  · intro hall
    constructor
    · intro w
      have := hall (treeOf w)
      have heq : List.map ((fun A => accepts A (treeOf w)) ∘ toTA) Ns = Ns.map (fun N => acceptsW N w) := by
        apply List.map_congr_left; intro N _; exact accepts_treeOf N w
      rw [heq] at this; exact this
    · -- a tree that is not a word: #(#)
      have := hall (.node 0 [.node 0 []])
      have heq : List.map ((fun A => accepts A (.node 0 [.node 0 []])) ∘ toTA) Ns = Ns.map (fun _ => false) := by
        apply List.map_congr_left; intro N _
        exact accepts_false_of_reach_nil (reach_nil_of_not_word N _ (by simp [isWordTree]))
      rw [heq] at this; exact this
  · rintro ⟨hw, hf⟩ t
    rcases tree_cases t with ⟨w, rfl⟩ | hrej
    · have heq : List.map ((fun A => accepts A (treeOf w)) ∘ toTA) Ns = Ns.map (fun N => acceptsW N w) := by
        apply List.map_congr_left; intro N _; exact accepts_treeOf N w
      rw [heq]; exact hw w
    · have heq : List.map ((fun A => accepts A t) ∘ toTA) Ns = Ns.map (fun _ => false) := by
        apply List.map_congr_left; intro N _; exact hrej N
      rw [heq]; exact hf

def InclW (A B : NFA) : Prop := ∀ w, acceptsW A w = true → acceptsW B w = true

def inclW (A B : NFA) (fuel : Nat) : Option Bool :=
  forallWords [A, B] (fun v => match v with | [a, b] => !a || b | _ => false) fuel

theorem inclW_iff (A B : NFA) (fuel : Nat) (b : Bool) (h : inclW A B fuel = some b) : b = true ↔ InclW A B := by
  rw [forallWords_iff _ _ _ _ h]
  simp only [List.map_cons, List.map_nil, InclW, Bool.not_false, Bool.true_or, and_true]
  constructor
  · intro h w ha; have := h w; simp [ha] at this; exact this
  · intro h w; cases ha : acceptsW A w <;> simp [h w, ha]

def equivW (A B : NFA) (fuel : Nat) : Option Bool :=
  forallWords [A, B] (fun v => match v with | [a, b] => a == b | _ => false) fuel

theorem equivW_iff (A B : NFA) (fuel : Nat) (b : Bool) (h : equivW A B fuel = some b) :
    b = true ↔ ∀ w, acceptsW A w = acceptsW B w := by
  rw [forallWords_iff _ _ _ _ h]
  simp only [List.map_cons, List.map_nil, beq_iff_eq, beq_self_eq_true, and_true]

def isUnionW (U A B : NFA) (fuel : Nat) : Option Bool :=
  forallWords [U, A, B] (fun v => match v with | [u, a, b] => u == (a || b) | _ => false) fuel

theorem isUnionW_iff (U A B : NFA) (fuel : Nat) (b : Bool) (h : isUnionW U A B fuel = some b) :
    b = true ↔ ∀ w, acceptsW U w = (acceptsW A w || acceptsW B w) := by
  rw [forallWords_iff _ _ _ _ h]
  simp only [List.map_cons, List.map_nil, beq_iff_eq, Bool.or_self, beq_self_eq_true, and_true]

def isIsectW (P A B : NFA) (fuel : Nat) : Option Bool :=
  forallWords [P, A, B] (fun v => match v with | [p, a, b] => p == (a && b) | _ => false) fuel

theorem isIsectW_iff (P A B : NFA) (fuel : Nat) (b : Bool) (h : isIsectW P A B fuel = some b) :
    b = true ↔ ∀ w, acceptsW P w = (acceptsW A w && acceptsW B w) := by
  rw [forallWords_iff _ _ _ _ h]
  simp only [List.map_cons, List.map_nil, beq_iff_eq, Bool.and_self, beq_self_eq_true, and_true]

def emptyW (A : NFA) (fuel : Nat) : Option Bool :=
  forallWords [A] (fun v => match v with | [a] => !a | _ => false) fuel

theorem emptyW_iff (A : NFA) (fuel : Nat) (b : Bool) (h : emptyW A fuel = some b) :
    b = true ↔ ∀ w, acceptsW A w = false := by
  rw [forallWords_iff _ _ _ _ h]
  simp only [List.map_cons, List.map_nil, Bool.not_eq_true', Bool.not_false, and_true]

/-! ### reversal (model of `Reverse`) -/

def nfaReverse (N : NFA) : NFA := ⟨N.final, N.start, N.trans.map (fun e => (e.2.2, e.2.1, e.1))⟩

end Vata
