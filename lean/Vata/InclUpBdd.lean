import Vata.InclUp
/-!
# Executable model of the BDD bottom-up upward inclusion algorithm (property C07)

Mirrors `CheckUpwardTreeInclusion` (`src/tree_incl_up.hh`) with `UpwardInclusionFunctor`
(`src/up_tree_incl_fctor.hh`) and `BDDBUTreeAutCore::ForeachUpSymbolFromTupleAndTupleSetDo`
(`src/bdd_bu_tree_aut_core.hh`), on the ABSTRACT automaton: the BDD encoding is the identity on `TA`, i.e. the MTBDD
`GetMtbdd(tuple)` is read as the function `symbol ↦ {parent | symbol(tuple) → parent}`.

What is modelled
* `antichain`, `workset` (`Antichain2Cv2<State, StateSet>`): lists of pairs `(q, S)`; `contains(…, ⊆)` is `subsumed`,
  `refine(…, ⊇)` is `refine`, `insert` appends (`std::list::insert(end)`), `lookup(k)` is `known · k` (`nullptr` = `[]`),
  `get` takes the head of the list (the C++ takes the front of the list of `unordered_map::begin()`: an arbitrary
  pair; the verdict does not depend on the order).
* `ForeachUpSymbolFromTupleAndTupleSetDo(smaller, bigger, tuple, tupleSet, fctor)`: the union over `tupleSet` of the
  MTBDDs of `bigger` evaluated at a symbol `f` is `post B f Ss` when `tupleSet = S₁ × … × Sₙ` (and the empty set when
  some `Sᵢ` is empty and `tupleSet = ∅`, which is again `post B f Ss` for `n ≥ 1`); the void apply then calls the functor
  on `(lhs f, rhs f)` for every symbol `f`; the symbols without a `tuple`-rule in `smaller` have `lhs = ∅` (no effect).
  The model iterates over the rules of `A` with children `tuple` (`foreachUp`); the state sets are sorted vectors
  (`normS`).  The order in which the MTBDD traversal meets the leaves is replaced by the order of the rules.
* the functor (`fctor`): `isImplied`; the final-state test with `failProcessing` (`error`); `cachePair`,
  `addToWorkset`.
* the main loop (`loop`, one unit of fuel per pair taken from `workset`): every tuple of the transition table of
  `smaller` (`tuplesOf`) that contains the processed state and whose other children all have a macro-state in
  `antichain` (`ready`);
  - REPAIRED code (this tree, `procTuple`): per position the list of macro-states that may be chosen (`choicesPos`:
    the processed macro-state if the child is the processed state, then the antichain's macro-states of the child,
    copied before the functor changes the antichain), and all choices of one macro-state per position (`combos`,
    position 0 runs fastest as `pick` does);
  - code BEFORE the repair (`procTupleOld`): one call per tuple, a position holding the processed state gets the
    processed macro-state, every other position the UNION of all macro-states the antichain has for that child.
  After a `failProcessing` the C++ finishes the `for` loop over the tuples (the functor stops each traversal after its
  first leaf) and then returns `false`; the model returns at once.

Every pair carries a tree `t`.  In the repaired model `q ∈ reach A t` and `S = reach B t` (as sets) hold for every pair
(proved: `Vata/Proofs/InclUpBdd.lean`); in the old model the macro-state need not be `reach B t` (for a united
position the tree of the first macro-state is taken).

`inclUpBdd` ends *certify-then-trust* like `inclUp`: `true` only together with the final antichain `X` after the check
`upCertB A B X`, `false` only with a tree `w` after the check `accepts A w && !accepts B w`; `none` = fuel exhausted
(the checks never fail on a finished run: `run_ok_cert`, `run_error_ok` in the proofs file).
`inclUpBddOld` returns the raw verdict of the old code.

Definitions only (core Lean).
-/
namespace Vata

namespace InclUpBdd
open InclUp

structure St where
  antichain : List Item
  workset : List Item

/-- `UpwardInclusionFunctor::operator()` for one state `it.q` of the left leaf and the right leaf `it.S`:
`isImplied`, the test of the final states (`failProcessing`), `cachePair` with `addToWorkset`
(`if (!contains) { refine; insert }` on each of the two antichains is `InclUp.addTmp`) -/
def fctor (A B : TA) (st : St) (it : Item) : Res St :=
  if subsumed st.antichain it.q it.S then .ok st
  else if A.final.contains it.q && !accepting B it.S then .error (it.q, it.t)
  else .ok ⟨addTmp st.antichain it, addTmp st.workset it⟩

/-- `ForeachUpSymbolFromTupleAndTupleSetDo(A, B, ks, S₁ × … × Sₙ, fctor)`; `ts` are the trees of the chosen macro-states -/
def foreachUp (A B : TA) (ks : List Nat) (Ss : List (List Nat)) (ts : List Tree) : List Rule → St → Res St
  | [], st => .ok st
  | ρ :: ρs, st =>
    if ρ.kids == ks then
      match fctor A B st ⟨ρ.parent, macroPost B ρ.sym Ss, .node ρ.sym ts⟩ with
      | .error e => .error e
      | .ok st' => foreachUp A B ks Ss ts ρs st'
    else foreachUp A B ks Ss ts ρs st

/-- the keys of the transition table of `A` -/
def tuplesOf (A : TA) : List (List Nat) :=
  A.rules.foldl (fun acc ρ => if acc.contains ρ.kids then acc else acc ++ [ρ.kids]) []

/-- `antichain.lookup(k)` -/
def known (P : List Item) (k : Nat) : List Item := P.filter (fun i => i.q == k)

/-- `allElementsInAntichain` -/
def ready (P : List Item) (q : Nat) (ks : List Nat) : Bool := ks.all (fun k => k == q || !(known P k).isEmpty)

/-! ### the repaired step: one macro-state per position -/

/-- `choices[index]` -/
def choicesPos (P : List Item) (it : Item) (k : Nat) : List Item := (if k == it.q then [it] else []) ++ known P k

/-- all choices of one element per position; position 0 runs fastest -/
def combos : List (List Item) → List (List Item)
  | [] => [[]]
  | c :: cs => (combos cs).flatMap (fun is => c.map (fun i => i :: is))

def procCombos (A B : TA) (ks : List Nat) : List (List Item) → St → Res St
  | [], st => .ok st
  | is :: iss, st =>
    match foreachUp A B ks (is.map (·.S)) (is.map (·.t)) A.rules st with
    | .error e => .error e
    | .ok st' => procCombos A B ks iss st'

/-- the body of `for (auto tupleBddPair : smaller.GetTransTable())` -/
def procTuple (A B : TA) (it : Item) (ks : List Nat) (st : St) : Res St :=
  if ks.contains it.q && ready st.antichain it.q ks then
    procCombos A B ks (combos (ks.map (choicesPos st.antichain it))) st
  else .ok st

/-! ### the step before the repair: the union of the macro-states per position -/

/-- the union of all macro-states the antichain has for `k` -/
def unionKnown (P : List Item) (k : Nat) : List Nat := normS ((known P k).flatMap (·.S))

/-- `stateSetTuple` of the old code -/
def oldSets (P : List Item) (it : Item) (ks : List Nat) : List (List Nat) :=
  ks.map (fun k => if k == it.q then it.S else unionKnown P k)

/-- some tree per position (the `A`-side is right, the `B`-side is not) -/
def oldTrees (P : List Item) (it : Item) (ks : List Nat) : List Tree :=
  ks.map (fun k => if k == it.q then it.t else match known P k with | i :: _ => i.t | [] => it.t)

def procTupleOld (A B : TA) (it : Item) (ks : List Nat) (st : St) : Res St :=
  if ks.contains it.q && ready st.antichain it.q ks then
    foreachUp A B ks (oldSets st.antichain it ks) (oldTrees st.antichain it ks) A.rules st
  else .ok st

/-! ### the main loop -/

def procTuples (proc : Item → List Nat → St → Res St) (it : Item) : List (List Nat) → St → Res St
  | [], st => .ok st
  | ks :: kss, st =>
    match proc it ks st with
    | .error e => .error e
    | .ok st' => procTuples proc it kss st'

/-- `while (workset.get(procState, procSet))`; one unit of fuel per pair -/
def loop (proc : Item → List Nat → St → Res St) (T : List (List Nat)) : Nat → St → Option (Res (List Item))
  | 0, _ => none
  | n+1, st =>
    match st.workset with
    | [] => some (.ok st.antichain)
    | it :: rest =>
      match procTuples proc it T ⟨st.antichain, rest⟩ with
      | .error e => some (.error e)
      | .ok st' => loop proc T n st'

/-- the algorithm: the nullary tuple first, then the work-list -/
def runWith (proc : TA → TA → Item → List Nat → St → Res St) (A B : TA) (fuel : Nat) : Option (Res (List Item)) :=
  match foreachUp A B [] [] [] A.rules ⟨[], []⟩ with
  | .error e => some (.error e)
  | .ok st => loop (proc A B) (tuplesOf A) fuel st

/-- the repaired algorithm: `error` = `return false`, `ok P` = `return true` with the final antichain -/
def run (A B : TA) (fuel : Nat) : Option (Res (List Item)) := runWith procTuple A B fuel

/-- the algorithm before the repair -/
def runOld (A B : TA) (fuel : Nat) : Option (Res (List Item)) := runWith procTupleOld A B fuel

def pairs (P : List Item) : List (Nat × List Nat) := P.map (fun i => (i.q, i.S))

end InclUpBdd

open InclUp InclUpBdd

/-- the verdict of `CheckUpwardTreeInclusion` as it was BEFORE the repair (uncertified) -/
def inclUpBddOld (A B : TA) (fuel : Nat) : Option Bool :=
  match runOld A B fuel with
  | none => none
  | some (.ok _) => some true
  | some (.error _) => some false

/-- `CheckUpwardTreeInclusion` (repaired), certify-then-trust -/
def inclUpBdd (A B : TA) (fuel : Nat) : Option (Bool × Cert) :=
  match InclUpBdd.run A B fuel with
  | none => none
  | some (.ok P) =>
    let X := pairs P
    if upCertB A B X then some (true, .closed X) else none
  | some (.error (_, w)) =>
    if accepts A w && !accepts B w then some (false, .witness w) else none

/-- model of `BDDBUTreeAutCore::CheckInclusion` with `ANTICHAINS_UP_NOSIM`: `SanitizeAutsForInclusion` first removes the
useless states of both operands (and renumbers the states, which the model does not need) -/
def checkInclUpBdd (A B : TA) (fuel : Nat) : Option (Bool × Cert) :=
  inclUpBdd (removeUseless A) (removeUseless B) fuel

end Vata
