import Vata.NfaIncl
/-!
# The inclusion functors of the word automata WITH their caches (properties C09, C01)

`Vata/NfaIncl.lean` models `ExplicitFAInclusionFunctorCache` (`src/explicit_finite_incl_fctor_cache.hh`) and
`ExplicitFACongrFunctorCacheOpt` (`src/explicit_finite_congr_fctor_cache_opt.hh`) with macro-states compared BY VALUE and
every cache treated as transparent.  Here the same two work-lists are modelled with the caches as coded:

* `MacroStateCache` (`src/macrostate_cache.hh`): `unordered_map<size_t, list<StateSet>>`, bucket key = the sum of the
  states.  An object is a node of one of the lists, it is never freed and never modified; its identity (address) is, in the
  model, its position in the list `mc` of all objects in order of creation, stored together with its bucket key.
  `insert(key, value)` walks the bucket in push order and returns the first object with `areEqual(object, value)`, otherwise
  it appends a copy.  `areEqual` answers `false` whenever one of the sets is EMPTY: two empty sets never share an address.
  The parameter `se` ("share empty") of the model is `false` for the library; `se = true` is the cache one would expect
  (it interns the empty set too) and is there to make the effect of this one line visible in the theorems.
* `MapToList<K, V>` (`src/map_to_list.hh`): `unordered_map<K, unordered_set<V>>`; a list of pairs `(k, v)` here (`mlHas` =
  `contains`, `mlAdd` = `add`, `mlHasKey` = `containsKey`).
* Antichain functor: `subsetMap_` / `subsetNotMap_` keyed by two addresses; the lambdas `lte` / `gte` of
  `AddNewPairToAntichain` and `AddToNext` are `lteC` / `gteC` (the lambdas of the two functions are textually the same).
  `MemoMode.lib` is the code of the repository (after `efa75502`: only established facts are recorded),
  `MemoMode.preRepair` the code before that commit (defect D8: the converse of a failed comparison recorded as a fact, `gte`
  reading the tables with swapped meaning).  `Antichain2Cv2::contains` stops at the first `true` (`containsC`), `refine`
  asks for every pair of the key (`refineC`); the candidates are the state itself (identity relation).  The ordered
  work-list `next_` (`OrderedAntichain2C`) consists of an inner `Antichain2Cv2` (per key in insertion order; `nextIns`) that
  `contains` / `refine` walk and of a `std::set` ordered by `less` (`next`; third criterion = insertion order as in
  `Vata/NfaIncl.lean`) that `get` pops.
* Congruence functor: `visitedPairs_` keyed by the two addresses of a pair, `usedRules_` keyed by the address of the
  macro-state whose closure is computed ↦ addresses of the right-hand sides `Yᵢ` of the rules that fired in the FIRST closure
  computed for that address; `GetCongrClosure` takes the `visited` branch when the address is a key of `usedRules_`, and there
  a rule fires when `usedRules_.contains(&origSet, relation[i].second) || MatchPair(set, *relation[i].second)`
  (`UsedMode.lib`; `UsedMode.swapped` is the seeded change `contains(relation[i].second, &origSet)`).  `MakePost` receives
  COPIES of the two sets (`ProductStateSet::get`) and interns them again (`s`, `b`): for an empty set this creates a new
  object.

What is NOT modelled differently from `Vata/NfaIncl.lean`: the sets themselves are the sorted duplicate-free lists of
`normS`; `lte` of the comparator is `Vata.subB` (its size shortcut is a property of values); `Init` of the antichain functor
returns at the first bad start state (the C++ finishes the loop and the caller returns `false` right after);
iteration orders of hash containers are list orders.  The sums are natural numbers (the C++ uses `int` in `Init` of the
antichain functor and `size_t` elsewhere; they agree below 2³¹).

Definitions only (core Lean); theorems in `Vata/Proofs/FunctorCaches.lean`.
-/
namespace Vata
open Vata.W
namespace FC
open NfaIncl

/-! ### `MapToList` -/

abbrev PtrMap := List (Nat × Nat)

/-- `contains(k, v)` -/
def mlHas (m : PtrMap) (k v : Nat) : Bool := m.contains (k, v)
/-- `add(k, v)` (a set insertion) -/
def mlAdd (m : PtrMap) (k v : Nat) : PtrMap := if m.contains (k, v) then m else (k, v) :: m
/-- `containsKey(k)` -/
def mlHasKey (m : PtrMap) (k : Nat) : Bool := m.any (fun e => e.1 == k)

/-! ### `MacroStateCache` -/

/-- all objects in order of creation: (bucket key, value); the identity of an object is its position -/
abbrev MCache := List (Nat × List Nat)

/-- `*p` -/
def val (mc : MCache) (id : Nat) : List Nat := (mc.getD id (0, [])).2

/-- the key every caller passes: the sum of the states -/
def sumL (l : List Nat) : Nat := l.foldl (· + ·) 0

/-- the lambda `areEqual` of `MacroStateCache::insert` (`se = false`: the library) -/
def areEqual (se : Bool) (l r : List Nat) : Bool :=
  l.length == r.length && (se || !(l.isEmpty || r.isEmpty)) && l.all (fun x => r.contains x)

/-- `MacroStateCache::insert(key, value)`: the new cache and the address of the returned object -/
def mcInsert (se : Bool) (mc : MCache) (key : Nat) (v : List Nat) : MCache × Nat :=
  match mc.findIdx? (fun o => o.1 == key && areEqual se o.2 v) with
  | some i => (mc, i)
  | none => (mc ++ [(key, v)], mc.length)

/-- `sum(set, n); cache_.insert(n, set)` -/
def intern (se : Bool) (mc : MCache) (v : List Nat) : MCache × Nat := mcInsert se mc (sumL v) v

/-! ### the antichain functor -/

inductive MemoMode
  /-- the code of the repository (after the repair `efa75502`) -/
  | lib
  /-- the code before the repair (defect D8) -/
  | preRepair
deriving DecidableEq, Repr

/-- a pair `(q, S*)`: the macro-state is an address; `w` is the ghost word of `NfaIncl.Item` -/
structure AIt where
  q : Nat
  id : Nat
  w : List Nat
deriving DecidableEq, Repr

structure ACaches where
  mc : MCache := []
  /-- `subsetMap_` -/
  sub : PtrMap := []
  /-- `subsetNotMap_` -/
  nsub : PtrMap := []
deriving Repr

/-- the lambda `lte(lss, rss)` -/
def lteC (mode : MemoMode) (c : ACaches) (l r : Nat) : ACaches × Bool :=
  if mlHas c.sub l r then (c, true)
  else if mlHas c.nsub l r then (c, false)
  else if Vata.subB (val c.mc l) (val c.mc r) then
    match mode with
    | .lib => ({ c with sub := mlAdd c.sub l r }, true)
    | .preRepair => ({ c with sub := mlAdd c.sub l r, nsub := mlAdd c.nsub r l }, true)
  else
    match mode with
    | .lib => ({ c with nsub := mlAdd c.nsub l r }, false)
    | .preRepair => ({ c with sub := mlAdd c.sub r l, nsub := mlAdd c.nsub l r }, false)

/-- the lambda `gte(lss, rss)`: is `*rss ⊆ *lss`? -/
def gteC (mode : MemoMode) (c : ACaches) (l r : Nat) : ACaches × Bool :=
  match mode with
  | .lib =>
    if mlHas c.sub r l then (c, true)
    else if mlHas c.nsub r l then (c, false)
    else if Vata.subB (val c.mc r) (val c.mc l) then ({ c with sub := mlAdd c.sub r l }, true)
    else ({ c with nsub := mlAdd c.nsub r l }, false)
  | .preRepair =>
    if mlHas c.sub l r then (c, false)
    else if mlHas c.nsub l r then (c, true)
    else if Vata.subB (val c.mc r) (val c.mc l) then
      ({ c with sub := mlAdd c.sub r l, nsub := mlAdd c.nsub l r }, true)
    else ({ c with sub := mlAdd c.sub l r, nsub := mlAdd c.nsub r l }, false)

/-- `Antichain2Cv2::contains({q}, &set, lte)`: `lte(P, Q)` for the pairs `(q, P)` in order, until the first `true` -/
def containsC (mode : MemoMode) (q id : Nat) : List AIt → ACaches → ACaches × Bool
  | [], c => (c, false)
  | i :: P, c =>
    if i.q == q then
      let r := lteC mode c i.id id
      if r.2 then (r.1, true) else containsC mode q id P r.1
    else containsC mode q id P c

/-- `Antichain2Cv2::refine({q}, &set, gte)`: `gte(P, Q)` for every pair `(q, P)`, the pairs that are left -/
def refineC (mode : MemoMode) (q id : Nat) : List AIt → ACaches → ACaches × List AIt
  | [], c => (c, [])
  | i :: P, c =>
    if i.q == q then
      let r := gteC mode c i.id id
      let r' := refineC mode q id P r.1
      (r'.1, if r.2 then r'.2 else i :: r'.2)
    else
      let r' := refineC mode q id P c
      (r'.1, i :: r'.2)

/-- the order `less` of the work-list: size of the macro-state, then the state -/
def itemLtC (mc : MCache) (a b : AIt) : Bool :=
  (val mc a.id).length < (val mc b.id).length || ((val mc a.id).length == (val mc b.id).length && a.q < b.q)

def insNextC (mc : MCache) (it : AIt) : List AIt → List AIt
  | [] => [it]
  | x :: l => if itemLtC mc it x then it :: x :: l else x :: insNextC mc it l

structure ASt where
  /-- `antichain_` (insertion order) -/
  antichain : List AIt
  /-- the `std::set` of `next_`, in the order `less` -/
  next : List AIt
  /-- the inner `Antichain2Cv2` of `next_`, in insertion order -/
  nextIns : List AIt
  c : ACaches
deriving Repr

/-- `AddNewPairToAntichain` with `AddToNext` -/
def addPairC (mode : MemoMode) (st : ASt) (it : AIt) : ASt :=
  let r1 := containsC mode it.q it.id st.antichain st.c
  if r1.2 then { st with c := r1.1 }
  else
    let r2 := refineC mode it.q it.id st.antichain r1.1
    let r3 := containsC mode it.q it.id st.nextIns r2.1
    if r3.2 then ⟨r2.2 ++ [it], st.next, st.nextIns, r3.1⟩
    else
      let r4 := refineC mode it.q it.id st.nextIns r3.1
      ⟨r2.2 ++ [it], insNextC r4.1.mc it (st.next.filter (fun i => r4.2.contains i)), r4.2 ++ [it], r4.1⟩

/-- `Init`, the loop over the start states of `A` (`cache_.insert` is inside the loop) -/
def initACc (mode : MemoMode) (se : Bool) (A B : NFA) (S0 : List Nat) : List Nat → ASt → Res ASt
  | [], st => .ok st
  | s :: ss, st =>
    if A.final.contains s && !W.accepting B S0 then .error []
    else
      let r := intern se st.c.mc S0
      initACc mode se A B S0 ss (addPairC mode { st with c := { st.c with mc := r.1 } } ⟨s, r.2, []⟩)

/-- `MakePost` for the picked pair -/
def makePostC (mode : MemoMode) (se : Bool) (A B : NFA) (it : AIt) : List (Nat × Nat × Nat) → ASt → Res ASt
  | [], st => .ok st
  | e :: es, st =>
    if e.1 == it.q then
      let S' := macroStep B (val st.c.mc it.id) e.2.1
      let r := intern se st.c.mc S'
      if A.final.contains e.2.2 && !W.accepting B S' then .error (it.w ++ [e.2.1])
      else makePostC mode se A B it es
        (addPairC mode { st with c := { st.c with mc := r.1 } } ⟨e.2.2, r.2, it.w ++ [e.2.1]⟩)
    else makePostC mode se A B it es st

/-- the main loop; `next_.get` pops the least pair and removes it from the inner antichain -/
def loopACc (mode : MemoMode) (se : Bool) (A B : NFA) : Nat → ASt → Option (Res ASt)
  | 0, _ => none
  | n+1, st =>
    match st.next with
    | [] => some (.ok st)
    | it :: rest =>
      match makePostC mode se A B it A.trans { st with next := rest, nextIns := st.nextIns.erase it } with
      | .error w => some (.error w)
      | .ok st' => loopACc mode se A B n st'

def runACc (mode : MemoMode) (se : Bool) (A B : NFA) (fuel : Nat) : Option (Res ASt) :=
  match initACc mode se A B (normS B.start) A.start ⟨[], [], [], {}⟩ with
  | .error w => some (.error w)
  | .ok st => loopACc mode se A B fuel st

/-- reading the pairs through the pointers -/
def AIt.deref (mc : MCache) (i : AIt) : Item := ⟨i.q, val mc i.id, i.w⟩

def derefA (st : ASt) : List Item := st.antichain.map (AIt.deref st.c.mc)

/-- what the caller sees of a run: the verdict with the final antichain / the word -/
def viewA : Option (Res ASt) → Option (Res (List Item))
  | none => none
  | some (.error w) => some (.error w)
  | some (.ok st) => some (.ok (derefA st))

/-- the certifying end of `nfaInclAC` -/
def finishAC (A B : NFA) : Option (Res (List Item)) → Option (Bool × Cert)
  | none => none
  | some (.ok P) =>
    let X := P.map (fun i => (i.q, i.S))
    if nfaUpCertB A B X then some (true, .antichain X) else none
  | some (.error w) =>
    if acceptsW A w && !acceptsW B w then some (false, .witness w) else none

/-- the antichain functor with its caches, certify-then-trust as `nfaInclAC` -/
def nfaInclACc (mode : MemoMode) (se : Bool) (A B : NFA) (fuel : Nat) : Option (Bool × Cert) :=
  finishAC A B (viewA (runACc mode se A B fuel))

/-- `CheckInclusion` with `ANTICHAINS_NOSIM`, caches included -/
def checkNfaInclACc (mode : MemoMode) (se : Bool) (A B : NFA) (fuel : Nat) : Option (Bool × Cert) :=
  nfaInclACc mode se (nfaSanitize A B).1 (nfaSanitize A B).2 fuel

/-- the raw verdict of a run (before the certificate check): `some true` = `return true` -/
def rawVerdictA : Option (Res ASt) → Option Bool
  | none => none
  | some (.ok _) => some true
  | some (.error _) => some false

/-! ### the congruence functor -/

inductive UsedMode
  /-- `usedRules_.contains(&origSet, relation[i].second)` -/
  | lib
  /-- the seeded change: `usedRules_.contains(relation[i].second, &origSet)` -/
  | swapped
deriving DecidableEq, Repr

/-- a pair `(X*, Y*)` of addresses with the ghost word -/
structure CIt where
  x : Nat
  y : Nat
  w : List Nat
deriving DecidableEq, Repr

structure CCaches where
  mc : MCache := []
  /-- `visitedPairs_` -/
  visited : PtrMap := []
  /-- `usedRules_` -/
  used : PtrMap := []
deriving Repr

structure CStC where
  relation : List CIt
  /-- the vector `next_`, reversed: the head is its back -/
  next : List CIt
  c : CCaches
deriving Repr

/-- does the rule `r` fire?  `ApplyRulesForRelation` (`vis = false`): `MatchPair(set, *relation[i].second)`;
`ApplyRulesForRelationVisited` (`vis = true`): `usedRules_.contains(&origSet, relation[i].second) || MatchPair(…)` -/
def firesC (um : UsedMode) (vis : Bool) (mc : MCache) (b : Nat) (u : PtrMap) (r : CIt) (set : List Nat) : Bool :=
  if vis then
    (match um with
     | .lib => mlHas u b r.y
     | .swapped => mlHas u r.y b) || Vata.subB (val mc r.y) set
  else Vata.subB (val mc r.y) set

/-- one pass of `ApplyRulesForRelation` (`vis = false`) / `ApplyRulesForRelationVisited` (`vis = true`) over the rules not yet
used; `s` = the value of the smaller macro-state, `b` = the address `&origSet`.  The second component is as in
`NfaIncl.sweep` (`none` = early exit); the table `usedRules_` is returned in every case (only `ApplyRulesForRelation`
writes it) -/
def sweepC (um : UsedMode) (vis : Bool) (mc : MCache) (s : List Nat) (b : Nat) :
    List CIt → List CIt → List Nat → Bool → PtrMap → PtrMap × Option (List CIt × List Nat × Bool)
  | [], un, set, ap, u => (u, some (un.reverse, set, ap))
  | r :: rs, un, set, ap, u =>
    if firesC um vis mc b u r set then
      let set' := normS (set ++ val mc r.x ++ val mc r.y)
      let u' := if vis then u else mlAdd u b r.y
      if Vata.subB s set' then (u', none) else sweepC um vis mc s b rs un set' true u'
    else sweepC um vis mc s b rs (r :: un) set ap u

/-- the `while (appliedRule)` loop of `GetCongrClosure`, followed by `|| isSubSet(s, congrBigger)` -/
def closeLoopC (um : UsedMode) (vis : Bool) (mc : MCache) (s : List Nat) (b : Nat) :
    Nat → List CIt → List Nat → PtrMap → PtrMap × Bool
  | 0, _, set, u => (u, Vata.subB s set)
  | n+1, rules, set, u =>
    match sweepC um vis mc s b rules [] set false u with
    | (u', none) => (u', true)
    | (u', some (un, set', ap)) => if ap then closeLoopC um vis mc s b n un set' u' else (u', Vata.subB s set')

/-- `GetCongrClosure(b, congrBigger, …) || isSubSet(s, congrBigger)`; `visited = usedRules_.containsKey(&origSet)` is read once -/
def inClosureC (um : UsedMode) (mc : MCache) (u : PtrMap) (rules : List CIt) (s : List Nat) (b : Nat) : PtrMap × Bool :=
  closeLoopC um (mlHasKey u b) mc s b (rules.length + 1) rules (val mc b) u

def addNextC (breadth : Bool) (next : List CIt) (it : CIt) : List CIt :=
  if breadth then next ++ [it] else it :: next

/-- `MakePostForAut`, the loop over the symbols; `X`, `Y` are the copies of the two sets handed to `MakePost` -/
def congrPostC (se : Bool) (U B : NFA) (breadth : Bool) (w : List Nat) (X Y : List Nat) : List Nat → CStC → Res CStC
  | [], st => .ok st
  | a :: as, st =>
    let X' := macroStep U X a
    let Y' := macroStep B Y a
    if W.accepting U X' != W.accepting B Y' then .error (w ++ [a])
    else if X'.isEmpty && Y'.isEmpty then congrPostC se U B breadth w X Y as st
    else
      let r1 := intern se st.c.mc X'
      let r2 := intern se r1.1 Y'
      if mlHas st.c.visited r1.2 r2.2 then
        congrPostC se U B breadth w X Y as { st with c := { st.c with mc := r2.1 } }
      else
        congrPostC se U B breadth w X Y as
          ⟨st.relation, addNextC breadth st.next ⟨r1.2, r2.2, w ++ [a]⟩,
           ⟨r2.1, mlAdd st.c.visited r1.2 r2.2, st.c.used⟩⟩

/-- the main loop with `MakePost` -/
def loopCongrC (um : UsedMode) (se : Bool) (U B : NFA) (breadth : Bool) : Nat → CStC → Option (Res CStC)
  | 0, _ => none
  | n+1, st =>
    match st.next with
    | [] => some (.ok st)
    | it :: rest =>
      -- `next_.get(smaller, bigger)` copies the two sets; `MakePost` interns the copies
      let X := val st.c.mc it.x
      let Y := val st.c.mc it.y
      let r1 := intern se st.c.mc X
      let r2 := intern se r1.1 Y
      let cl := inClosureC um r2.1 st.c.used (rest.reverse ++ st.relation) X r2.2
      if cl.2 then loopCongrC um se U B breadth n ⟨st.relation, rest, ⟨r2.1, st.c.visited, cl.1⟩⟩
      else
        match congrPostC se U B breadth it.w X Y (postSyms U B X Y) ⟨st.relation, rest, ⟨r2.1, st.c.visited, cl.1⟩⟩ with
        | .error w => some (.error w)
        | .ok st' => loopCongrC um se U B breadth n ⟨st'.relation ++ [⟨r1.2, r2.2, it.w⟩], st'.next, st'.c⟩

/-- `Init` and the main loop -/
def runCongrC (um : UsedMode) (se : Bool) (U B : NFA) (breadth : Bool) (fuel : Nat) : Option (Res CStC) :=
  let X0 := normS U.start
  let Y0 := normS B.start
  let r1 := intern se [] X0
  let r2 := intern se r1.1 Y0
  if W.accepting U X0 != W.accepting B Y0 then some (.error [])
  else loopCongrC um se U B breadth fuel ⟨[], [⟨r1.2, r2.2, []⟩], ⟨r2.1, [(r1.2, r2.2)], []⟩⟩

def CIt.deref (mc : MCache) (i : CIt) : CItem := ⟨val mc i.x, val mc i.y, i.w⟩

def derefC (st : CStC) : List CItem := st.relation.map (CIt.deref st.c.mc)

def viewC : Option (Res CStC) → Option (Res (List CItem))
  | none => none
  | some (.error w) => some (.error w)
  | some (.ok st) => some (.ok (derefC st))

/-- the certifying end of `nfaInclCongr` -/
def finishCongr (A B : NFA) : Option (Res (List CItem)) → Option (Bool × Cert)
  | none => none
  | some (.ok R) =>
    let R' := rulesOf R
    if congrCertB A B R' then some (true, .relation R') else none
  | some (.error w) =>
    if acceptsW A w && !acceptsW B w then some (false, .witness w) else none

/-- the congruence functor with its caches, certify-then-trust as `nfaInclCongr` -/
def nfaInclCongrC (um : UsedMode) (se : Bool) (A B : NFA) (breadth : Bool) (fuel : Nat) : Option (Bool × Cert) :=
  finishCongr A B (viewC (runCongrC um se (nfaUnionDisjoint A B) B breadth fuel))

/-- `CheckInclusion` with `CONGR_BREADTH_NOSIM` / `CONGR_DEPTH_NOSIM`, caches included -/
def checkNfaInclCongrC (um : UsedMode) (se : Bool) (A B : NFA) (breadth : Bool) (fuel : Nat) : Option (Bool × Cert) :=
  nfaInclCongrC um se (nfaSanitize A B).1 (nfaSanitize A B).2 breadth fuel

def rawVerdictC : Option (Res CStC) → Option Bool
  | none => none
  | some (.ok _) => some true
  | some (.error _) => some false

/-! ### the invariants of the memo tables as tests -/

/-- every entry of `subsetMap_` is a true `⊆`, every entry of `subsetNotMap_` a true `⊄` (on the values at the addresses) -/
def memoOKB (c : ACaches) : Bool :=
  c.sub.all (fun p => Vata.subB (val c.mc p.1) (val c.mc p.2)) &&
  c.nsub.all (fun p => !Vata.subB (val c.mc p.1) (val c.mc p.2))

/-- every entry `b ↦ y` of `usedRules_` is a true `*y ⊆ *b` -/
def usedOKB (c : CCaches) : Bool := c.used.all (fun p => Vata.subB (val c.mc p.2) (val c.mc p.1))

/-- the memo tables at the end of a run that returns `true` -/
def finalMemoA : Option (Res ASt) → Option ACaches
  | some (.ok st) => some st.c
  | _ => none

def finalMemoC : Option (Res CStC) → Option CCaches
  | some (.ok st) => some st.c
  | _ => none

/-- the macro-state reached by a word (`normS` of the start states, then `macroStep`) -/
def mrun (N : NFA) (w : List Nat) : List Nat := w.foldl (macroStep N) (normS N.start)

end FC
end Vata
