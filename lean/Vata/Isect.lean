import Vata.Incl
/-! feasibility probe (throw-away): certificate theorem for products -/
namespace Vata

/-- the product automaton on a set `D` of pairs, numbered by `m` -/
def prodRules (A B : TA) (D : List (Nat × Nat)) (m : Nat × Nat → Nat) : List Rule :=
  A.rules.flatMap (fun r => (B.rules.filter (fun r' => r'.sym == r.sym && r'.kids.length == r.kids.length
      && D.contains (r.parent, r'.parent))).map
    (fun r' => ⟨r.sym, (r.kids.zip r'.kids).map m, m (r.parent, r'.parent)⟩))

def prodFinal (A B : TA) (m : Nat × Nat → Nat) : List Nat :=
  A.final.flatMap (fun p => B.final.map (fun p' => m (p, p')))

def prodOn (A B : TA) (D : List (Nat × Nat)) (m : Nat × Nat → Nat) : TA := ⟨prodRules A B D m, prodFinal A B m⟩

/-- `D` is closed under children of matching rules -/
def Closed (A B : TA) (D : List (Nat × Nat)) : Prop :=
  ∀ r, r ∈ A.rules → ∀ r', r' ∈ B.rules → r'.sym = r.sym → r'.kids.length = r.kids.length →
    (r.parent, r'.parent) ∈ D → ∀ pr, pr ∈ r.kids.zip r'.kids → pr ∈ D

def InjOn (m : Nat × Nat → Nat) (D : List (Nat × Nat)) : Prop :=
  ∀ x, x ∈ D → ∀ y, y ∈ D → m x = m y → x = y

theorem mem_prodRules {A B : TA} {D : List (Nat × Nat)} {m : Nat × Nat → Nat} {ρ : Rule} :
    ρ ∈ prodRules A B D m ↔ ∃ r, r ∈ A.rules ∧ ∃ r', r' ∈ B.rules ∧ r'.sym = r.sym ∧ r'.kids.length = r.kids.length ∧
      (r.parent, r'.parent) ∈ D ∧ ρ = ⟨r.sym, (r.kids.zip r'.kids).map m, m (r.parent, r'.parent)⟩ := by
  simp only [prodRules, List.mem_flatMap, List.mem_map, List.mem_filter, Bool.and_eq_true, beq_iff_eq,
    List.contains_iff_mem]
  constructor
  · rintro ⟨r, hr, r', ⟨hr', ⟨hs, hl⟩, hd⟩, rfl⟩; exact ⟨r, hr, r', hr', hs, hl, hd, rfl⟩
  · rintro ⟨r, hr, r', hr', hs, hl, hd, rfl⟩; exact ⟨r, hr, r', ⟨hr', ⟨hs, hl⟩, hd⟩, rfl⟩

/-- the statement proved by mutual induction: componentwise characterisation of `reach` of the product -/
def Good (A B : TA) (D : List (Nat × Nat)) (m : Nat × Nat → Nat) (t : Tree) : Prop :=
  (∀ x, x ∈ reach (prodOn A B D m) t → ∃ pr, pr ∈ D ∧ m pr = x ∧ pr.1 ∈ reach A t ∧ pr.2 ∈ reach B t) ∧
  (∀ pr, pr ∈ D → pr.1 ∈ reach A t → pr.2 ∈ reach B t → m pr ∈ reach (prodOn A B D m) t)

/-- list version for `matchKids` -/
theorem matchKids_zip (A B : TA) (D : List (Nat × Nat)) (m : Nat × Nat → Nat) (hinj : InjOn m D) :
    ∀ (ts : List Tree), (∀ t, t ∈ ts → Good A B D m t) →
    ∀ (ks ks' : List Nat), ks'.length = ks.length → (∀ pr, pr ∈ ks.zip ks' → pr ∈ D) →
      (matchKids ((ks.zip ks').map m) (reachL (prodOn A B D m) ts) = true ↔
        matchKids ks (reachL A ts) = true ∧ matchKids ks' (reachL B ts) = true)
  | [], _, ks, ks', hl, _ => by
    cases ks with
    | nil => cases ks' with
      | nil => simp [matchKids, reachL]
      | cons _ _ => simp at hl
    | cons k ks => cases ks' with
      | nil => simp at hl
      | cons k' ks' => simp [matchKids, reachL]
  | t :: ts, hg, ks, ks', hl, hd => by
    cases ks with
    | nil => cases ks' with
      | nil => simp [matchKids, reachL]
      | cons _ _ => simp at hl
    | cons k ks => cases ks' with
      | nil => simp at hl
      | cons k' ks' =>
        have ih := matchKids_zip A B D m hinj ts (fun t ht => hg t (List.mem_cons_of_mem _ ht)) ks ks'
          (by simpa using hl) (fun pr hp => hd pr (by simp [List.zip_cons_cons, hp]))
        have hkd : (k, k') ∈ D := hd (k, k') (by simp [List.zip_cons_cons])
        obtain ⟨g1, g2⟩ := hg t List.mem_cons_self
        simp only [List.zip_cons_cons, List.map_cons, reachL, matchKids, Bool.and_eq_true,
          List.contains_iff_mem, ih]
        constructor
        · rintro ⟨hx, h1, h2⟩
          obtain ⟨pr, hpr, hm, ha, hb⟩ := g1 _ hx
          have : pr = (k, k') := hinj pr hpr (k, k') hkd hm
          subst this
          exact ⟨⟨ha, h1⟩, ⟨hb, h2⟩⟩
        · rintro ⟨⟨ha, h1⟩, ⟨hb, h2⟩⟩
          exact ⟨g2 (k, k') hkd ha hb, h1, h2⟩

mutual
theorem good (A B : TA) (D : List (Nat × Nat)) (m : Nat × Nat → Nat) (hc : Closed A B D) (hinj : InjOn m D) :
    ∀ t : Tree, Good A B D m t
  | .node f ts => by
    have hts := goodL A B D m hc hinj ts
    constructor
    · intro x hx
      rw [reach, mem_post] at hx
      obtain ⟨ρ, hρ, hs, hm, hp⟩ := hx
      obtain ⟨r, hr, r', hr', hs', hl, hd, rfl⟩ := mem_prodRules.mp hρ
      have hz := (matchKids_zip A B D m hinj ts hts r.kids r'.kids hl (hc r hr r' hr' hs' hl hd)).mp hm
      refine ⟨(r.parent, r'.parent), hd, hp, ?_, ?_⟩
      · rw [reach, mem_post]; exact ⟨r, hr, hs, hz.1, rfl⟩
      · rw [reach, mem_post]; exact ⟨r', hr', hs'.trans hs, hz.2, rfl⟩
    · intro pr hpr ha hb
      rw [reach, mem_post] at ha hb
      obtain ⟨r, hr, hs, hm, hp⟩ := ha
      obtain ⟨r', hr', hs', hm', hp'⟩ := hb
      have hl : r'.kids.length = r.kids.length := by
        rw [matchKids_length hm, matchKids_length hm', reachL_eq_map, reachL_eq_map]; simp
      have hd : (r.parent, r'.parent) ∈ D := by rw [hp, hp']; exact hpr
      rw [reach, mem_post]
      refine ⟨⟨r.sym, (r.kids.zip r'.kids).map m, m (r.parent, r'.parent)⟩,
        mem_prodRules.mpr ⟨r, hr, r', hr', hs'.trans hs.symm, hl, hd, rfl⟩, hs, ?_, by rw [hp, hp']⟩
      exact (matchKids_zip A B D m hinj ts hts r.kids r'.kids hl
        (hc r hr r' hr' (hs'.trans hs.symm) hl hd)).mpr ⟨hm, hm'⟩
theorem goodL (A B : TA) (D : List (Nat × Nat)) (m : Nat × Nat → Nat) (hc : Closed A B D) (hinj : InjOn m D) :
    ∀ ts : List Tree, ∀ t, t ∈ ts → Good A B D m t
  | [], _, h => by simp at h
  | t :: ts, t', h => by
    rcases List.mem_cons.mp h with h | h
    · rw [h]; exact good A B D m hc hinj t
    · exact goodL A B D m hc hinj ts t' h
end

theorem isect_cert (A B : TA) (D : List (Nat × Nat)) (m : Nat × Nat → Nat)
    (hc : Closed A B D) (hinj : InjOn m D) (hF : ∀ p, p ∈ A.final → ∀ p', p' ∈ B.final → (p, p') ∈ D) (t : Tree) :
    accepts (prodOn A B D m) t = true ↔ accepts A t = true ∧ accepts B t = true := by
  obtain ⟨g1, g2⟩ := good A B D m hc hinj t
  simp only [accepts, accepting, List.any_eq_true, List.contains_iff_mem]
  constructor
  · rintro ⟨x, hx, hf⟩
    obtain ⟨pr, hpr, hm, ha, hb⟩ := g1 x hx
    simp only [prodOn, prodFinal, List.mem_flatMap, List.mem_map] at hf
    obtain ⟨p, hp, p', hp', he⟩ := hf
    have : (p, p') = pr := hinj _ (hF p hp p' hp') _ hpr (he.trans hm.symm)
    subst this
    exact ⟨⟨p, ha, hp⟩, ⟨p', hb, hp'⟩⟩
  · rintro ⟨⟨p, ha, hp⟩, ⟨p', hb, hp'⟩⟩
    refine ⟨m (p, p'), g2 (p, p') (hF p hp p' hp') ha hb, ?_⟩
    simp only [prodOn, prodFinal, List.mem_flatMap, List.mem_map]
    exact ⟨p, hp, p', hp', rfl⟩

#print axioms isect_cert
end Vata
