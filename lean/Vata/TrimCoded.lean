import Vata.Ref
/-!
# `RemoveUselessStates` / `RemoveUnreachableStates` of the explicit tree automata AS CODED (property C03)

Step-by-step executable models of `src/explicit_tree_useless.cc` and `src/explicit_tree_unreach.cc`
(definitions only; the proofs are in `Vata/Proofs/TrimCoded*.lean`, the user-facing theorems in
`Vata/Properties/C03_Coded.lean`).

Reading of the C++ data into the model
* `transitions_` (hash map parent → cluster (symbol → set of tuples)) is the list `A.rules`; the iteration order of
  the three nested `for` loops over it is the list order (a parameter of the model: every theorem holds for every order).
* `std::shared_ptr<TransitionInfo>` = an index into the array `St.infos` (one entry per rule, in rule order);
  `stateMap` and `reachableTransitions` hold such indices.
* `std::set<StateType> childrenSet_` is a duplicate-free list (`dedupL kids`, insertion order instead of the ascending
  order of `std::set`: the order only determines in which order one `TransitionInfo` is appended to *different*
  `stateMap` vectors, which has no effect on any vector); `erase(state)` is `filter (· != state)`.
  A child that occurs twice in a tuple is therefore counted ONCE, registered ONCE in `stateMap` and erased ONCE
  – exactly as the C++ does.
* `std::vector newStates` used as a stack: a list whose head is `back()`.
* `std::unordered_set reachableStates`: a list in insertion order; `insert(x).second` = "`x` was not contained".
* `size_t remaining`: a `Nat` (`-` is truncated; the proofs only use `(remaining - 1) + 1 ≥ remaining`, and the
  faithful model never subtracts from 0 because a transition fires at most once, `Vata/Proofs/TrimCodedLoop.lean`).

The two places where a realistic slip is possible are parameters, so that the slipped variants are the SAME code:
`dec` (what is subtracted from `remaining` when a transition fires; the C++ has `--remaining`, i.e. `fun _ => 1`) and
`test` (the "nothing would be removed" shortcut of `RemoveUnreachableStates`).
-/
namespace Vata.TrimCoded
open Vata

/-! ### `RemoveUnreachableStates` (`src/explicit_tree_unreach.cc`) -/

/-- `if (reachableStates.insert(state).second) newStates.push_back(state);` on the pair (reachableStates, newStates) -/
def pushNew (σ : List Nat × List Nat) (q : Nat) : List Nat × List Nat :=
  if σ.1.contains q then σ else (σ.1 ++ [q], q :: σ.2)

/-- `for (auto& symbolStateTupleSetPtr : *cluster) for (auto& stateTuple : …) for (const StateType& state : *stateTuple) …` -/
def procCluster (cluster : List Rule) (σ : List Nat × List Nat) : List Nat × List Nat :=
  cluster.foldl (fun σ r => r.kids.foldl pushNew σ) σ

/-- `genericLookup(*transitions_, s)`: the rules whose parent is `s` (the empty list stands for `!cluster → continue`) -/
def clusterOf (A : TA) (s : Nat) : List Rule := A.rules.filter (fun r => r.parent == s)

/-- `while (!newStates.empty()) { cluster = lookup(newStates.back()); newStates.pop_back(); … }`, fuel-indexed -/
def unreachLoop (A : TA) : Nat → List Nat × List Nat → List Nat × List Nat
  | 0, σ => σ
  | _+1, (R, []) => (R, [])
  | f+1, (R, s :: W) => unreachLoop A f (procCluster (clusterOf A s) (R, W))

/-- fuel that always suffices (`unreachLoop_done`) -/
def unreachFuel (A : TA) : Nat := (dedupL A.final).length + A.states.length

/-- the set `reachableStates` the work-list computes: seeded with the final states
(`reachableStates(GetFinalStates())`, `newStates(reachableStates.begin(), reachableStates.end())`) -/
def unreachSet (A : TA) : List Nat :=
  (unreachLoop A (unreachFuel A) (dedupL A.final, (dedupL A.final).reverse)).1

/-- the repaired shortcut test: `for (auto& stateClusterPair : *transitions_) if (!reachableStates.count(first)) {… = false; break;}` -/
def testOwners (A : TA) (R : List Nat) : Bool := A.rules.all (fun r => R.contains r.parent)

/-- the OLD shortcut test (before commit f15a7dcd): `reachableStates.size() == transitions_->size()`
(`transitions_->size()` = number of states that own a cluster) -/
def testSizes (A : TA) (R : List Nat) : Bool := R.length == (dedupL (A.rules.map (·.parent))).length

/-- `RemoveUnreachableStates` with the shortcut test as a parameter:
```
if (allOwnersReachable) return *this;
result.finalStates_ = finalStates_;
for (const StateType& state : reachableStates) { iter = transitions_->find(state); if (iter == end) continue; result.transitions_->insert(state, iter->second); }
``` -/
def unreachWith (test : TA → List Nat → Bool) (A : TA) : TA :=
  let R := unreachSet A
  if test A R then A else ⟨R.flatMap (fun s => clusterOf A s), A.final⟩

/-- `RemoveUnreachableStates` as coded (repaired shortcut) -/
def unreachCoded (A : TA) : TA := unreachWith testOwners A

/-! ### `RemoveUselessStates` (`src/explicit_tree_useless.cc`) -/

/-- `struct TransitionInfo { children_, symbol_, state_ (= `rule`); std::set<StateType> childrenSet_; }` -/
structure Info where
  rule : Rule
  cset : List Nat
deriving Repr

/-- the constructor: `childrenSet_(children->begin(), children->end())` -/
def mkInfo (r : Rule) : Info := ⟨r, dedupL r.kids⟩

/-- `bool reachedBy(state) { assert(childrenSet_.count(state)); childrenSet_.erase(state); return childrenSet_.empty(); }` -/
def Info.reachedBy (i : Info) (s : Nat) : Info × Bool :=
  let c := i.cset.filter (fun x => x != s)
  (⟨i.rule, c⟩, c.isEmpty)

/-- `std::unordered_map<StateType, std::vector<TransitionInfoPtr>>` as an association list -/
abbrev StateMap := List (Nat × List Nat)

/-- `stateMap.insert(std::make_pair(s, std::vector<…>())).first->second.push_back(info)` -/
def smPush : StateMap → Nat → Nat → StateMap
  | [], s, i => [(s, [i])]
  | (k, v) :: rest, s, i => if k == s then (k, v ++ [i]) :: rest else (k, v) :: smPush rest s i

/-- the vector found under `s` (empty when `stateMap.find(s) == stateMap.end()`) -/
def smGet (sm : StateMap) (s : Nat) : List Nat := (sm.lookup s).getD []

/-- the local variables of `RemoveUselessStates` -/
structure St where
  infos : List Info          -- the `TransitionInfo` objects, by rule index
  reach : List Nat           -- reachableStates
  rtrans : List Nat          -- reachableTransitions (indices), `push_back` = append
  work : List Nat            -- newStates, head = back()
  remaining : Nat
  smap : StateMap
deriving Repr

/-- `if (reachableStates.insert(q).second) newStates.push_back(q);` -/
def St.pushState (σ : St) (q : Nat) : St :=
  if σ.reach.contains q then σ else { σ with reach := σ.reach ++ [q], work := q :: σ.work }

/-- the registration loop `for (auto& s : transitionInfoPtr->childrenSet_) { stateMap[s].push_back(info); ++remaining; }` -/
def registerKids (i : Nat) (cset : List Nat) (σ : St) : St :=
  cset.foldl (fun σ s => { σ with smap := smPush σ.smap s i, remaining := σ.remaining + 1 }) σ

/-- the body of the innermost `for (auto& tuple : …)` of the first loop, for the rule `r` with index `i`:
```
if (tuple->empty()) { reachableTransitions.push_back(info); if (reachableStates.insert(parent).second) newStates.push_back(parent); continue; }
for (auto& s : info->childrenSet_) { …push_back(info); ++remaining; }
``` -/
def initStep (σ : St) (i : Nat) (r : Rule) : St :=
  if r.kids.isEmpty then St.pushState { σ with rtrans := σ.rtrans ++ [i] } r.parent
  else registerKids i (mkInfo r).cset σ

/-- the first loop over all transitions, after `k` of them (in list order) have been processed; it is the fold
`(List.range k).foldl (fun σ i => initStep σ i A.rules[i]) ⟨A.rules.map mkInfo, [], [], [], 0, []⟩` -/
def initLoop (A : TA) : Nat → St
  | 0 => ⟨A.rules.map mkInfo, [], [], [], 0, []⟩
  | k+1 => match A.rules[k]? with
    | none => initLoop A k
    | some r => initStep (initLoop A k) k r

/-- the body of `for (auto& info : i->second)` for the info with index `j`, the popped state being `s`:
```
if (!info->reachedBy(i->first)) continue;
reachableTransitions.push_back(info); --remaining;
if (reachableStates.insert(info->state_).second) newStates.push_back(info->state_);
```
`dec` is what is subtracted from `remaining` (the C++: 1) -/
def innerStep (dec : Rule → Nat) (s : Nat) (σ : St) (j : Nat) : St :=
  match σ.infos[j]? with
  | none => σ
  | some info =>
    let σ1 : St := { σ with infos := σ.infos.set j (info.reachedBy s).1 }
    if (info.reachedBy s).2 then
      St.pushState { σ1 with rtrans := σ1.rtrans ++ [j], remaining := σ1.remaining - dec info.rule } info.rule.parent
    else σ1

/-- `while (!newStates.empty()) { i = stateMap.find(newStates.back()); newStates.pop_back(); if (i == end) continue; for … }` -/
def mainLoop (dec : Rule → Nat) : Nat → St → St
  | 0, σ => σ
  | f+1, σ =>
    match σ.work with
    | [] => σ
    | s :: w =>
      match σ.smap.lookup s with
      | none => mainLoop dec f { σ with work := w }
      | some v => mainLoop dec f (v.foldl (innerStep dec s) { σ with work := w })

/-- the state after both loops; fuel `|rules|` always suffices (`finalSt_work`) -/
def finalSt (dec : Rule → Nat) (A : TA) : St := mainLoop dec A.rules.length (initLoop A A.rules.length)

/-- the rest of the function:
```
for (auto& state : finalStates_) if (reachableStates.find(state) != end) result.SetStateFinal(state);
if (!remaining) { result.transitions_ = transitions_; return result.RemoveUnreachableStates(); }
for (auto& info : reachableTransitions) result.internalAddTransition(info->children_, info->symbol_, info->state_);
return result.RemoveUnreachableStates();
``` -/
def finish (unreach : TA → TA) (A : TA) (σ : St) : TA :=
  let fin := A.final.filter (fun q => σ.reach.contains q)
  if σ.remaining == 0 then unreach ⟨A.rules, fin⟩
  else unreach ⟨σ.rtrans.filterMap (fun j => (σ.infos[j]?).map (·.rule)), fin⟩

/-- `RemoveUselessStates` with the two slip points as parameters -/
def uselessWith (dec : Rule → Nat) (test : TA → List Nat → Bool) (A : TA) : TA :=
  finish (unreachWith test) A (finalSt dec A)

/-- the C++ decrement `--remaining` -/
def decOne : Rule → Nat := fun _ => 1
/-- the slip `remaining -= arity` -/
def decArity : Rule → Nat := fun r => r.kids.length

/-- `RemoveUselessStates` as coded -/
def uselessCoded (A : TA) : TA := uselessWith decOne testOwners A

/-- the set `reachableStates` (productive states) computed by the two loops of `RemoveUselessStates` -/
def prodCoded (A : TA) : List Nat := (finalSt decOne A).reach

/-- `IsLangEmpty` (`explicit_tree_aut_core.hh`): `RemoveUselessStates().GetFinalStates().empty()` -/
def isLangEmptyCoded (A : TA) : Bool := (uselessCoded A).final.isEmpty

end Vata.TrimCoded
