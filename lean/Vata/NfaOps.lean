import Vata.NfaEmbed
/-!
# Executable models of the word-automata operations (property C10)

Models of `explicit_finite_{union,isect,reverse,unreach,useless,candidate}.cc` on `Vata.W.NFA`
(`start final : List Nat`, `trans : List (source × symbol × target)`).  The start symbols of the C++ (a set of
symbols attached to every start state, not part of the word) are ignored: a word is accepted when it labels a path
from a start state to a final state.  `nfaReverse` (model of `Reverse`) is defined in `Vata/NfaEmbed.lean`.

All definitions are executable, core Lean only.  The language theorems are in `Vata/Proofs/NfaOps.lean`.
-/
namespace Vata
open Vata.W

/-- the states occurring in an NFA (start, final, sources and targets of transitions; with repetitions) -/
def nfaStates (N : NFA) : List Nat :=
  N.start ++ N.final ++ N.trans.flatMap (fun e => [e.1, e.2.2])

/-! ### union (`Union`, `UnionDisjointStates`, `ReindexStates`) -/

/-- image of an NFA under a state map (`ReindexStates`) -/
def nfaMap (f : Nat → Nat) (N : NFA) : NFA :=
  ⟨N.start.map f, N.final.map f, N.trans.map (fun e => (f e.1, e.2.1, f e.2.2))⟩

/-- `UnionDisjointStates`: componentwise union.  (For operands that share a source state the C++ keeps only the
transitions of the left operand for that state – `map::insert` does not overwrite, an `assert` guards it – so the
model agrees with the C++ only under the disjointness hypothesis of `nfaUnionDisjoint_lang`.) -/
def nfaUnionDisjoint (A B : NFA) : NFA :=
  ⟨A.start ++ B.start, A.final ++ B.final, A.trans ++ B.trans⟩

/-- `Union` with the two translation maps given: both operands are reindexed into one result -/
def nfaUnionWith (fA fB : Nat → Nat) (A B : NFA) : NFA :=
  nfaUnionDisjoint (nfaMap fA A) (nfaMap fB B)

/-- the distinct states of an NFA in order of first occurrence -/
def nfaStateList (N : NFA) : List Nat := (nfaStates N).eraseDups

/-- `Union` with concrete translation maps: the states of `A` are numbered `0 … |A|-1` and the states of `B`
`|A| … |A|+|B|-1` in order of first occurrence (the C++ numbers them with one shared counter in the iteration order
of its hash containers; only the shape "injective, consecutive, lhs first" is mirrored) -/
def nfaUnion (A B : NFA) : NFA :=
  nfaUnionWith (fun q => (nfaStateList A).idxOf q)
    (fun q => (nfaStateList A).length + (nfaStateList B).idxOf q) A B

/-! ### sub-automata (witnesses, `GetCandidateTree`) -/

def nfaSubB (R N : NFA) : Bool :=
  R.start.all N.start.contains && R.final.all N.final.contains && R.trans.all N.trans.contains

/-! ### removal of unreachable / useless states -/

/-- targets of the transitions leaving `S` -/
def nfaSucc (N : NFA) (S : List Nat) : List Nat :=
  (N.trans.filter (fun e => S.contains e.1)).map (·.2.2)

/-- `S` is closed under the transitions of `N` -/
def nfaClosedB (N : NFA) (S : List Nat) : Bool := (nfaSucc N S).all S.contains

/-- one round of the forward search: add the successors that are new -/
def nfaGrow (N : NFA) (S : List Nat) : List Nat :=
  S ++ ((nfaSucc N S).filter (fun q => !S.contains q)).eraseDups

def nfaReachIter (N : NFA) : Nat → List Nat → List Nat
  | 0, S => S
  | n + 1, S => if nfaClosedB N S then S else nfaReachIter N n (nfaGrow N S)

/-- the states reachable from the start states; `N.trans.length` rounds always suffice
(`nfaReachable_closed` in `Vata/Proofs/NfaOps.lean`) -/
def nfaReachable (N : NFA) : List Nat := nfaReachIter N N.trans.length N.start

/-- what `RemoveUnreachableStates` builds from the set `R` of reachable states: all start states, the final
states in `R`, the transitions whose source is in `R` -/
def nfaRestrict (N : NFA) (R : List Nat) : NFA :=
  ⟨N.start, N.final.filter R.contains, N.trans.filter (fun e => R.contains e.1)⟩

/-- model of `RemoveUnreachableStates` (certifying form: the closure check never fails, see
`nfaRemoveUnreachable_eq`) -/
def nfaRemoveUnreachable (N : NFA) : NFA :=
  let R := nfaReachable N
  if nfaClosedB N R then nfaRestrict N R else N

/-- model of `RemoveUselessStates`, as coded: `RemoveUnreachableStates().Reverse().RemoveUnreachableStates().Reverse()` -/
def nfaRemoveUseless (N : NFA) : NFA :=
  nfaReverse (nfaRemoveUnreachable (nfaReverse (nfaRemoveUnreachable N)))

/-! ### product (`Intersection`) -/

/-- pairs of start states -/
def nfaStartPairs (A B : NFA) : List (Nat × Nat) :=
  A.start.flatMap (fun a => B.start.map (fun b => (a, b)))

/-- the joint transitions leaving the pair `p`, as `(symbol, target pair)` -/
def nfaJoint (A B : NFA) (p : Nat × Nat) : List (Nat × (Nat × Nat)) :=
  (A.trans.filter (fun e => e.1 == p.1)).flatMap (fun e =>
    (B.trans.filter (fun e' => e'.1 == p.2 && e'.2.1 == e.2.1)).map (fun e' => (e.2.1, (e.2.2, e'.2.2))))

/-- the product automaton on the set `D` of pairs, numbered by `m` -/
def nfaProdOn (A B : NFA) (D : List (Nat × Nat)) (m : Nat × Nat → Nat) : NFA :=
  ⟨(nfaStartPairs A B).map m,
   (D.filter (fun p => A.final.contains p.1 && B.final.contains p.2)).map m,
   D.flatMap (fun p => (nfaJoint A B p).map (fun x => (m p, x.1, m x.2)))⟩

/-- Boolean form of the hypotheses of `nfaProd_cert` -/
def nfaProdCertB (A B : NFA) (D : List (Nat × Nat)) (m : Nat × Nat → Nat) : Bool :=
  (nfaStartPairs A B).all D.contains &&
  D.all (fun p => (nfaJoint A B p).all (fun x => D.contains x.2)) &&
  D.all (fun p => D.all (fun p' => m p != m p' || p == p'))

/-- targets of the joint transitions leaving `D` -/
def nfaPairSucc (A B : NFA) (D : List (Nat × Nat)) : List (Nat × Nat) :=
  D.flatMap (fun p => (nfaJoint A B p).map (·.2))

def nfaPairClosedB (A B : NFA) (D : List (Nat × Nat)) : Bool := (nfaPairSucc A B D).all D.contains

def nfaPairIter (A B : NFA) : Nat → List (Nat × Nat) → List (Nat × Nat)
  | 0, D => D
  | n + 1, D =>
    if nfaPairClosedB A B D then D
    else nfaPairIter A B n (D ++ ((nfaPairSucc A B D).filter (fun q => !D.contains q)).eraseDups)

/-- model of `Intersection`: the product on the pairs reachable from the start pairs, numbered in order of
discovery, followed by `RemoveUselessStates`.  `none` when the fuel did not suffice to close the set of pairs. -/
def nfaIntersection (A B : NFA) (fuel : Nat) : Option NFA :=
  let D := nfaPairIter A B fuel (nfaStartPairs A B).eraseDups
  if nfaPairClosedB A B D then some (nfaRemoveUseless (nfaProdOn A B D (fun p => D.idxOf p))) else none

/-- all joint transitions of `A` and `B` (used only to bound the number of rounds) -/
def nfaJointAll (A B : NFA) : List ((Nat × Nat) × Nat × (Nat × Nat)) :=
  A.trans.flatMap (fun e => (B.trans.filter (fun e' => e'.2.1 == e.2.1)).map
    (fun e' => ((e.1, e'.1), e.2.1, (e.2.2, e'.2.2))))

/-- `Intersection` with a number of rounds that always suffices (`nfaIsect_lang`); the default value is never used -/
def nfaIsect (A B : NFA) : NFA := (nfaIntersection A B (nfaJointAll A B).length).getD ⟨[], [], []⟩

/-! ### candidate (`GetCandidateTree`) -/

/-- breadth-first search of `GetCandidateTree`: `queue` are the states still to expand, `seen` the states ever
enqueued, `T` the transitions copied so far.  Expanding a state copies all its transitions; the search stops at the
first final target.  Certifying form: when the fuel runs out the input is returned unchanged. -/
def nfaCandLoop (N : NFA) : Nat → List Nat → List Nat → List (Nat × Nat × Nat) → NFA
  | 0, _, _, _ => N
  | _ + 1, [], _, T => ⟨N.start, [], T⟩
  | n + 1, act :: queue, seen, T =>
    let cl := N.trans.filter (fun e => e.1 == act)
    let tg := cl.map (·.2.2)
    match tg.find? N.final.contains with
    | some f => ⟨N.start, [f], T ++ cl⟩
    | none =>
      let new := (tg.filter (fun q => !seen.contains q)).eraseDups
      nfaCandLoop N n (queue ++ new) (seen ++ new) (T ++ cl)

/-- the automaton built by `GetCandidateTree` before its final `RemoveUselessStates` -/
def nfaCandidateRaw (N : NFA) : NFA :=
  match N.start.find? N.final.contains with
  | some s => ⟨N.start.takeWhile (fun q => !N.final.contains q) ++ [s], [s], []⟩
  | none => nfaCandLoop N ((nfaStateList N).length + 1) N.start.eraseDups N.start.eraseDups []

/-- model of `GetCandidateTree` (start states are scanned in list order; the C++ scans a hash set) -/
def nfaCandidate (N : NFA) : NFA := nfaRemoveUseless (nfaCandidateRaw N)

end Vata
