import Vata.TaLts
/-!
# The environment table of `TranslateUpward` as a hash map with a user hash and a user equality (property C04)

Core Lean only (definitions, `#guard` tests); the theorems are in `Vata/Proofs/EnvTable.lean`.

`src/explicit_tree_transl.hh`, `TranslateUpward`:

    struct Env { StateTuple children_; size_t index_; size_t symbol_; size_t state_; … };
    bool operator==(const Env& rhs) const { return (children_.size() == rhs.children_.size()) && (index_ == rhs.index_) &&
        (symbol_ == rhs.symbol_) && (children_ == rhs.children_); }                  // NOT state_
    struct env_hash { size_t operator()(const Env& env) const { size_t seed = 0;
        boost::hash_combine(seed, env.children_); boost::hash_combine(seed, env.index_);
        boost::hash_combine(seed, env.symbol_);   boost::hash_combine(seed, env.state_); return seed; } };   // all four
    std::unordered_map<Env, size_t, env_hash> envMap;
    TranslatorWeak2<…> envTranslator(envMap, [&…](const Env& env) -> size_t { … return stateCnt++; });

`std::unordered_map` of libstdc++ with a user hash functor whose `operator()` is not `noexcept` caches the hash code in every
node (`__cache_default = !__is_fast_hash || !__is_nothrow_invocable`); a bucket scan (`_M_find_before_node` → `_M_equals`)
accepts the node `n` for the key `k` with code `c` iff `n._M_hash_code == c && _M_eq()(k, key(n))`.  All nodes with the
code `c` are in the bucket `c % bucket_count`, so "the first node of the bucket that is accepted" is one of the stored
entries `k'` with `hash k' = hash k ∧ eq k k'`; `find` below takes the first one in insertion order (if `eq` is an
equivalence at most one stored entry is accepted – `Proofs/EnvTable.lean`, `run_hits_unique` – so the order of the
scan does not matter).  The cached code of a node is the hash of its (immutable) key, the model recomputes it.

`TranslatorWeak2::operator()` (`include/vata/util/transl_weak.hh`): `FindIfKnown(value)` – if found return the stored
number, else `result = resultAllocFunc_(value); container_.insert(make_pair(value, result)); return result`.
-/
namespace Vata.EnvTable
open Vata Vata.TaLts

/-- the user hash and the user equality of an `std::unordered_map` -/
structure KeyOps (κ : Type) where
  hash : κ → Nat
  eq : κ → κ → Bool

variable {κ : Type}

/-- `_M_equals(k, c, n)` with cached hash codes: `n._M_hash_code == c && _M_eq()(k, key(n))` -/
def KeyOps.hit (ops : KeyOps κ) (k : κ) (n : κ × Nat) : Bool := ops.hash n.1 == ops.hash k && ops.eq k n.1

/-- `envMap.find(k)`: the first stored entry that is accepted -/
def find (ops : KeyOps κ) (tab : List (κ × Nat)) (k : κ) : Option (κ × Nat) := tab.find? (ops.hit k)

/-- the map (entries in insertion order) and the counter `stateCnt` -/
structure TState (κ : Type) where
  tab : List (κ × Nat)
  cnt : Nat

/-- `envTranslator(k)`: the number returned and the new state.
`res = FindIfKnown(k); if (res.first) return res.second; result = stateCnt++; insert(make_pair(k, result)); return result` -/
def translate (ops : KeyOps κ) (st : TState κ) (k : κ) : Nat × TState κ :=
  match find ops st.tab k with
  | some n => (n.2, st)
  | none => (st.cnt, ⟨st.tab ++ [(k, st.cnt)], st.cnt + 1⟩)

/-- the calls `envTranslator(k)` for the keys of `ks` in order: the numbers returned and the final state -/
def run (ops : KeyOps κ) : TState κ → List κ → List Nat × TState κ
  | st, [] => ([], st)
  | st, k :: ks =>
    let r := translate ops st k
    let rs := run ops r.2 ks
    (r.1 :: rs.1, rs.2)

/-- the number a finished table has for `k` (`0` if none) -/
def lookup (ops : KeyOps κ) (tab : List (κ × Nat)) (k : κ) : Nat := ((find ops tab k).map Prod.snd).getD 0

/-! ### the two key disciplines -/

/-- the code as it is: hash over the four fields, `operator==` over three -/
def envKeyFull (h4 : List Nat × Nat × Nat × Nat → Nat) : KeyOps Env :=
  ⟨fun e => h4 (e.children, e.index, e.symbol, e.state), fun a b => decide (a.key = b.key)⟩

/-- the seeded change: `state_` removed from the hash "to make it consistent with `operator==`" -/
def envKeyNoState (h3 : List Nat × Nat × Nat → Nat) : KeyOps Env :=
  ⟨fun e => h3 e.key, fun a b => decide (a.key = b.key)⟩

/-- `boost::hash_combine(seed, v)` on 64-bit words with `std::hash<size_t>` the identity:
`seed ^= v + 0x9e3779b9 + (seed << 6) + (seed >> 2)` -/
def hashCombine (seed v : Nat) : Nat :=
  Nat.xor seed ((v + 0x9e3779b9 + (seed <<< 6) % 2 ^ 64 + (seed >>> 2)) % 2 ^ 64)

/-- `boost::hash_range` for a vector of `size_t` -/
def hashVec (l : List Nat) : Nat := l.foldl hashCombine 0

/-- `env_hash` as coded -/
def boostHash4 (t : List Nat × Nat × Nat × Nat) : Nat :=
  hashCombine (hashCombine (hashCombine (hashCombine 0 (hashVec t.1)) t.2.1) t.2.2.1) t.2.2.2

/-- `env_hash` after the seeded change -/
def boostHash3 (t : List Nat × Nat × Nat) : Nat :=
  hashCombine (hashCombine (hashCombine 0 (hashVec t.1)) t.2.1) t.2.2

/-! ### `TranslateUpward` over a table -/

/-- the arguments of the calls `envTranslator(Env(*tuple, i, symbol, state))` in the order of the loops (rules in the order
of `A.rules`, `i` ascending) -/
def allEnvs (A : TA) (idx : Nat → Nat) : List Env := A.rules.flatMap (envsOf A idx)

/-- `envMap` after the loops; `stateCnt` starts at `transitions_->size() + 1` -/
def envTab (ops : KeyOps Env) (A : TA) (idx : Nat → Nat) : List (Env × Nat) :=
  (run ops ⟨[], (parents A).length + 1⟩ (allEnvs A idx)).2.tab

/-- the stored environments (`for (auto& envIndexPair : envMap)`; the iteration order of the C++ is that of the hash table, here
the order of insertion) -/
def envListH (ops : KeyOps Env) (A : TA) (idx : Nat → Nat) : List Env := (envTab ops A idx).map Prod.fst

/-- the LTS node `envTranslator` returns for `e` (the number returned at the time of the call is the one the finished table
has: `run_fst`) -/
def envNodeH (ops : KeyOps Env) (A : TA) (idx : Nat → Nat) (e : Env) : Nat := lookup ops (envTab ops A idx) e

/-! `TranslateUpward` with the environments `Es` (stored keys) and their numbering `node` as parameters; the definitions
of `Vata/TaLts.lean` are the instance `Es = envList A idx`, `node = envNode A idx` (`*_eq_G`, by `rfl`).  The allocation
function (`head`, `partition`) runs for the stored keys only. -/

def upPartitionG (A : TA) (idx : Nat → Nat) (Es : List Env) (node : Env → Nat) : List (List Nat) :=
  let N := (parents A).length
  let stateBlocks :=
    if upBase A = 3 then
      [((parents A).filter (fun q => A.final.contains q)).map idx,
       ((parents A).filter (fun q => !A.final.contains q)).map idx]
    else [(parents A).map idx]
  stateBlocks ++ [[N]] ++
    (dedupG (Es.map Env.key)).map (fun k => (Es.filter (fun e => decide (e.key = k))).map node)

def upBlockRelG (A : TA) (Es : List Env) : Rel :=
  let base := upBase A
  let H := dedupG (Es.map Env.key)
  [(0, 0)] ++ (if base = 3 then [(1, 0), (1, 1)] else []) ++ [(base - 1, base - 1)] ++
    (List.range H.length).flatMap (fun i =>
      ((List.range H.length).filter (fun j => H[i]? == H[j]?)).map (fun j => (base + i, base + j)))

def upRuleEdgesG (A : TA) (idx : Nat → Nat) (node : Env → Nat) (ρ : Rule) : List (Nat × Nat × Nat) :=
  let N := (parents A).length
  let a := pos ρ.sym (symList A)
  match ρ.kids with
  | [] => [(N, a, idx ρ.parent)]
  | [p] => [(idx p, a, idx ρ.parent)]
  | _ => ρ.kids.zipIdx.map (fun pi => (idx pi.1, (symList A).length, node (mkEnv A idx ρ pi.2)))

/-- `result.addTransition(envIndexPair.second, envIndexPair.first.symbol_, envIndexPair.first.state_)`: the parent is the
`state_` of the STORED key -/
def upEnvEdgesG (Es : List Env) (node : Env → Nat) : List (Nat × Nat × Nat) :=
  Es.map (fun e => (node e, e.symbol, e.state))

def upEdgesG (A : TA) (idx : Nat → Nat) (Es : List Env) (node : Env → Nat) : List (Nat × Nat × Nat) :=
  A.rules.flatMap (upRuleEdgesG A idx node) ++ upEnvEdgesG Es node

def translateUpwardG (A : TA) (idx : Nat → Nat) (Es : List Env) (node : Env → Nat) : L.LTS × List (List Nat) × Rel :=
  (⟨ltsSize 0 (upEdgesG A idx Es node), upEdgesG A idx Es node⟩, upPartitionG A idx Es node, upBlockRelG A Es)

/-- `TranslateUpward` with `envMap` a hash map with the hash and equality `ops` -/
def translateUpwardH (ops : KeyOps Env) (A : TA) (idx : Nat → Nat) : L.LTS × List (List Nat) × Rel :=
  translateUpwardG A idx (envListH ops A idx) (envNodeH ops A idx)

/-- `ComputeUpwardSimulation(size)` over it -/
def upSimViaLtsH (ops : KeyOps Env) (A : TA) (size : Nat) (idx : Nat → Nat) : Rel :=
  let T := translateUpwardH ops A idx
  readBack A idx (L.ltsSimOut T.1 (blockRel T.2.1 T.2.2) size)

end Vata.EnvTable

/-! ### tests -/
namespace Vata.EnvTableEx
open Vata Vata.TaLts Vata.EnvTable Vata.TaLtsEx

/-- `a → 0, 1, 2`; `g(0,2) → 3`, `g(1,2) → 4`; `h(4) → 3`; `F = {3}`.  Every state is reachable and reaches the final
state, every state owns a rule.  The environments `g(□,2) → 3` and `g(□,2) → 4` differ in `state_` only. -/
def exM : TA := ⟨[⟨0, [], 0⟩, ⟨0, [], 1⟩, ⟨0, [], 2⟩, ⟨1, [0, 2], 3⟩, ⟨1, [1, 2], 4⟩, ⟨2, [4], 3⟩], [3]⟩

/-- comparison of two outputs of the translation -/
def sameOut (T T' : L.LTS × List (List Nat) × Rel) : Bool :=
  T.1.n == T'.1.n && T.1.edges == T'.1.edges && T.2.1 == T'.2.1 && T.2.2 == T'.2.2

/-- a toy hash that mixes all four fields and has collisions: `(Σ children + index + symbol + state²) mod 7`
(`3² ≡ 4² mod 7`) -/
def toyHash4 (t : List Nat × Nat × Nat × Nat) : Nat := (t.1.foldl (· + ·) 0 + t.2.1 + t.2.2.1 + t.2.2.2 * t.2.2.2) % 7

#guard sameOut (translateUpwardH (envKeyFull boostHash4) exM id) (translateUpward exM id)
#guard sameOut (translateUpwardH (envKeyFull boostHash4) exC (perm [2, 3, 1, 0])) (translateUpward exC (perm [2, 3, 1, 0]))
#guard sameOut (translateUpwardH (envKeyFull boostHash4) exB (perm [3, 9, 0, 2, 1])) (translateUpward exB (perm [3, 9, 0, 2, 1]))
#guard relEq (upSimViaLtsH (envKeyFull boostHash4) exM 5 id) (upSimRef exM)
#guard (envListH (envKeyFull boostHash4) exM id).length == 4
#guard (envListH (envKeyNoState boostHash3) exM id).length == 3
#guard (envListH (envKeyFull toyHash4) exM id).length == 3
#guard (upSimViaLtsH (envKeyFull toyHash4) exM 5 id).contains (0, 1)
#guard !relEq (upSimViaLtsH (envKeyNoState boostHash3) exM 5 id) (upSimRef exM)
#guard (upSimViaLtsH (envKeyNoState boostHash3) exM 5 id).contains (0, 1) && !(upSimRef exM).contains (0, 1)

end Vata.EnvTableEx
