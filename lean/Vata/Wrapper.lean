import Vata.LoadDump
import Vata.TrimCoded
/-!
# The public wrapper `ExplicitTreeAut`: alphabets and symbol translation on top of the core (properties C12 / C13 / C19)

Executable model of `include/vata/explicit_tree_aut.hh`, `src/explicit_tree_aut.cc` (the pimpl wrapper), of the alphabet
members of `ExplicitTreeAutCore` (`src/explicit_tree_aut_core.hh/.cc`) and of `LoadableAut` (`src/loadable_aut.hh`).
Definitions only; proofs in `Vata/Proofs/Wrapper*.lean`, user-facing theorems in `Vata/Properties/C12_Wrapper.lean`.

## what the C++ does (read off the sources)

* `ExplicitTreeAut` holds `std::unique_ptr<CoreAut> core_` with `CoreAut = LoadableAut<ExplicitTreeAutCore>`; every public
  method forwards to the method of the same name of `*core_` (table `wrapperForwards`); results of type
  `ExplicitTreeAutCore` are wrapped by `ExplicitTreeAut(CoreAut&&)`.
* The core has `mutable AlphabetType alphabet_` with `AlphabetType = std::shared_ptr<AbstractAlphabet>` and ONE
  process-wide `static AlphabetType globalAlphabet_ = new OnTheFlyAlphabet`.  The model keeps a heap `World.alphas` of
  alphabet objects; index `0` is `globalAlphabet_`; an automaton stores the index its `alphabet_` points to (`WAut.alpha`),
  so sharing of the pointer is sharing of the index.
* `OnTheFlyAlphabet` = `SymbolDict symbolDict_` (a `TwoWayDict<StringRank, SymbolType>`) + `SymbolType nextSymbol_ = 0`.
  `GetSymbolTransl ()` = `TranslatorWeak (symbolDict_, [&](…){ return nextSymbol_++; })`, `GetSymbolBackTransl ()` =
  `TranslatorStrict (symbolDict_.GetReverseMap ())`.  The model keeps the counter as a field of its own (`Alphabet.otf
  dict next`; the older `Vata/LoadDump.lean` used `dict.length`), that `next = dict.length` is a THEOREM about reachable
  worlds (`Proofs/Wrapper.lean`).  The copy constructor is `= default`: dictionary and counter are copied (`Op.copyOtf`).
* `DirectAlphabet`: `GetSymbolTransl ()` throws `NotImplementedException ("GetSymbolTransl")` – so NOTHING can be loaded
  into an automaton with a direct alphabet – and the back translator maps `n` to `StringRank (ToString (n), 0)`, never
  throwing.
* who gets which alphabet (constructor `ExplicitTreeAutCore (TupleCache& = globalTupleCache_, AlphabetType& =
  globalAlphabet_)`):

  | operation                                                   | `alphabet_` of the result                               |
  |-------------------------------------------------------------|---------------------------------------------------------|
  | `ExplicitTreeAut ()`                                        | global                                                  |
  | copy constructor (`copyTrans`, `copyFinal`), `operator=`    | the source's pointer (shared)                           |
  | `SetAlphabet (a)`                                           | `a` (pointer copy; nothing is re-translated or checked) |
  | `ReindexStates`, `CollapseStates`, `TranslateSymbols`       | `this`'s                                                |
  | `UnionDisjointStates (lhs, rhs)`                            | `lhs`'s – `rhs`'s is ignored, no check                  |
  | `Union`, `Intersection`, `IntersectionBU`                   | **global** (`ExplicitTreeAutCore res (lhs.cache_)`) – the operands' alphabets are ignored, no check |
  | `RemoveUselessStates`, `GetCandidateTree`, `Complement`     | **global** (`ExplicitTreeAutCore result (cache_)`)      |
  | `RemoveUnreachableStates`                                   | `this`'s if nothing is removed (`return *this`), else **global** |
  | `Reduce`                                                    | `CollapseStates` then `RemoveUnreachableStates`: as the line above |

  Hence an automaton that lives on an alphabet of its own (`SetAlphabet`, `examples/example14.cc`) silently comes back on
  the global alphabet from most operations; its symbol numbers are then read through the wrong dictionary
  (`WrapperEx.defect_*`).
* `LoadFromAutDesc (desc, stateDict)`: `GetAlphabet ()->GetSymbolTransl ()` (throws for a direct alphabet before anything
  is changed), then `loadFromAutDescInternal` (modelled in `Vata/LoadDump.lean`, here again with the explicit counter):
  symbols of `desc.symbols`, final states, transitions; rules and final states are ADDED to what the automaton holds.
* `DumpToAutDesc (stateDict)`: `dumpToAutDescInternal` with `GetAlphabet ()`; of a `StringRank` only `symbolStr` is
  written.  `ToString (trans)`: `symbolStr` of the back translation, then `"(" c₁ ", " … ") -> " parent` (numbers); the
  strict back translator throws `std::runtime_error ("No translation for " + n)`.

## abstractions

* the cores are `Vata.TA` values (lists read as sets), results of operations are appended to `World.auts` as new
  objects; move construction / assignment (which leave `core_ == nullptr` behind) are not modelled; indices that do not
  exist make `step` fail with a model-level message (they correspond to no C++ behaviour).
* core operations that are modelled elsewhere as coded are used directly (`TrimCoded.unreachCoded`, `uselessCoded`,
  `reindex`, `translateSymbols`); `Union`, `Intersection`, `IntersectionBU`, `GetCandidateTree`, `Complement` and the
  quotient of `Reduce` / `CollapseStates` enter `Op.core1` / `Op.core2` as a function on the cores (what matters here is the
  alphabet of the result, which is as in the table).
-/
namespace Vata

deriving instance DecidableEq for TA

namespace Wrapper
open Vata.LoadDump

/-! ## alphabets -/

/-- `AbstractAlphabet` objects: `OnTheFlyAlphabet { symbolDict_, nextSymbol_ }` or `DirectAlphabet` -/
inductive Alphabet where
  | otf (dict : SymDict) (next : Nat)
  | direct
deriving Repr, DecidableEq

/-- `(*alphabet->GetSymbolBackTransl ()) (f)` : `TranslatorStrict` over the reverse map, or the direct back translator -/
def Alphabet.back : Alphabet → Nat → Except String (String × Nat)
  | .otf d _, f =>
    match d.bwd? f with
    | some k => .ok k
    | none => .error (noTransl f)
  | .direct, f => .ok (toString f, 0)

/-- `(*alphabet->GetSymbolTransl ()) (StringRank (name, rank))`: the number and the alphabet afterwards;
`DirectAlphabet::GetSymbolTransl` throws `NotImplementedException (__func__)` -/
def Alphabet.translate : Alphabet → String × Nat → Except String (Nat × Alphabet)
  | .otf d n, k => .ok ((d.weak n k).1, .otf (d.weak n k).2.1 (d.weak n k).2.2)
  | .direct, _ => .error "Not implemented: GetSymbolTransl"

/-! ## the loader with the counter `nextSymbol_` as coded -/

/-- what the two translators of a load own: `stateDict` with the local counter `state`; `symbolDict_` with `nextSymbol_` -/
structure LStW where
  sd : StateDict
  cnt : Nat
  yd : SymDict
  next : Nat
deriving Repr, DecidableEq

/-- `stateTransl (q)` : `[&state](const std::string&){return state++;}` -/
def trStateW (s : LStW) (q : String) : Nat × LStW :=
  ((s.sd.weak s.cnt q).1, { s with sd := (s.sd.weak s.cnt q).2.1, cnt := (s.sd.weak s.cnt q).2.2 })

/-- `symbolTransl (StringRank (name, rank))` : `[&](const StringSymbolType&){return nextSymbol_++;}` -/
def trSymW (s : LStW) (k : String × Nat) : Nat × LStW :=
  ((s.yd.weak s.next k).1, { s with yd := (s.yd.weak s.next k).2.1, next := (s.yd.weak s.next k).2.2 })

def trStatesW (s : LStW) : List String → List Nat × LStW
  | [] => ([], s)
  | q :: qs => ((trStateW s q).1 :: (trStatesW (trStateW s q).2 qs).1, (trStatesW (trStateW s q).2 qs).2)

/-- `for (auto symbolRankPair : desc.symbols) symbolTransl (StringRank (first, second));` -/
def regSymsW (s : LStW) : List (String × Int) → LStW
  | [] => s
  | p :: ps => regSymsW (trSymW s (p.1, rankKey p.2)).2 ps

/-- children left to right, `symbolTransl (StringRank (symbolStr, children.size ()))`, `stateTransl (parentStr)` -/
def trRuleW (s : LStW) (t : List String × String × String) : Rule × LStW :=
  (⟨(trSymW (trStatesW s t.1).2 (t.2.1, t.1.length)).1, (trStatesW s t.1).1,
      (trStateW (trSymW (trStatesW s t.1).2 (t.2.1, t.1.length)).2 t.2.2).1⟩,
    (trStateW (trSymW (trStatesW s t.1).2 (t.2.1, t.1.length)).2 t.2.2).2)

def trRulesW (s : LStW) : List (List String × String × String) → List Rule × LStW
  | [] => ([], s)
  | t :: ts => ((trRuleW s t).1 :: (trRulesW (trRuleW s t).2 ts).1, (trRulesW (trRuleW s t).2 ts).2)

/-- `loadFromAutDescInternal` -/
def loadFromW (s : LStW) (d : AutDesc) : TA × LStW :=
  (⟨(trRulesW (trStatesW (regSymsW s d.symbols) d.final).2 d.trans).1, (trStatesW (regSymsW s d.symbols) d.final).1⟩,
    (trRulesW (trStatesW (regSymsW s d.symbols) d.final).2 d.trans).2)

/-! ## the world: alphabet objects and automata -/

/-- an `ExplicitTreeAut`: the core's rules / final states and the alphabet object `alphabet_` points to -/
structure WAut where
  core : TA
  alpha : Nat
deriving Repr, DecidableEq

/-- `alphas[0]` is `ExplicitTreeAutCore::globalAlphabet_` -/
structure World where
  alphas : List Alphabet
  auts : List WAut
deriving Repr, DecidableEq

/-- program start: `globalAlphabet_ = AlphabetType (new OnTheFlyAlphabet)`, no automaton -/
def World.init : World := ⟨[.otf [] 0], []⟩

def World.aut? (w : World) (i : Nat) : Except String WAut :=
  match w.auts[i]? with
  | some A => .ok A
  | none => .error "model: no such automaton"

def World.alpha? (w : World) (a : Nat) : Except String Alphabet :=
  match w.alphas[a]? with
  | some al => .ok al
  | none => .error "model: no such alphabet"

/-- the alphabet object of automaton `i` -/
def World.alphaOf (w : World) (i : Nat) : Except String Alphabet :=
  match w.aut? i with
  | .error e => .error e
  | .ok A => w.alpha? A.alpha

/-! ## observers -/

/-- `DumpToAutDesc` with the symbol back translation as a parameter (same shape as `dumpTA`) -/
def dumpRuleWith (sd : StateDict) (bs : Nat → Except String String) (r : Rule) :
    Except String (List String × String × String) :=
  match mapE (backState sd) r.kids with
  | .error e => .error e
  | .ok ks =>
    match bs r.sym with
    | .error e => .error e
    | .ok f =>
      match backState sd r.parent with
      | .error e => .error e
      | .ok p => .ok (ks, f, p)

def dumpWith (A : TA) (sd : StateDict) (bs : Nat → Except String String) : Except String AutDesc :=
  match mapE (backState sd) A.final with
  | .error e => .error e
  | .ok fin =>
    match mapE (dumpRuleWith sd bs) A.rules with
    | .error e => .error e
    | .ok ts => .ok (normDesc { name := "", symbols := [], states := [], final := fin, trans := ts })

/-- `(*symbolTransl) (sym).symbolStr` -/
def Alphabet.backName (al : Alphabet) (f : Nat) : Except String String :=
  match al.back f with
  | .ok k => .ok k.1
  | .error e => .error e

/-- `ExplicitTreeAut::DumpToAutDesc (stateDict)` -/
def dumpW (w : World) (i : Nat) (sd : StateDict) : Except String AutDesc :=
  match w.aut? i with
  | .error e => .error e
  | .ok A =>
    match w.alpha? A.alpha with
    | .error e => .error e
    | .ok al => dumpWith A.core sd al.backName

/-- `for (it …) { if (it != cbegin) os << ", "; os << *it; }` -/
def joinNums : List Nat → String
  | [] => ""
  | [a] => toString a
  | a :: b :: r => toString a ++ ", " ++ joinNums (b :: r)

/-- `ExplicitTreeAutCore::ToString (trans)` (`alphabet_` is never `nullptr` for an automaton reachable through the
wrapper, so the `else os << trans.GetSymbol ()` branch is dead) -/
def toStringW (w : World) (i : Nat) (t : Rule) : Except String String :=
  match w.alphaOf i with
  | .error e => .error e
  | .ok al =>
    match al.back t.sym with
    | .error e => .error e
    | .ok k => .ok (k.1 ++ "(" ++ joinNums t.kids ++ ") -> " ++ toString t.parent)

/-! ## mutators -/

/-- `LoadFromAutDesc (desc, stateDict)` on automaton `i`: the world and the state dictionary afterwards -/
def loadW (w : World) (i : Nat) (d : AutDesc) (sd : StateDict) : Except String (World × StateDict) :=
  match w.aut? i with
  | .error e => .error e
  | .ok A =>
    match w.alpha? A.alpha with
    | .error e => .error e
    | .ok .direct => .error "Not implemented: GetSymbolTransl"
    | .ok (.otf yd n) =>
      .ok ({ alphas := w.alphas.set A.alpha
                (.otf (loadFromW ⟨sd, 0, yd, n⟩ d).2.yd (loadFromW ⟨sd, 0, yd, n⟩ d).2.next),
             auts := w.auts.set i
                ⟨⟨A.core.rules ++ (loadFromW ⟨sd, 0, yd, n⟩ d).1.rules, A.core.final ++ (loadFromW ⟨sd, 0, yd, n⟩ d).1.final⟩,
                  A.alpha⟩ },
        (loadFromW ⟨sd, 0, yd, n⟩ d).2.sd)

/-- unary core operations whose result is computed by a function given in the `Op` -/
inductive K1 where
  | collapseStates | getCandidateTree | complement
deriving Repr, DecidableEq

/-- binary core operations whose result is computed by a function given in the `Op` -/
inductive K2 where
  | union | intersection | intersectionBU
deriving Repr, DecidableEq

/-- the public calls that change the world (observers: `dumpW`, `toStringW`) -/
inductive Op where
  /-- `ExplicitTreeAut ()` -/
  | newAut
  /-- `ExplicitTreeAut (aut, copyTrans, copyFinal)` -/
  | copyAut (i : Nat) (copyTrans copyFinal : Bool)
  /-- `dst = src` -/
  | assign (dst src : Nat)
  /-- `AlphabetType (new OnTheFlyAlphabet)` -/
  | newOtf
  /-- `AlphabetType (new OnTheFlyAlphabet (*a))` (defaulted copy constructor) -/
  | copyOtf (a : Nat)
  /-- `AlphabetType (new DirectAlphabet)` -/
  | newDirect
  /-- `aut.SetAlphabet (a)` -/
  | setAlphabet (i a : Nat)
  /-- `aut.LoadFromAutDesc (desc, stateDict)` (the dictionary afterwards is dropped; see `loadW`) -/
  | load (i : Nat) (d : AutDesc) (sd : StateDict)
  /-- `aut.AddTransition (children, symbol, parent)` with a raw symbol NUMBER -/
  | addTransition (i : Nat) (kids : List Nat) (sym parent : Nat)
  /-- `aut.SetStateFinal (q)` -/
  | setFinal (i q : Nat)
  /-- `aut.Clear ()` -/
  | clear (i : Nat)
  /-- `aut.RemoveUnreachableStates ()` -/
  | removeUnreachable (i : Nat)
  /-- `aut.RemoveUselessStates ()` -/
  | removeUseless (i : Nat)
  /-- `UnionDisjointStates (lhs, rhs)` -/
  | unionDisjoint (i j : Nat)
  /-- `aut.TranslateSymbols (g)` -/
  | translateSymbols (i : Nat) (g : Nat → Nat)
  /-- `aut.ReindexStates (h)` -/
  | reindex (i : Nat) (h : Nat → Nat)
  /-- `aut.Reduce ()`: `CollapseStates (collapseMap)` (the quotient `c`), then `RemoveUnreachableStates ()` -/
  | reduce (i : Nat) (c : TA → TA)
  | core1 (k : K1) (i : Nat) (f : TA → TA)
  | core2 (k : K2) (i j : Nat) (f : TA → TA → TA)

/-- the alphabet of the result of `RemoveUnreachableStates` on a core with alphabet `a`:
`if (allOwnersReachable) return *this;` else `ExplicitTreeAutCore result (cache_)` (global alphabet) -/
def unreachAlpha (A : TA) (a : Nat) : Nat :=
  if TrimCoded.testOwners A (TrimCoded.unreachSet A) then a else 0

/-- the alphabet of the result of a `K1` operation -/
def K1.alpha : K1 → Nat → Nat
  | .collapseStates, a => a
  | .getCandidateTree, _ => 0
  | .complement, _ => 0

def World.push (w : World) (A : WAut) : World := { w with auts := w.auts ++ [A] }

/-- one public call; `.error` = the exception text (or a model-level index error); the world is unchanged then -/
def step (w : World) : Op → Except String World
  | .newAut => .ok (w.push ⟨⟨[], []⟩, 0⟩)
  | .copyAut i ct cf =>
    match w.aut? i with
    | .error e => .error e
    | .ok A => .ok (w.push ⟨⟨if ct then A.core.rules else [], if cf then A.core.final else []⟩, A.alpha⟩)
  | .assign dst src =>
    match w.aut? dst, w.aut? src with
    | .ok _, .ok A => .ok { w with auts := w.auts.set dst A }
    | .error e, _ => .error e
    | _, .error e => .error e
  | .newOtf => .ok { w with alphas := w.alphas ++ [.otf [] 0] }
  | .copyOtf a =>
    match w.alpha? a with
    | .ok (.otf d n) => .ok { w with alphas := w.alphas ++ [.otf d n] }
    | .ok .direct => .error "model: not an OnTheFlyAlphabet"
    | .error e => .error e
  | .newDirect => .ok { w with alphas := w.alphas ++ [.direct] }
  | .setAlphabet i a =>
    match w.aut? i, w.alpha? a with
    | .ok A, .ok _ => .ok { w with auts := w.auts.set i ⟨A.core, a⟩ }
    | .error e, _ => .error e
    | _, .error e => .error e
  | .load i d sd =>
    match loadW w i d sd with
    | .ok r => .ok r.1
    | .error e => .error e
  | .addTransition i kids sym parent =>
    match w.aut? i with
    | .error e => .error e
    | .ok A => .ok { w with auts := w.auts.set i ⟨⟨A.core.rules ++ [⟨sym, kids, parent⟩], A.core.final⟩, A.alpha⟩ }
  | .setFinal i q =>
    match w.aut? i with
    | .error e => .error e
    | .ok A => .ok { w with auts := w.auts.set i ⟨⟨A.core.rules, A.core.final ++ [q]⟩, A.alpha⟩ }
  | .clear i =>
    match w.aut? i with
    | .error e => .error e
    | .ok A => .ok { w with auts := w.auts.set i ⟨⟨[], []⟩, A.alpha⟩ }
  | .removeUnreachable i =>
    match w.aut? i with
    | .error e => .error e
    | .ok A => .ok (w.push ⟨TrimCoded.unreachCoded A.core, unreachAlpha A.core A.alpha⟩)
  | .removeUseless i =>
    match w.aut? i with
    | .error e => .error e
    | .ok A => .ok (w.push ⟨TrimCoded.uselessCoded A.core, 0⟩)
  | .unionDisjoint i j =>
    match w.aut? i, w.aut? j with
    | .ok L, .ok R => .ok (w.push ⟨⟨L.core.rules ++ R.core.rules, L.core.final ++ R.core.final⟩, L.alpha⟩)
    | .error e, _ => .error e
    | _, .error e => .error e
  | .translateSymbols i g =>
    match w.aut? i with
    | .error e => .error e
    | .ok A => .ok (w.push ⟨translateSymbols g A.core, A.alpha⟩)
  | .reindex i h =>
    match w.aut? i with
    | .error e => .error e
    | .ok A => .ok (w.push ⟨reindex h A.core, A.alpha⟩)
  | .reduce i c =>
    match w.aut? i with
    | .error e => .error e
    | .ok A => .ok (w.push ⟨TrimCoded.unreachCoded (c A.core), unreachAlpha (c A.core) A.alpha⟩)
  | .core1 k i f =>
    match w.aut? i with
    | .error e => .error e
    | .ok A =>
      match k, w.alpha? A.alpha with
      | _, .error e => .error e
      | .complement, .ok .direct => .error "Not implemented: Complement not implemented for the given alphabet type"
      | _, .ok _ => .ok (w.push ⟨f A.core, k.alpha A.alpha⟩)
  | .core2 _ i j f =>
    match w.aut? i, w.aut? j with
    | .ok L, .ok R => .ok (w.push ⟨f L.core R.core, 0⟩)
    | .error e, _ => .error e
    | _, .error e => .error e

/-- a sequence of calls; a call that throws leaves the world as it was (the exception is caught by the caller) -/
def run (w : World) : List Op → World
  | [] => w
  | o :: os =>
    match step w o with
    | .ok w' => run w' os
    | .error _ => run w os

/-- the worlds a program can reach -/
inductive Reach : World → Prop where
  | init : Reach World.init
  | step {w w' : World} (o : Op) : Reach w → step w o = .ok w' → Reach w'

/-! ## the forwarding table (`src/explicit_tree_aut.cc`): wrapper method ↦ what its body calls

Candidates for regeneration from the sources.  Overloads are listed once per body.  `"-"` = declared in
`explicit_tree_aut.hh` but NOT defined in `explicit_tree_aut.cc` (nor elsewhere): using it is a link error. -/
/-- the methods whose body calls the core method of the same name on `*core_` (static ones: on `CoreAut::`) -/
def wrapperForwardsSame : List (String × String) :=
  [ ("operator=(const ExplicitTreeAut&)", "operator="),
    ("SetAlphabet", "SetAlphabet"),
    ("GetAlphabet", "GetAlphabet"),
    ("GetAlphabet const", "GetAlphabet"),
    ("begin", "begin"),
    ("begin const", "begin"),
    ("end", "end"),
    ("end const", "end"),
    ("SetStateFinal", "SetStateFinal"),
    ("SetStatesFinal", "SetStatesFinal"),
    ("IsStateFinal", "IsStateFinal"),
    ("GetFinalStates", "GetFinalStates"),
    ("EraseFinalStates", "EraseFinalStates"),
    ("GetAcceptTrans", "GetAcceptTrans"),
    ("GetUsedStates", "GetUsedStates"),
    ("Clear", "Clear"),
    ("AddTransition(children,symbol,state)", "AddTransition"),
    ("AddTransition(trans)", "AddTransition"),
    ("operator[]", "operator[]"),
    ("ContainsTransition(trans)", "ContainsTransition"),
    ("ContainsTransition(children,symbol,state)", "ContainsTransition"),
    ("AreTransitionsEmpty", "AreTransitionsEmpty"),
    ("LoadFromString(parser,str,params)", "LoadFromString"),
    ("LoadFromString(parser,str,stateTransl,params)", "LoadFromString"),
    ("LoadFromString(parser,str,stateDict,params)", "LoadFromString"),
    ("LoadFromAutDesc(desc,stateDict,params)", "LoadFromAutDesc"),
    ("DumpToString(serializer,params)", "DumpToString"),
    ("DumpToString(serializer,stateDict,params)", "DumpToString"),
    ("DumpToString(serializer,stateTransl,params)", "DumpToString"),
    ("DumpToAutDesc(params)", "DumpToAutDesc"),
    ("DumpToAutDesc(stateDict,params)", "DumpToAutDesc"),
    ("DumpToAutDesc(stateTransl,params)", "DumpToAutDesc"),
    ("CopyTransitionsFrom", "CopyTransitionsFrom"),
    ("BuildStateIndex", "BuildStateIndex"),
    ("ReindexStates(fctor,addFinalStates)", "ReindexStates"),
    ("ReindexStates(dst,fctor,addFinalStates)", "ReindexStates"),
    ("ReindexStates(stateTransl)", "ReindexStates"),
    ("RemoveUnreachableStates(pTranslMap)", "RemoveUnreachableStates"),
    ("RemoveUselessStates", "RemoveUselessStates"),
    ("GetCandidateTree", "GetCandidateTree"),
    ("Union", "Union"),
    ("UnionDisjointStates", "UnionDisjointStates"),
    ("Intersection", "Intersection"),
    ("IntersectionBU", "IntersectionBU"),
    ("IsLangEmpty", "IsLangEmpty"),
    ("ComputeSimulation", "ComputeSimulation"),
    ("CheckInclusion(smaller,bigger,params)", "CheckInclusion"),
    ("CheckInclusion(smaller,bigger)", "CheckInclusion"),
    ("Reduce()", "Reduce"),
    ("Reduce(params)", "Reduce"),
    ("CollapseStates", "CollapseStates"),
    ("TranslateSymbols", "TranslateSymbols"),
    ("ToString(trans)", "ToString"),
    ("ToString()", "ToString"),
    ("Complement", "Complement") ]

/-- the documented exceptions: constructors / move operations (no core method of that name), the methods that are
declared but not defined (`"-"`), and the inline `PrintSimulationMapping` -/
def wrapperForwardsOther : List (String × String) :=
  [ ("ExplicitTreeAut()", "CoreAut(CoreAut::ParentAut())"),
    ("ExplicitTreeAut(CoreAut&&)", "CoreAut(std::move(core))"),
    ("ExplicitTreeAut(const ExplicitTreeAut&,bool,bool)", "CoreAut(*aut.core_,copyTrans,copyFinal)"),
    ("ExplicitTreeAut(ExplicitTreeAut&&)", "std::move(aut.core_)"),
    ("operator=(ExplicitTreeAut&&)", "std::move(aut.core_)"),
    ("GetDown", "-"),
    ("LoadFromAutDesc(desc,params)", "-"),
    ("LoadFromAutDesc(desc,stateTransl,params)", "-"),
    ("RemoveUnreachableStates(rel,index)", "-"),
    ("PrintSimulationMapping", "throw NotImplementedException") ]

def wrapperForwards : List (String × String) := wrapperForwardsSame ++ wrapperForwardsOther

/-- the method name of an entry: the text before `(` or before a blank -/
def methodName (s : String) : List Char := s.toList.takeWhile (fun c => c != '(' && c != ' ')

/-- every entry of `wrapperForwardsSame` forwards to the core method of its own name -/
def forwardsSane : Bool :=
  wrapperForwardsSame.all (fun e => methodName e.1 == e.2.toList)

/-- the declared-but-undefined methods -/
def undefinedMethods : List String := (wrapperForwardsOther.filter (fun e => e.2.toList == ['-'])).map (·.1)

end Wrapper
end Vata
