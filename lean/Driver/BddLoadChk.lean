import Vata.Parse
import Vata.BddLoad
/-! # Driver side of the `bddload` histories (C08, C13): the Timbuk layer of the BDD encodings

Replays the history (`harness/op_bddload.inc`) on the model `Vata.BddLoad` (`step`, `dumpObj`) and compares, after every
step, the exception of the step, the symbol dictionary of the alphabet and BOTH dumps of EVERY live automaton with what
the real classes answered.

* `violation` – the real classes contradict a theorem of `Vata/Proofs/BddLoad.lean`:
  - `load_dump_bu` / `load_dump_td` (`C08_load_dump_roundtrip`): a new automaton loaded with the explicit parameter and a
    fresh state dictionary on an alphabet that stays within `2^16` names dumps the final states and transitions of the
    parsed description, and the states the theorem names;
  - `reload_dump_*` (`C08_load_dump_reload`; `load_dump_*` applied to the dumped description, through the text by C13):
    the explicit dump of the automaton reloaded from an explicit dump has the same final states and transitions (same
    bound on the alphabet);
  - `sym_load_dump_denotes` (`C08_load_symbolic_denotation`): a new bottom-up automaton loaded with the symbolic
    parameter (fresh state dictionary, all symbols well-formed): for every valuation of the 16 variables the rules that
    the symbolic dump denotes are those the description denotes (checked on sampled valuations);
  - `tuplesForArity_mod` (`C08_load_arity_reader`): `GetMtbddForArity (GetMtbdd (p), n)` of a top-down automaton shows only
    tuples with `n` children modulo 64;
* `mismatch` – the real classes differ from the model where no theorem decides (everything else: messages, numbering,
  alphabet codes, state sets, dumps after exceptions, dumps on a wrapped alphabet, …).
-/
open Vata
open Vata.BddLoad

namespace BddLoadChk

def getE (o : Option α) (msg : String) : Except String α :=
  match o with
  | some a => pure a
  | none => throw msg

def decodeText (s : String) : String :=
  s.map (fun c => if c == '_' then ' ' else if c == '~' then '\n' else c)

def encodeMsg (s : String) : String :=
  s.map (fun c => if c == ' ' then '_' else if c == '\n' then '~' else if c == '\t' then '^' else c)

def showTrans (t : List String × String × String) : String :=
  t.2.1 ++ "(" ++ ",".intercalate t.1 ++ ")>" ++ t.2.2

def showDesc (d : AutDesc) : String :=
  ",".intercalate d.states ++ "|" ++ ",".intercalate d.final ++ "|" ++ ";".intercalate (d.trans.map showTrans) ++ "|" ++
    d.name ++ "/" ++ toString d.symbols.length

def showDump (r : Except String AutDesc) : String :=
  match r with
  | .error e => "EXC:" ++ encodeMsg e
  | .ok d => showDesc d

def fnv (s : String) : UInt64 :=
  s.toUTF8.foldl (fun h b => (h ^^^ b.toUInt64) * 1099511628211) 14695981039346656037

/-- the symbol dictionary as the harness prints it (`std::map` order: by name) -/
def showAlphabet (yd : BddLoad.SymDict) : String :=
  let a := (yd.toArray.qsort (fun x y => x.1 < y.1)).toList
  let s := ",".intercalate (a.map (fun e => e.1 ++ ":" ++ codeStr e.2))
  if a.length ≤ 48 then s else "#" ++ toString a.length ++ ":" ++ toString (fnv s).toNat

def parPar? (s : String) : Option Param :=
  if s == "e" || s == "o" then some .explicit else if s == "s" then some .symbolic else none

/-- the description of a filler step in `std::set` order (`Triple::operator<`: tuple, symbol, parent) -/
def fillerDesc (n m off : Nat) : AutDesc :=
  let ts : Array (List String × String × String) :=
    (Array.range n).map (fun x => ([s!"s{x % m}"], s!"z{off + x}", s!"t{x % m}"))
  let lt (a b : List String × String × String) : Bool :=
    let ka := a.1.headD ""; let kb := b.1.headD ""
    if ka < kb then true else if kb < ka then false
    else if a.2.1 < b.2.1 then true else if b.2.1 < a.2.1 then false else a.2.2 < b.2.2
  { name := "", symbols := [], states := [], final := [], trans := (ts.qsort lt).toList }

/-- the standard filler `F:65535:1024:0` on a fresh alphabet (the model takes minutes: quadratic in the number of names);
computed once per process -/
def stdFillN : Nat := 65535
def stdFillM : Nat := 1024

set_option compiler.extract_closed false in
def stdFillBU : Thunk (World × Option String) :=
  Thunk.mk fun _ => step {} (.loadDesc true true .explicit (fillerDesc stdFillN stdFillM 0))

set_option compiler.extract_closed false in
def stdFillTD : Thunk (World × Option String) :=
  Thunk.mk fun _ => step {} (.loadDesc false true .explicit (fillerDesc stdFillN stdFillM 0))

/-! ### the denotation of symbolic descriptions (for the `sym_*_denotes` check) -/

/-- the assignment of a symbol string of any length; `none`: a character outside `0 1 X` -/
def cubeOf (s : String) : Option Cube := Glue.ofStr s.toList

/-- the (children, parent) pairs that the transitions denote for the 16-bit symbol `n`; `none`: a malformed symbol -/
def denote (ts : List (List String × String × String)) (n : Nat) : Option (List (List String × String)) :=
  ts.foldlM (fun acc t =>
    match cubeOf t.2.1 with
    | none => none
    | some c => some (if M.agrees (BddAbs.bits n) c 0 && !acc.contains (t.1, t.2.2) then (t.1, t.2.2) :: acc else acc)) []

def sameSet (a b : List (List String × String)) : Bool := a.all b.contains && b.all a.contains

/-- the valuations on which the denotations are compared: the corners, and every symbol of the description with its
don't-cares set to 0, to 1, alternating -/
def samples (ts : List (List String × String × String)) : List Nat :=
  let ofBits (f : Nat → Char → Bool) (s : String) : Nat :=
    (s.toList.zipIdx).foldl (fun acc (c, i) => if f i c then acc + 2 ^ i else acc) 0
  let base := [0, 65535, 21845, 43690, 1, 32768]
  let fromSyms := ts.flatMap (fun t =>
    [ofBits (fun _ c => c == '1') t.2.1, ofBits (fun _ c => c == '1' || c == 'X') t.2.1,
     ofBits (fun i c => c == '1' || (c == 'X' && i % 2 == 0)) t.2.1,
     ofBits (fun i c => c == '1' || (c == 'X' && i % 2 == 1)) t.2.1])
  (base ++ fromSyms).eraseDups

/-- the fields `final` and `trans` of a printed description -/
def finTrans (tok : String) : Option (String × String) :=
  match tok.splitOn "|" with
  | [_, f, t, _] => some (f, t)
  | _ => none

/-- parse the transitions field of a printed description -/
def parseTransField (s : String) : Option (List (List String × String × String)) :=
  (splitC s ';').mapM (fun t =>
    match t.splitOn "(" with
    | [sym, rest] =>
      match rest.splitOn ")>" with
      | [ks, p] => some (splitC ks ',', sym, p)
      | _ => none
    | _ => none)

/-- the arities the harness reads back through `GetMtbddForArity` -/
def arities : List Nat := [0, 1, 2, 3, 4, 5, 6, 7, 62, 63]

/-- the model of the `g` token -/
def showArity (A : AutTD) : String :=
  ";".intercalate (arities.map (fun n =>
    toString n ++ ":" ++ ",".intercalate (((arityLens A n).eraseDups.toArray.qsort (· < ·)).toList.map toString)))

/-- `tuplesForArity_mod`: under the prefix `n` only tuples with `n` children modulo 64 -/
def arityViolation (tok : String) : Option String :=
  (tok.splitOn ";").findSome? (fun part =>
    match part.splitOn ":" with
    | [n, ls] =>
      match n.toNat? with
      | none => some s!"bad part {part}"
      | some n =>
        (splitC ls ',').findSome? (fun l =>
          match l.toNat? with
          | none => some s!"bad length {l}"
          | some l => if l % 64 != n % 64 then some s!"a tuple with {l} children under the arity prefix {n}" else none)
    | _ => some s!"bad part {part}")

structure St where
  w : World := {}
  quiet : List Bool := []
  f : List String := []
  br : List Char := []

def St.note (s : St) (c : Char) : St := if s.br.contains c then s else { s with br := c :: s.br }
def St.find (s : St) (m : String) : St := { s with f := s.f ++ [m] }

def clip (s : String) : String := if s.length > 300 then (s.take 300).toString ++ "…" else s

def hasDupName (ts : List (List String × String × String)) : Bool :=
  ts.any (fun t => ts.any (fun t' => t.2.1 == t'.2.1 && t.1.length != t'.1.length))

/-- read back the alphabet and every live automaton after step `k` -/
def readBack (res : List String) (k : Nat) (s : St) : Except String St := do
  let mut s := s
  let al ← getE (kv res s!"al{k}") s!"step {k}: alphabet not dumped"
  let alM := showAlphabet s.w.yd
  if al != alM then
    s := s.find s!"mismatch step {k}: alphabet {clip al}, model {clip alM}"
  for (o, j) in s.w.objs.zipIdx do
    let e ← getE (kv res s!"e{k}.{j}") s!"step {k}: automaton {j} not dumped"
    let y ← getE (kv res s!"y{k}.{j}") s!"step {k}: automaton {j} not dumped (symbolic)"
    if s.quiet.getD j false then
      let yM := match o.aut with
        | .bu A => "#" ++ toString (rawSymBU A).trans.length
        | .td _ => "-"
      if e != "-" then s := s.find s!"mismatch step {k} automaton {j}: quiet automaton dumped"
      if y != yM then s := s.find s!"mismatch step {k} automaton {j}: symbolic dump has {y} transitions, model {yM}"
    else
      let eM := showDump (dumpObj s.w.yd o .explicit)
      let yM := showDump (dumpObj s.w.yd o .symbolic)
      if e != eM then s := s.find s!"mismatch step {k} automaton {j}: explicit dump {clip e}, model {clip eM}"
      if y != yM then s := s.find s!"mismatch step {k} automaton {j}: symbolic dump {clip y}, model {clip yM}"
      match o.aut with
      | .td A =>
        let g ← getE (kv res s!"g{k}.{j}") s!"step {k}: automaton {j}: arity prefixes not read back"
        match arityViolation g with
        | some m => s := s.find s!"violation step {k} automaton {j}: GetMtbddForArity shows {m} (tuplesForArity_mod)"
        | none => pure ()
        let gM := showArity A
        if g != gM then s := s.find s!"mismatch step {k} automaton {j}: GetMtbddForArity shows {clip g}, model {clip gM}"
        if (arityLens A 0).any (· ≥ 64) then s := s.note 'c'
      | .bu _ => pure ()
      -- a symbolic dump with a symbol shorter than 16 characters
      match finTrans y >>= (fun ft => parseTransField ft.2) with
      | some ts => if ts.any (fun t => t.2.1.length < 16) then s := s.note 't'
      | none => pure ()
  if (kv res s!"e{k}.{s.w.objs.length}").isSome then throw s!"step {k}: more automata dumped than live"
  pure s

def outcomeStr (e : Option String) : String :=
  match e with
  | none => "ok"
  | some m => "EXC:" ++ encodeMsg m

/-- the theorem-backed checks for a new automaton `j` loaded from the parsed description `d` -/
def checkNew (res : List String) (k j : Nat) (isBU : Bool) (par : Param) (d : AutDesc) (s : St) : Except String St := do
  let mut s := s
  match par with
  | .explicit =>
    if s.w.yd.length ≤ symbolCodes then
      let e ← getE (kv res s!"e{k}.{j}") s!"step {k}: automaton {j} not dumped"
      let states := if isBU then d.final ++ d.trans.flatMap (·.1) else d.final ++ d.trans.flatMap (fun t => t.2.2 :: t.1)
      let exp := showDesc (LoadDump.normDesc { name := "", symbols := [], states := states, final := d.final, trans := d.trans })
      if e != exp then
        s := s.find s!"violation step {k} automaton {j}: dump(load d) = {clip e}, but d = {clip exp} (load_dump round trip, alphabet of {s.w.yd.length} names)"
    else s := s.note 'k'
  | .symbolic =>
    if isBU && d.trans.all (fun t => (symOfStr t.2.1).toOption.isSome) then
      let y ← getE (kv res s!"y{k}.{j}") s!"step {k}: automaton {j} not dumped"
      match finTrans y >>= (fun ft => parseTransField ft.2) with
      | none => s := s.find s!"violation step {k} automaton {j}: symbolic dump {clip y} not a description"
      | some ts =>
        for n in samples d.trans do
          match denote ts n, denote d.trans n with
          | some a, some b =>
            if !sameSet a b then
              s := s.find s!"violation step {k} automaton {j}: for the symbol {codeStr n} the symbolic dump denotes {a.length} rules, the description {b.length} (sym_load_dump_denotes)"
              break
          | _, _ =>
            s := s.find s!"violation step {k} automaton {j}: symbolic dump with a malformed symbol"
            break
  pure s

def go (isBU : Bool) (steps res : List String) (k : Nat) (s : St) : Except String St :=
  match steps with
  | [] => pure s
  | st :: rest => do
    let parts := st.splitOn ":"
    let head := parts[0]!
    let got ← getE (kv res s!"s{k}") s!"missing s{k}"
    let mut s := s
    let n0 := s.w.objs.length
    let yd0 := s.w.yd.length
    let mut outcome : Option String := none
    if head == "L" then
      let par ← getE (parts[1]? >>= parPar?) s!"bad step {st}"
      let dm ← getE parts[2]? s!"bad step {st}"
      let txt := decodeText (":".intercalate (parts.drop 3))
      let r := step s.w (.load none isBU (dm == "d") par txt)
      s := { s with w := r.1, quiet := s.quiet ++ [false] }
      outcome := r.2
      s := s.note (if par == .explicit then 'e' else 's')
      if dm != "d" then s := s.note 'n'
      match parseTimbuk txt with
      | .error _ => s := s.note 'p'
      | .ok d =>
        if hasDupName d.trans then s := s.note 'u'
        if d.trans.any (fun t => t.1.length ≥ 64) then s := s.note 'A'
        if d.trans.isEmpty then s := s.note 'z'
        if dm == "d" && outcome.isNone then s ← checkNew res k n0 isBU par d s
    else if head.startsWith "A" then
      let j ← getE (head.drop 1).toString.toNat? s!"bad step {st}"
      if j ≥ n0 || s.quiet.getD j false then throw s!"no such automaton in step {st}"
      let par ← getE (parts[1]? >>= parPar?) s!"bad step {st}"
      let txt := decodeText (":".intercalate (parts.drop 2))
      let r := step s.w (.load (some j) isBU true par txt)
      s := { s with w := r.1 }
      outcome := r.2
      s := s.note 'a'
    else if head.startsWith "R" then
      let j ← getE (head.drop 1).toString.toNat? s!"bad step {st}"
      if j ≥ n0 || s.quiet.getD j false then throw s!"no such automaton in step {st}"
      let par ← getE (parts[1]? >>= parPar?) s!"bad step {st}"
      let r := step s.w (.reload j par)
      s := { s with w := r.1 }
      if r.1.objs.length > n0 then s := { s with quiet := s.quiet ++ [false] }
      outcome := r.2
      s := s.note (if outcome.isNone then 'r' else 'R')
      -- the reloaded explicit dump: same final states and transitions (C++ against C++)
      if par == .explicit && outcome.isNone && r.1.objs.length > n0 && s.w.yd.length ≤ symbolCodes
          && (s.w.objs[j]?.map (fun o => o.sd.isSome)).getD false then
        let eOld ← getE (kv res s!"e{k}.{j}") s!"step {k}: automaton {j} not dumped"
        let eNew ← getE (kv res s!"e{k}.{n0}") s!"step {k}: automaton {n0} not dumped"
        if finTrans eOld != finTrans eNew then
          s := s.find s!"violation step {k}: the reloaded explicit dump {clip eNew} differs from the dump {clip eOld} (reload_dump)"
    else if head == "F" then
      let n ← getE (parts[1]? >>= String.toNat?) s!"bad step {st}"
      let m ← getE (parts[2]? >>= String.toNat?) s!"bad step {st}"
      let off ← getE (parts[3]? >>= String.toNat?) s!"bad step {st}"
      if m == 0 then throw s!"bad step {st}"
      let r := if n == stdFillN && m == stdFillM && off == 0 && s.w.objs.isEmpty && s.w.yd.isEmpty then
          (if isBU then stdFillBU.get else stdFillTD.get)
        else step s.w (.loadDesc isBU true .explicit (fillerDesc n m off))
      s := { s with w := r.1, quiet := s.quiet ++ [true] }
      outcome := r.2
      s := s.note 'f'
    else throw s!"unknown step {st}"
    if yd0 ≤ symbolCodes && s.w.yd.length > symbolCodes then s := s.note 'w'
    match outcome with
    | none => pure ()
    | some m =>
      s := s.note (if m.startsWith "Invalid symbols size" then 'x' else if m.startsWith "Invalid input" then 'v'
        else if m.startsWith "Error: " then 'P' else if m.startsWith "Not implemented" then 'N' else '?')
    if got != outcomeStr outcome then
      s := s.find s!"mismatch step {k} ({head}): outcome {clip got}, model {clip (outcomeStr outcome)}"
    s ← readBack res k s
    go isBU rest res (k + 1) s

/-- tag legend (`br=`): loads `e` explicit / `s` symbolic parameter, `n` without a state dictionary, `a` into a loaded
automaton, `f` filler, `z` no transition, `u` a symbol name with two arities, `A` a transition with ≥ 64 children, `p` text
rejected by the parser; reload `r` done / `R` failed; exceptions `x` symbol size, `v` symbol character, `P` parser,
`N` not implemented; `c` a tuple with ≥ 64 children under the arity prefix 0; `t` a symbolic dump with a symbol shorter than 16 characters; `w` the alphabet crossed `2^16` names in
this case, `k` explicit load on a wrapped alphabet (round trip not claimed) -/
def check (args res : List String) : Except String (List String × String) := do
  let enc ← getE args[0]? "missing encoding"
  if enc != "bu" && enc != "td" then throw s!"bad encoding {enc}"
  let s ← go (enc == "bu") (args.drop 1) res 0 {}
  let br := String.ofList (s.br.toArray.qsort (· < ·)).toList
  let f := if s.f.length > 6 then s.f.take 6 ++ [s!"mismatch (… {s.f.length - 6} further findings of this case suppressed)"] else s.f
  pure (f, s!"enc={enc} steps={args.length - 1} auts={s.w.objs.length} syms={s.w.yd.length} br={br}")

end BddLoadChk
