import Vata.Parse
import Vata.Generated.Tables
import Vata.InclUpBdd
import Vata.Proofs.InclUpBddTotal
import Vata.BddIsect
import Vata.BddAbsTD
import Vata.BddTrimCoded
import Vata.BddTrimCodedBU
import Vata.InclDownTables
import Vata.Proofs.BddTrimCodedBU5
import Vata.Proofs.BddAbsTD
import Driver.BddShareChk
import Vata.Properties.C07
/-! # Driver side of the BDD-encoding checks: `bddincl`, `bddinclall` (C07), `bddh`, `bddtd` (C08) -/
open Vata

namespace BddChk

def FUEL : Nat := 1000000

def getE (o : Option α) (msg : String) : Except String α :=
  match o with
  | some a => pure a
  | none => throw msg

def bchar (b : Bool) : Char := if b then '1' else '0'

def selNames : List String :=
  ["td down-rec", "td down-rec-opt", "-", "bu up", "bu down-rec+sim", "bu default", "td down-rec+sim", "td down-rec-opt+sim"]

def checkIncl (args res : List String) : Except String (List String × String) := do
  let A ← getE (args[0]? >>= parseTA?) "bad A"
  let B ← getE (args[1]? >>= parseTA?) "bad B"
  let v ← getE (kv res "v") "missing v"
  let exp ← getE (inclM A B FUEL) "fuel"
  let mut f : List String := []
  let mut over := 0
  if v.length != selNames.length then throw "bad verdict vector"
  for (c, n) in v.toList.zip selNames do
    if c == '-' then pure ()
    else if c == 'T' then over := over + 1
    else if c != bchar exp then f := f ++ [s!"violation bddincl[{n}]={c} reference={bchar exp}"]
  -- the L2 model of the (repaired) bottom-up upward algorithm (`inclUpBdd_iff`) against the implementation's verdict
  -- fuel above the proved bound (`checkInclUpBdd_complete`): `none` is then impossible for the model as proved
  match checkInclUpBdd A B (InclUpBdd.fuelBoundBdd (removeUseless A) (removeUseless B) + 1) with
  | some (b, _) =>
    let c := v.toList[3]!
    if c != 'T' && bchar b != c then f := f ++ [s!"mismatch bdd-upward-model verdict {bchar b} implementation {c}"]
    if b != exp then throw "internal: certifying bdd upward model contradicts the reference"
  | none => f := f ++ ["mismatch bdd-upward-model returned none (fuel / certificate)"]
  -- the downward selections through `C07Sel.model` (the function `C07_every_selection_exact` / `C07_total_selections` are about):
  -- exponential like the code, so on small operands only and where the implementation answered within its budget
  if A.states.length + B.states.length ≤ 6 && A.rules.eraseDups.length + B.rules.eraseDups.length ≤ 12 then
    for (name, ix, sel) in [("td down-rec", 0, Vata.Props.C07Sel.tdRec), ("td down-rec-opt", 1, .tdRecOpt),
        ("bu down-rec+sim", 4, .buDownSim)] do
      let c := v.toList[ix]!
      if c == 'T' || c == '-' then continue
      match sel.model [] A B 100000 with
      | some (b, _) =>
        if bchar b != c then f := f ++ [s!"mismatch {name}-model verdict {bchar b} implementation {c}"]
        if b != exp then throw s!"internal: certifying {name} model contradicts the reference"
      | none => f := f ++ [s!"mismatch {name}-model returned none (fuel / certificate)"]
  -- the recursive downward algorithm over top-down TABLES through the MTBDD traversal as coded (`Vata/InclDownTables.lean`:
  -- `ForeachDownSymbolFromStateAndStateSetDo` as `VoidApply2` with its node-pair cache, the callback per pair of leaves;
  -- `C07_traverse_downward_algorithm`, `C07_td_downward_tables_exact`): its verdict on the loaded sanitised operands must be the library's
  let mut trav := "-"
  if A.states.length + B.states.length ≤ 6 && A.rules.eraseDups.length + B.rules.eraseDups.length ≤ 12 && v.toList[0]! != 'T' then
    let A' := removeUseless A
    let B' := removeUseless B
    match Vata.InclDownTables.inclDownTrav Vata.InclDown.idOrd (Vata.BddAbsTD.ofRulesTD A'.rules) A'.final (Vata.BddAbsTD.ofRulesTD B'.rules) B'.final [] 100000 with
    | some b =>
      trav := "1"
      if bchar b != v.toList[0]! then f := f ++ [s!"mismatch td down-rec traversal model on tables: verdict {bchar b} implementation {v.toList[0]!}"]
    | none => trav := "0"
  let eA ← getE (emptyM A FUEL) "fuel"
  pure (f, s!"incl={bchar exp} emptyA={bchar eA} overrun={over} travmodel={trav}")

/-- implemented option words (regenerated table: see `Vata/Generated/Tables.lean` when present) -/
def implTD : List Nat := Vata.Gen.tdDispatch.map (·.word)
def implBU : List Nat := Vata.Gen.buDispatch.map (·.word)

def checkInclAll (args res : List String) : Except String (List String × String) := do
  let A ← getE (args[0]? >>= parseTA?) "bad A"
  let B ← getE (args[1]? >>= parseTA?) "bad B"
  let exp ← getE (inclM A B FUEL) "fuel"
  let mut f : List String := []
  for (key, impl) in [("td", implTD), ("bu", implBU)] do
    let w ← getE (kv res key) s!"missing {key}"
    if w.length != 128 then throw "bad option vector"
    for (c, i) in w.toList.zip (List.range 128) do
      if impl.contains i then
        if c != 'T' && c != bchar exp then f := f ++ [s!"violation {key} incl[word {i}]={c} reference={bchar exp}"]
      else if c != 'N' then
        f := f ++ [s!"violation {key}: unimplemented option word {i} answered {c} instead of NotImplementedException"]
  pure (f, s!"incl={bchar exp}")

def dumpAt (res : List String) (k i : Nat) : Except String (Option TA) :=
  match kv res s!"{k}.{i}" with
  | none => pure none
  | some t => do pure (some (← getE (parseTA? t) s!"bad TA {k}.{i}"))

def dedupRulesB (rs : List Rule) : List Rule := rs.foldl (fun acc r => if acc.contains r then acc else acc ++ [r]) []
def pairsEq (l₁ l₂ : List (Nat × Nat)) : Bool := l₁.all (fun p => l₂.contains p) && l₂.all (fun p => l₁.contains p)

partial def go (enc : String) (steps res : List String) (k : Nat) (pool : List (Option TA)) (f : List String) (tags : List String)
    : Except String (List String × List String) :=
  match steps with
  | [] => pure (f, tags)
  | st :: rest => do
    let parts := st.splitOn "!"
    let op := parts[0]!
    let argN (i : Nat) : Except String Nat := getE (parts[i]? >>= String.toNat?) s!"bad step {st}"
    let ent (i : Nat) : Except String TA := do
      let ix ← argN i
      getE ((pool[ix]?).join) s!"dead entry in {st}"
    let newIx := pool.length
    let newDump : Except String TA := do getE (← dumpAt res k newIx) s!"missing dump {k}.{newIx}"
    let mut f := f
    let mut tags := tags
    -- `expect`: for each live entry after the step, the automaton whose LANGUAGE it must have
    let mut pool' := pool
    let mut touched : Option Nat := none
    match op with
    | "def" | "defo" =>
      let A ← getE (parts[1]? >>= parseTA?) "bad def"
      let D ← newDump
      if !(← getE (equivM D A FUEL) "fuel") then f := f ++ [s!"violation step {k} load+dump changes the language: {showTA D}"]
      if D.rules.length != (A.rules.foldl (fun acc r => if acc.contains r then acc else acc ++ [r]) []).length then
        f := f ++ [s!"mismatch step {k} load+dump changes the number of rules"]
      pool' := pool ++ [some D]
      touched := some newIx
    | "rt" =>
      -- C13: dump → Timbuk text → load into a fresh automaton of the same encoding → dump by names: the same rules and
      -- final states under the same state names
      let ix ← argN 1
      let _ ← ent 1
      let cur ← getE (← dumpAt res k ix) "missing dump"
      let D ← getE ((kv res s!"rt{k}") >>= parseTA?) "missing reload dump"
      if !taEq D cur then
        f := f ++ [s!"violation step {k}: dump / load / dump shows {showTA D} for an automaton that dumps as {showTA cur}"]
      tags := tags ++ ["rt=1"]
    | "copy" =>
      let A ← ent 1
      pool' := pool ++ [some A]
    | "assign" => let ix ← argN 1; let _ ← ent 1; pool' := pool.set ix (some (← ent 2))
    | "kill" => let ix ← argN 1; let _ ← ent 1; pool' := pool.set ix none
    | "final" =>
      let ix ← argN 1; let A ← ent 1; let q ← argN 2
      pool' := pool.set ix (some { A with final := A.final ++ [q] })
    | "loadinto" =>
      let ix ← argN 1; let A ← ent 1
      let N ← getE (parts[2]? >>= parseTA?) "bad TA"
      let D ← getE (← dumpAt res k ix) "missing dump"
      -- the loaded rules get numbers from a fresh dictionary (0, 1, …); with operands numbered from 100 they are new states
      if A.states.any (· < 50) then throw "precondition: loadinto target uses small state numbers"
      let ok ← getE (isUnionM D A N FUEL) "fuel"
      if !ok then f := f ++ [s!"violation step {k} loading into an existing automaton: language is not L(old) ∪ L(loaded): {showTA D}"]
      pool' := pool.set ix (some D)
      touched := some ix
    | "union" | "unionpre" =>
      let A ← ent 1; let B ← ent 2; let D ← newDump
      if op == "unionpre" then
        -- caller-supplied pre-filled maps: injective with disjoint images (what a caller chaining unions supplies)
        let preL ← getE (parts[3]? >>= parseMap?) "bad pre-filled ml"
        let preR ← getE (parts[4]? >>= parseMap?) "bad pre-filled mr"
        let vals := preL.map (·.2) ++ preR.map (·.2)
        if vals.eraseDups.length != vals.length then throw "precondition: pre-filled maps not injective with disjoint images"
        match (kv res s!"ml{k}") >>= parseMap?, (kv res s!"mr{k}") >>= parseMap? with
        | some ml, some mr =>
          if !(preL.all (fun e => ml.contains e) && preR.all (fun e => mr.contains e)) && !(ml.isEmpty && mr.isEmpty) then
            f := f ++ [s!"violation step {k} union changed an entry of a pre-filled translation map"]
        | _, _ => pure ()
        tags := tags ++ ["unionpre=1"]
      if !(← getE (isUnionM D A B FUEL) "fuel") then f := f ++ [s!"violation step {k} union-language {showTA D}"]
      -- the result is the union of the images of the operands under the two reported maps (`absBU_union`, `absTD_union`,
      -- `unionModel_lang`): states the maps do not mention keep their numbers (shared-table branch: both maps empty)
      match (kv res s!"ml{k}") >>= parseMap?, (kv res s!"mr{k}") >>= parseMap? with
      | some ml, some mr =>
        let fl := fun q => (ml.lookup q).getD q
        let fr := fun q => (mr.lookup q).getD q
        let M : TA := ⟨(reindex fl A).rules ++ (reindex fr B).rules, (reindex fl A).final ++ (reindex fr B).final⟩
        if f.isEmpty && !(taEq ⟨dedupRulesB M.rules, M.final⟩ ⟨dedupRulesB D.rules, D.final⟩) then
          f := f ++ [s!"mismatch step {k} union is not the union of the images under the reported maps: model {showTA M} implementation {showTA D}"]
      | _, _ => pure ()
      pool' := pool ++ [some D]; touched := some newIx
    | "uniondisj" =>
      let A ← ent 1; let B ← ent 2; let D ← newDump
      if !(A.states.all (fun q => !B.states.contains q)) then throw "precondition: uniondisj operands share states"
      if !(← getE (isUnionM D A B FUEL) "fuel") then f := f ++ [s!"violation step {k} uniondisjoint-language {showTA D}"]
      pool' := pool ++ [some D]; touched := some newIx
    | "isect" =>
      let A ← ent 1; let B ← ent 2; let D ← newDump
      if !(← getE (isIsectM D A B FUEL) "fuel") then f := f ++ [s!"violation step {k} isect-language {showTA D}"]
      -- the product states are numbered by a counter that starts at 0 (`stateCnt++`): the reported map must take exactly
      -- the values 0..n-1 (the library is built with poisoned uninitialised locals, so an uninitialised counter shows here)
      let pm ← getE ((kv res s!"m{k}") >>= parsePairMap?) "bad product map"
      let vals := pm.map (·.2)
      if !((List.range vals.length).all (fun i => vals.contains i)) then
        f := f ++ [s!"violation uninitialised-counter step {k}: product states are not numbered 0..{vals.length - 1}: {vals.take 6}"]
      -- the L2 models of the symbolic intersections as coded (`bddIsectTD_lang`, `bddIsectBU_lang`, `bddIsect_numbers_dense`,
      -- totality): the SET of product pairs the algorithm discovers is determined by the operands (their numbers are not:
      -- hash orders) – it must be the domain of the reported map, and the number of rules of the result must agree
      let symsAll := dedupL ((A.rules ++ B.rules).map (·.sym))
      let mo : Option (List Rule × Vata.PMap) :=
        if enc == "td" then
          (Vata.BddIsect.bddIsectTDRef (Vata.BddAbsTD.ofRulesTD A.rules) A.final (Vata.BddAbsTD.ofRulesTD B.rules) B.final).map
            (fun r => (Vata.BddAbsTD.absRulesTD symsAll r.1, r.2.2))
        else
          (Vata.BddIsect.bddIsectBURef (Vata.BddAbs.ofRules A.rules) A.final (Vata.BddAbs.ofRules B.rules) B.final).map
            (fun r => (Vata.BddAbs.absRules symsAll r.1, r.2.2))
      match mo with
      | some (mr, mm) =>
        if f.isEmpty then
          if !(pairsEq (pm.map (·.1)) mm.dom) then
            f := f ++ [s!"mismatch step {k} symbolic-intersection model: product pairs {mm.dom} but the implementation reports {pm.map (·.1)}"]
          else if (dedupRulesB mr).length != (dedupRulesB D.rules).length then
            f := f ++ [s!"mismatch step {k} symbolic-intersection model: {(dedupRulesB mr).length} rules, implementation {(dedupRulesB D.rules).length}"]
      | none => f := f ++ [s!"mismatch step {k} symbolic-intersection model returned none"]
      let e ← getE (emptyM D FUEL) "fuel"
      tags := tags ++ [s!"isectempty={bchar e}"]
      pool' := pool ++ [some D]; touched := some newIx
    | "unreach" =>
      let A ← ent 1; let D ← newDump
      if !(← getE (equivM D A FUEL) "fuel") then f := f ++ [s!"violation step {k} unreach-language {showTA D}"]
      -- the L2 models of the symbolic trimmings as coded (`absTD_removeUnreachable…`, `absBU_removeUseless`, `tdUnreachWL_spec`):
      -- the result is determined by the operand, so the dump must show exactly the model's rules and final states
      let symsA := dedupL (A.rules.map (·.sym))
      let M : TA := if enc == "td" then
          ⟨Vata.BddAbsTD.absRulesTD symsA (Vata.BddAbsTD.removeUnreachableTD (Vata.BddAbsTD.ofRulesTD A.rules) A.final), A.final⟩
        else
          let r := Vata.BddAbsTD.removeUnreachableBU (Vata.BddAbs.ofRules A.rules) A.final
          ⟨Vata.BddAbs.absRules symsA r.1, r.2⟩
      if f.isEmpty && !(taEq ⟨dedupRulesB M.rules, M.final⟩ ⟨dedupRulesB D.rules, D.final⟩) then
        f := f ++ [s!"mismatch step {k} symbolic RemoveUnreachableStates model: {showTA M} implementation {showTA D}"]
      -- the bottom-up traversal AS CODED (`Vata/BddTrimCodedBU.lean`, `C08_bu_unreach_coded_lang`; fuel above the proved bound)
      if enc != "td" then
        let T0 := Vata.BddAbs.ofRules A.rules
        match Vata.BddTrimCoded.buUnreachCoded T0 (dedupL A.final) (Vata.BddTrimCoded.leafCount T0 + 1) with
        | some r =>
          let Mc : TA := ⟨Vata.BddAbs.absRules symsA r.1, r.2⟩
          if f.isEmpty && !(taEq ⟨dedupRulesB Mc.rules, Mc.final⟩ ⟨dedupRulesB D.rules, D.final⟩) then
            f := f ++ [s!"mismatch step {k} symbolic RemoveUnreachableStates coded model: {showTA Mc} implementation {showTA D}"]
        | none => f := f ++ [s!"mismatch step {k} coded bottom-up RemoveUnreachableStates model out of fuel above its proved bound"]
      pool' := pool ++ [some D]; touched := some newIx
    | "useless" =>
      let A ← ent 1; let D ← newDump
      if !(← getE (equivM D A FUEL) "fuel") then f := f ++ [s!"violation step {k} useless-language {showTA D}"]
      if !allUsefulB D then f := f ++ [s!"violation step {k} useless-leaves-useless-state-or-rule {showTA D}"]
      let symsA := dedupL (A.rules.map (·.sym))
      let M : TA := if enc == "td" then
          let r := Vata.BddAbsTD.removeUselessTD (Vata.BddAbsTD.ofRulesTD A.rules) A.final
          ⟨Vata.BddAbsTD.absRulesTD symsA r.1, r.2⟩
        else
          let r := Vata.BddAbsTD.removeUselessBU (Vata.BddAbs.ofRules A.rules) A.final
          ⟨Vata.BddAbs.absRules symsA r.1, r.2⟩
      if f.isEmpty && !(taEq ⟨dedupRulesB M.rules, M.final⟩ ⟨dedupRulesB D.rules, D.final⟩) then
        f := f ++ [s!"mismatch step {k} symbolic RemoveUselessStates model: {showTA M} implementation {showTA D}"]
      -- the AND/OR graph of the top-down encoding and the graph traversal of the bottom-up one AS CODED
      -- (`Vata/BddTrimCoded.lean`, `Vata/BddTrimCodedBU.lean`; `C08_td_useless_coded_lang`, `C08_bu_useless_coded_lang`; fuel above the proved bounds)
      let Mc? : Option TA := if enc == "td" then
          -- `GetFinalStates()` is a set in the C++: the coded model (and its theorem, hypothesis `F.Nodup`) takes a duplicate-free list
          let T0 := Vata.BddAbsTD.ofRulesTD A.rules
          let F0 := dedupL A.final
          let n := F0.length + (Vata.BddAbsTD.allKids T0).length
          (Vata.BddTrimCoded.removeUselessTDCoded T0 F0 (2 * n + 2) (n + 1)).map (fun r => ⟨Vata.BddAbsTD.absRulesTD symsA r.1, r.2⟩)
        else
          let T0 := Vata.BddAbs.ofRules A.rules
          (Vata.BddTrimCoded.buUselessCoded T0 (dedupL A.final) (A.final.length + Vata.BddTrimCoded.leafCount T0 + 1)).map
            (fun r => ⟨Vata.BddAbs.absRules symsA r.1, r.2⟩)
      match Mc? with
      | some Mc =>
        if f.isEmpty && !(taEq ⟨dedupRulesB Mc.rules, Mc.final⟩ ⟨dedupRulesB D.rules, D.final⟩) then
          f := f ++ [s!"mismatch step {k} symbolic RemoveUselessStates coded model: {showTA Mc} implementation {showTA D}"]
      | none => f := f ++ [s!"mismatch step {k} coded RemoveUselessStates model out of fuel above its proved bound"]
      pool' := pool ++ [some D]; touched := some newIx
    | _ => throw s!"unknown step {st}"
    -- no call changes the language of another automaton (tables may be shared: compare languages, not texts)
    let mut pool'' := pool'
    for i in List.range pool'.length do
      if some i == touched then continue
      match pool'[i]?.join, (← dumpAt res k i) with
      | some V, some D =>
        if !(taEq V D) then
          if !(← getE (equivM V D FUEL) "fuel") then
            f := f ++ [s!"violation step {k} ({op}): the language of entry {i} changed: now {showTA D}, was {showTA V}"]
          pool'' := pool''.set i (some D)
      | none, none => pure ()
      | some _, none => f := f ++ [s!"violation step {k}: live entry {i} not dumped"]
      | none, some _ => throw "dead entry dumped"
    go enc rest res (k + 1) pool'' f tags

def checkHist (args res : List String) : Except String (List String × String) := do
  let enc := args[0]!
  -- steps are numbered from 1 in the harness output (argument 0 is the encoding)
  -- the exact precondition of the in-place operations on shared tables (`Vata/BddShare.lean`: clauses T, A, H, S, L – each proved
  -- necessary by a kernel-checked history, together sufficient: `C08_sharing_history`, `C08_sharing_isolation`), evaluated on states
  -- rebuilt from the dumps: a history outside it is not judged (the generator's table families are only a heuristic for it)
  match BddShareChk.preconditionExact enc (args.drop 1) res with
  | .error m => throw (if m.startsWith "precondition" then m else "precondition (sharing model): " ++ m)
  | .ok _ => pure ()
  let (f, tags) ← go enc (args.drop 1) res 1 [] [] []
  -- the sharing model predicts the dump of EVERY entry after every step
  let (fs, tg) ← BddShareChk.check args res
  pure (f ++ (if f.isEmpty then fs.map (fun x => if x.startsWith "mismatch" then x else "mismatch " ++ x) else []), s!"enc={enc} " ++ " ".intercalate tags ++ " " ++ tg)

def checkToTd (args res : List String) : Except String (List String × String) := do
  let A ← getE (args[0]? >>= parseTA?) "bad A"
  let bu ← getE ((kv res "bu") >>= parseTA?) "bad bu"
  let td ← getE ((kv res "td") >>= parseTA?) "bad td"
  let mut f : List String := []
  if !(← getE (equivM bu A FUEL) "fuel") then f := f ++ ["violation bottom-up load+dump changes the language"]
  if !(← getE (equivM td bu FUEL) "fuel") then f := f ++ [s!"violation GetTopDownAut changes the language: {showTA td}"]
  -- the L2 model of `GetTopDownAut` as coded (`absTD_invert_gen`, `getTopDownAut_lang`): inverts the table for the final
  -- states and the states that occur in a tuple – the dump of the result must show exactly the model's rules
  let symsA := dedupL (bu.rules.map (·.sym))
  let M := Vata.BddAbsTD.absRulesTD symsA (Vata.BddAbsTD.getTopDownAut (Vata.BddAbs.ofRules bu.rules) bu.final)
  if f.isEmpty && !(taEq ⟨dedupRulesB M, bu.final⟩ ⟨dedupRulesB td.rules, td.final⟩) then
    f := f ++ [s!"mismatch GetTopDownAut model: {showTA ⟨M, bu.final⟩} implementation {showTA td}"]
  -- mixed provenance (second operand loaded natively into the top-down encoding)
  match args[1]? >>= parseTA? with
  | some B =>
    let tb ← getE ((kv res "tb") >>= parseTA?) "bad tb"
    if !(← getE (equivM tb B FUEL) "fuel") then f := f ++ ["violation top-down load+dump changes the language"]
    for key in ["i1", "i2"] do
      let I ← getE ((kv res key) >>= parseTA?) s!"bad {key}"
      if !(← getE (isIsectM I A B FUEL) "fuel") then
        f := f ++ [s!"violation Intersection of a converted and a loaded top-down automaton ({key}) is not the intersection: {showTA I}"]
    let U ← getE ((kv res "u") >>= parseTA?) "bad u"
    if !(← getE (isUnionM U A B FUEL) "fuel") then
      f := f ++ [s!"violation Union of a converted and a loaded top-down automaton is not the union: {showTA U}"]
    let v ← getE (kv res "v") "missing v"
    let e1 ← getE (inclM A B FUEL) "fuel"
    let e2 ← getE (inclM B A FUEL) "fuel"
    for (c, ex, what) in [(v.toList[0]!, e1, "converted ⊆ loaded"), (v.toList[1]!, e2, "loaded ⊆ converted")] do
      if c != 'T' && c != bchar ex then f := f ++ [s!"violation top-down inclusion {what} = {c} reference={bchar ex}"]
  | none => pure ()
  let e ← getE (emptyM A FUEL) "fuel"
  pure (f, s!"empty={bchar e} dropped={bchar ((dedupRulesB td.rules).length < (dedupRulesB bu.rules).length)}")

end BddChk
