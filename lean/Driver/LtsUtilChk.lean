import Vata.Parse
import Vata.LtsUtil
/-!
# Driver side of the `ltsutil` histories: the utility classes inside the LTS simulation engine (supports C16, C04)

`ltsutil <class> <parameters> <step> …` with class `ss` (`SmartSet`), `sc` (`SharedCounter` + `CachingArrayAllocator`),
`sl` (`SharedList` + the two `CachingAllocator`s of the engine), `sr` (`SplittingRelation`), `ca` (`CachingAllocator` on
its own); step syntax and read-back format: `harness/op_ltsutil.inc`.

Every step is replayed on the model of the class AS CODED (`Vata.LU.*.step`, the functions the history theorems of
`Vata/Proofs/LtsUtil*.lean` are about) and on the VALUE the engine model uses for the class (`Vata.LU.*.aStep`), and after
every step the whole state read back from the real objects is compared:

* `violation …` – as long as the history stays inside the call discipline (`Vata.LU.*.ok`), the theorems say what the
  real class must show: the iteration order / counts / `size` / `empty` of a `SmartSet`, `get` of every positive
  counter and the value returned by `decr`, the flag returned by `SharedList::append` and the elements a list iterates,
  the rows and the columns of the `SplittingRelation`, an allocator that hands out an object that is live;
* `mismatch …` – the state differs from the model of the code where only the model decides: masters, row pointers, cells
  and reference counts of the counter rows, the free lists, the links, reference counts and sub-lists of the shared
  lists, all four links of every cell of the relation and the sentinels, the identity of recycled objects.

The comparison stops at the first step that differs (the states have diverged).  A history on which the MODEL has no
defined behaviour (`none`) is reported as an error of the case, not of the class.
-/
open Vata Vata.LU

namespace LtsUtilChk

def getE (o : Option α) (msg : String) : Except String α :=
  match o with
  | some a => pure a
  | none => throw msg

def showL (l : List Nat) (sep : String := ",") (empty : String := "-") : String :=
  if l.isEmpty then empty else sep.intercalate (l.map toString)

def listTok? (s : String) : Option (List Nat) := if s == "-" || s == "_" || s == "" then some [] else natList? s ','

def showON (o : Option Nat) : String := match o with | some n => toString n | none => "-"

/-- checker state shared by all classes -/
structure Acc where
  f : List String := []
  br : List Char := []
  inDisc : Bool := true      -- the history so far is inside the call discipline
  stop : Bool := false

def Acc.note (s : Acc) (c : Char) : Acc := if s.br.contains c then s else { s with br := c :: s.br }
def Acc.find (s : Acc) (m : String) : Acc := { s with f := s.f ++ [m], stop := true }

/-- compare the tokens of step `k` -/
def cmpToks (res : List String) (k : Nat) (what : String) (toks : List (String × String)) (acc : Acc) : Acc := Id.run do
  let mut acc := acc
  for (name, v) in toks do
    if acc.stop then break
    match kv res s!"{k}.{name}" with
    | none => acc := acc.find s!"mismatch step {k} ({what}): token {k}.{name} missing in the result (model {v})"
    | some got => if got != v then acc := acc.find s!"mismatch step {k} ({what}): {name} = {got}, model {v}"
  acc

def cmpQ (res : List String) (k : Nat) (what : String) (expected : String) (kind : String) (acc : Acc) : Acc :=
  if acc.stop then acc else
  match kv res s!"q{k}" with
  | none => acc.find s!"{kind} step {k} ({what}): result q{k} missing (expected {expected})"
  | some got => if got != expected then acc.find s!"{kind} step {k} ({what}): returned {got}, expected {expected}" else acc

def brTag (acc : Acc) : String := String.ofList (acc.br.toArray.qsort (· < ·)).toList

/-! ### SmartSet -/

def ssDump (s : SS.T) : Option String := do
  let l ← SS.toList s
  let counts ← l.mapM (fun kc => SS.count s kc.1)
  let e ← SS.isEmpty s
  let range := s.index.length
  let all ← (List.range range).mapM (SS.count s)
  let has ← (List.range range).mapM (SS.contains s)
  pure s!"{showL (l.map (·.1))};{showL counts};{s.size};{if e then 1 else 0};{showL all};{if has.isEmpty then "-" else String.ofList (has.map (fun b => if b then '1' else '0'))}"

def ssOp? (st : String) : Option SS.Op :=
  match st.splitOn "!" with
  | ["new", r] => do pure (.new (← r.toNat?))
  | ["add", i, k] => do pure (.add (← i.toNat?) (← k.toNat?))
  | ["rem", i, k] => do pure (.remove (← i.toNat?) (← k.toNat?))
  | ["rms", i, k] => do pure (.removeStrict (← i.toNat?) (← k.toNat?))
  | ["init", i, k, c] => do pure (.init (← i.toNat?) (← k.toNat?) (← c.toNat?))
  | ["clr", i] => do pure (.clear (← i.toNat?))
  | ["af", i, j] => do pure (.assignFlat (← i.toNat?) (← j.toNat?))
  | ["cp", i] => do pure (.copy (← i.toNat?))
  | ["asg", i, j] => do pure (.assign (← i.toNat?) (← j.toNat?))
  | _ => none

def ssNotes (aw : SS.AWorld) (op : SS.Op) (acc : Acc) : Acc :=
  let items (i : Nat) : List (Nat × Nat) := match aw[i]? with | some a => a.items | none => []
  match op with
  | .new r => if r == 0 then acc.note 'z' else acc.note 'N'
  | .add i k => if (SS.aKeys (items i)).contains k then acc.note 'x' else acc.note 'n'
  | .remove i k | .removeStrict i k =>
    let acc := if SS.erasesLast (items i) k then acc.note 'L' else acc
    if !(SS.aKeys (items i)).contains k then acc.note '0'
    else if SS.aCount (items i) k ≤ 1 then
      (if (items i).head?.map (·.1) == some k then acc.note 'h' else acc.note 'e')
    else acc.note 'd'
  | .init i k c =>
    if c > 0 then (if (SS.aKeys (items i)).contains k then acc.note 'i' else acc.note 'j')
    else (if (SS.aKeys (items i)).contains k then acc.note 'I' else acc.note 'J')
  | .clear i => if (items i).isEmpty then acc.note 'c' else acc.note 'C'
  | .assignFlat i j => if (items i).isEmpty then (if (items j).isEmpty then acc.note 'f' else acc.note 'F') else acc.note 'G'
  | .copy i => if (items i).isEmpty then acc.note 'p' else acc.note 'P'
  | .assign i j => if i == j then acc.note 's' else acc.note 'g'

def checkSS (steps res : List String) : Except String (List String × String) := do
  let mut w : SS.World := []
  let mut aw : SS.AWorld := []
  let mut acc : Acc := {}
  let mut k := 0
  for st in steps do
    if acc.stop then break
    let op ← getE (ssOp? st) s!"bad ss step {st}"
    acc := ssNotes aw op acc
    if acc.inDisc && !SS.ok aw op then acc := { acc with inDisc := false }
    match SS.step w op with
    | none => throw s!"step {k} ({st}): the model of SmartSet has no defined behaviour here (violated assertion / dangling last_)"
    | some w' =>
      w := w'
      aw := SS.aStep aw op
      -- what the value says (inside the discipline)
      if acc.inDisc then
        for i in List.range aw.length do
          if acc.stop then break
          match kv res s!"{k}.{i}", aw[i]? with
          | some t, some a =>
            let parts := t.splitOn ";"
            let keys := showL (SS.aKeys a.items)
            let counts := showL (a.items.map (·.2))
            if parts.length != 6 then acc := acc.find s!"mismatch step {k} ({st}): malformed read-back {t}"
            else if parts[0]! != keys || parts[1]! != counts then
              acc := acc.find s!"violation step {k} ({st}) set {i}: iterates {parts[0]!} with counts {parts[1]!}, the multiset is {keys} with counts {counts}"
            else if parts[2]! != toString a.items.length then
              acc := acc.find s!"violation step {k} ({st}) set {i}: size()={parts[2]!} with {a.items.length} elements"
            else if parts[3]! != (if a.items.isEmpty then "1" else "0") then
              acc := acc.find s!"violation step {k} ({st}) set {i}: empty()={parts[3]!} with {a.items.length} elements"
            else if parts[4]! != showL ((List.range a.range).map (SS.aCount a.items)) then
              acc := acc.find s!"violation step {k} ({st}) set {i}: count(0..)={parts[4]!}, the multiset is {keys} with counts {counts}"
          | _, _ => acc := acc.find s!"mismatch step {k} ({st}): set {i} not read back"
      let mut toks : List (String × String) := []
      for i in List.range w.length do
        match w[i]? with
        | some s => toks := toks ++ [(toString i, ← getE (ssDump s) s!"step {k}: model set {i} cannot be read (dangling)")]
        | none => pure ()
      acc := cmpToks res k st toks acc
      if (kv res s!"{k}.{w.length}").isSome then acc := acc.find s!"mismatch step {k}: more sets read back than live"
    k := k + 1
  pure (acc.f, s!"cls=ss steps={steps.length} objs={w.length} disc={if acc.inDisc then 1 else 0} br={brTag acc}")

/-! ### SharedCounter -/

def scOp? (st : String) : Option SC.Op :=
  match st.splitOn "!" with
  | ["new"] => some .new
  | ["cc", i] => do pure (.copyCtor (← i.toNat?))
  | ["rsz", i, n] => do pure (.resize (← i.toNat?) (← n.toNat?))
  | ["set", i, a, q, c] => do pure (.set (← i.toNat?) (← a.toNat?) (← q.toNat?) (← c.toNat?))
  | ["ini", i] => do pure (.init (← i.toNat?))
  | ["dec", i, a, q] => do pure (.decr (← i.toNat?) (← a.toNat?) (← q.toNat?))
  | ["cpl", i, j, l] => do pure (.copyLabels (← i.toNat?) (← j.toNat?) (← listTok? l))
  | ["del", i] => do pure (.destroy (← i.toNat?))
  | _ => none

def parseDelta? (s : String) : Option (List (List Nat)) := (s.splitOn "/").mapM listTok?

/-- keyed pairs in key order -/
def keyedPairs (delta1 : List (List Nat)) : List (Nat × Nat) :=
  (List.range delta1.length).flatMap (fun a => (delta1.getD a []).map (fun q => (a, q)))

def scDumpCnt (cfg : SC.Cfg) (m : SC.Mem) (pairs : List (Nat × Nat)) (c : SC.Cnt) : String × String :=
  let rows := if c.isEmpty then "-" else ",".intercalate (c.map (fun r => s!"{r.master}/{showON r.data}"))
  let gets := if pairs.isEmpty then "-" else ",".intercalate (pairs.map (fun aq =>
    match SC.locate cfg aq.1 aq.2 with
    | some (r, _) => if r < c.length then (match SC.get cfg m c aq.1 aq.2 with | some v => toString v | none => "?") else "x"
    | none => "?"))
  (rows, gets)

def scDump (cfg : SC.Cfg) (pairs : List (Nat × Nat)) (w : SC.World) : List (String × String) :=
  let per := (List.range w.cnts.length).flatMap (fun i =>
    match w.cnts.getD i none with
    | none => [(s!"c{i}", "X")]
    | some c => let d := scDumpCnt cfg w.mem pairs c; [(s!"c{i}", d.1), (s!"g{i}", d.2)])
  let mem := if w.mem.next == 0 then "-" else "/".intercalate ((List.range w.mem.next).map (fun p => s!"{p}:{showL (w.mem.cells.get p)}"))
  per ++ [("m", mem), ("f", showL w.mem.free)]

def scNotes (cfg : SC.Cfg) (w : SC.World) (op : SC.Op) (acc : Acc) : Acc :=
  match op with
  | .new => acc.note 'n'
  | .copyCtor _ => acc.note 'y'
  | .resize _ n => if n == 0 then acc.note 'o' else acc.note 'O'
  | .set i a q _ =>
    match w.cnt i, SC.locate cfg a q with
    | some c, some (r, _) =>
      let acc := if (c.getD r default).master == 0 then acc.note 's' else acc.note 'S'
      if (c.getD r default).master == 0 && !w.mem.free.isEmpty then acc.note 'F' else acc
    | _, _ => acc
  | .init i =>
    match w.cnt i with
    | some c => c.foldl (fun acc r => match r.data with
        | none => acc.note 'e'
        | some p => if SC.cell w.mem p cfg.rowSize == 1 then acc.note 'k' else acc.note 'r') acc
    | none => acc
  | .decr i a q =>
    match w.cnt i, SC.locate cfg a q with
    | some c, some (r, col) =>
      let row := c.getD r default
      match row.data with
      | none => (if row.master == 1 then acc.note 'z' else acc).note 'm'
      | some p =>
        let v := SC.cell w.mem p col
        let rc := SC.cell w.mem p cfg.rowSize
        let acc := if v == 1 then acc.note 'z' else acc
        if row.master == v then (if rc > 1 then acc.note 'A' else acc.note 'a')
        else if row.master == 2 then (if rc > 1 then acc.note 'T' else acc.note 't')
        else if rc > 1 then (if w.mem.free.isEmpty then acc.note 'w' else acc.note 'W')
        else acc.note 'u'
    | _, _ => acc
  | .copyLabels _ j labels =>
    let acc := if labels.isEmpty then acc.note 'l' else acc.note 'c'
    match w.cnt j with
    | some s =>
      let acc := if s.any (fun r => r.data.isSome) then acc.note 'd' else acc
      if s.any (fun r => r.data.isNone) then acc.note 'M' else acc
    | none => acc
  | .destroy i =>
    match w.cnt i with
    | some c => c.foldl (fun acc r => match r.data with
        | none => acc
        | some p => if SC.cell w.mem p cfg.rowSize == 1 then acc.note 'x' else acc.note 'X') (acc.note 'D')
    | none => acc

def checkSC (args res : List String) : Except String (List String × String) := do
  let rs ← getE (kv args "rs" >>= String.toNat?) "bad rs"
  let st ← getE (kv args "st" >>= String.toNat?) "bad st"
  let poison ← getE (kv args "P" >>= String.toNat?) "bad P"
  let delta1 ← getE (kv args "d" >>= parseDelta?) "bad d"
  if rs == 0 then throw "rowSize 0"
  let cfg := SC.mkCfg rs st poison delta1
  let pairs := keyedPairs delta1
  let steps := args.drop 4
  let mut acc : Acc := {}
  -- the layout computed by the harness with the loop of SimulationEngine::init
  let lm := if cfg.labelMap.isEmpty then "-" else ",".intercalate (cfg.labelMap.map (fun p => s!"{p.1}~{p.2}"))
  if kv res "key" != some (showL cfg.key) then acc := acc.find s!"mismatch key_ layout: harness {kv res "key"}, model {showL cfg.key}"
  if kv res "lm" != some lm then acc := acc.find s!"mismatch labelMap_ layout: harness {kv res "lm"}, model {lm}"
  let mut w : SC.World := SC.World.empty
  let mut aw : SC.AWorld := []
  let mut k := 0
  let maxLabelRows := cfg.labelMap.foldl (fun m p => if p.2 < 2 ^ 32 then max m (p.2 - p.1) else m) 0
  for stp in steps do
    if acc.stop then break
    let op ← getE (scOp? stp) s!"bad sc step {stp}"
    acc := scNotes cfg w op acc
    if acc.inDisc && !SC.ok cfg aw op then acc := { acc with inDisc := false }
    match SC.step cfg w op with
    | none => throw s!"step {k} ({stp}): the model of SharedCounter has no defined behaviour here"
    | some (w', out) =>
      let expOut := SC.aOut cfg aw op
      w := w'
      aw := SC.aStep cfg aw op
      if acc.inDisc then
        -- the value returned by decr, and get() of every positive counter
        match op with
        | .decr .. => acc := cmpQ res k stp (showL expOut) "violation" acc
        | _ => pure ()
        for i in List.range aw.length do
          if acc.stop then break
          match aw.getD i none with
          | none => pure ()
          | some a =>
            match kv res s!"{k}.g{i}" with
            | none => acc := acc.find s!"mismatch step {k} ({stp}): counter {i} not read back"
            | some t =>
              let vals := if t == "-" then [] else t.splitOn ","
              let mut n := 0
              for (l, q) in pairs do
                if acc.stop then break
                match SC.keyIdx cfg l q with
                | some idx =>
                  if idx < a.rows * cfg.rowSize && a.at idx > 0 && vals.getD n "" != toString (a.at idx) then
                    acc := acc.find s!"violation step {k} ({stp}) counter {i}: get({l},{q}) = {vals.getD n ""}, the counter is {a.at idx}"
                | none => pure ()
                n := n + 1
      match op with
      | .decr .. => acc := cmpQ res k stp (showL out) "mismatch" acc
      | _ => pure ()
      acc := cmpToks res k stp (scDump cfg pairs w) acc
      if (kv res s!"{k}.c{w.cnts.length}").isSome then acc := acc.find s!"mismatch step {k}: more counters read back than exist"
    k := k + 1
  pure (acc.f, s!"cls=sc steps={steps.length} rs={rs} keyed={pairs.length} rows={w.mem.next} span={maxLabelRows} disc={if acc.inDisc then 1 else 0} br={brTag acc}")

/-! ### SharedList -/

def slOp? (st : String) : Option SL.Op :=
  match st.splitOn "!" with
  | ["app", s, x] => do pure (.append (← s.toNat?) (← x.toNat?))
  | ["cpy", s, t] => do pure (.copy (← s.toNat?) (← t.toNat?))
  | ["new", s, l] => do pure (.newList (← s.toNat?) (← listTok? l))
  | ["take", s] => do pure (.take (← s.toNat?))
  | ["rel"] => some .release
  | ["it", s] => do pure (.iter (← s.toNat?))
  | _ => none

def slDump (W : SL.World) : List (String × String) :=
  let w := W.w
  let nodes := if w.nnext == 0 then "-" else "/".intercalate ((List.range w.nnext).map (fun i =>
    let nd := w.nodes.get i; s!"{i}:{showON nd.next},{nd.rc},{showON nd.sub}"))
  let vecs := if w.vnext == 0 then "-" else "/".intercalate ((List.range w.vnext).map (fun i => s!"{i}:{showL (w.vecs.get i) "." "_"}"))
  [("s", if W.slots.isEmpty then "-" else ",".intercalate (W.slots.map showON)), ("d", showON W.detached), ("n", nodes), ("v", vecs),
   ("nf", showL w.nfree), ("vf", showL w.vfree)]

def slNotes (W : SL.World) (op : SL.Op) (acc : Acc) : Acc :=
  match op with
  | .append s _ =>
    let acc := match W.slots.getD s none with
      | none => acc.note 'N'
      | some l => if (W.w.nodes.get l).rc > 1 then acc.note 'H' else acc.note 'P'
    match W.slots.getD s none with
    | some l => if (W.w.nodes.get l).rc > 1 && !W.w.nfree.isEmpty then acc.note 'U' else acc
    | none => if !W.w.nfree.isEmpty then acc.note 'U' else acc
  | .copy .. => acc.note 'C'
  | .newList .. => acc.note 'L'
  | .take .. => acc.note 'T'
  | .release =>
    match W.detached with
    | some l =>
      match SL.release W.w.nnext W.w (some l), SL.chain W.w.nnext W.w (some l) with
      | some (_, given), some ch => if given.isEmpty then acc.note 'K' else if given.length == ch.length then acc.note 'A' else acc.note 'R'
      | _, _ => acc
    | none => acc
  | .iter s => if (W.slots.getD s none).isNone then acc.note 'i' else acc.note 'I'

def checkSL (args res : List String) : Except String (List String × String) := do
  let n ← getE (kv args "n" >>= String.toNat?) "bad n"
  let steps := args.drop 1
  let mut W : SL.World := SL.World.mk0 n
  let mut a : SL.A := SL.A.mk0 n
  let mut acc : Acc := {}
  let mut k := 0
  for stp in steps do
    if acc.stop then break
    let op ← getE (slOp? stp) s!"bad sl step {stp}"
    acc := slNotes W op acc
    if acc.inDisc && !SL.ok a op then acc := { acc with inDisc := false }
    match SL.step W op with
    | none => throw s!"step {k} ({stp}): the model of SharedList has no defined behaviour here"
    | some (W', out) =>
      let expOut := SL.aOut a op
      W := W'
      a := SL.aStep a op
      if acc.inDisc then
        match expOut, op with
        | some e, .append .. | some e, .take .. | some e, .iter .. => acc := cmpQ res k stp (showL e) "violation" acc
        | _, _ => pure ()
      match op with
      | .append .. | .take .. | .release | .iter .. => acc := cmpQ res k stp (showL out) "mismatch" acc
      | _ => pure ()
      acc := cmpToks res k stp (slDump W) acc
    k := k + 1
  pure (acc.f, s!"cls=sl steps={steps.length} nodes={W.w.nnext} disc={if acc.inDisc then 1 else 0} br={brTag acc}")

/-! ### SplittingRelation -/

def srOp? (st : String) : Option SR.Op :=
  match st.splitOn "!" with
  | ["init", idx] => do pure (.init (← if idx == "-" then some [] else (idx.splitOn "/").mapM listTok?))
  | ["spl", i] => do pure (.split (← i.toNat?))
  | ["er", i, m] => do pure (.eraseRow (← i.toNat?) (← listTok? m))
  | _ => none

/-- cell ids in the order the harness sights them: rows in order, then the free list -/
def srSight (s : SR.T) (ids : List Nat) : Option (List Nat) := do
  let mut ids := ids
  for i in List.range s.size do
    let cs ← SR.rowCells s i
    for (a, _) in cs do
      if !ids.contains a then ids := ids ++ [a]
  for a in s.free do
    if !ids.contains a then ids := ids ++ [a]
  pure ids

def srPtr (ids : List Nat) : SR.Ptr → String
  | .null => "0"
  | .cell a => if ids.contains a then s!"#{ids.idxOf a}" else "?"
  | .rowS k => s!"rs{k}"
  | .colS k => s!"cs{k}"

def srDump (s : SR.T) (ids : List Nat) : Option (List (String × String)) := do
  let id (a : Nat) : Nat := ids.idxOf a
  let mut toks : List (String × String) := [("z", toString s.size)]
  for i in List.range s.size do
    let cs ← SR.rowCells s i
    toks := toks ++ [(s!"r{i}", if cs.isEmpty then "-" else ",".intercalate (cs.map (fun ac => s!"{ac.2}@{id ac.1}")))]
  for i in List.range s.size do
    let cs ← SR.colCells s i
    toks := toks ++ [(s!"c{i}", if cs.isEmpty then "-" else ",".intercalate (cs.map (fun ac => s!"{ac.2}@{id ac.1}")))]
  let pairs (l : List (SR.Ptr × SR.Ptr)) : String :=
    if l.isEmpty then "-" else ",".intercalate (l.map (fun p => s!"{srPtr ids p.1}~{srPtr ids p.2}"))
  let cells := if ids.isEmpty then "-" else "/".intercalate ((List.range ids.length).map (fun i =>
    let c := s.cells.get (ids.getD i 0)
    s!"{i}:{srPtr ids c.up}~{srPtr ids c.down}~{srPtr ids c.left}~{srPtr ids c.right}~{c.col}~{c.row}"))
  pure (toks ++ [("R", pairs s.rows), ("C", pairs s.cols), ("e", cells), ("f", showL (s.free.map id))])

def checkSR (args res : List String) : Except String (List String × String) := do
  let m ← getE (kv args "m" >>= String.toNat?) "bad m"
  let steps := args.drop 1
  let mut s : SR.T := SR.mk m
  let mut a : SR.A := ⟨[], m, false⟩
  let mut ids : List Nat := []
  let mut acc : Acc := {}
  let mut k := 0
  for stp in steps do
    if acc.stop then break
    let op ← getE (srOp? stp) s!"bad sr step {stp}"
    match op with
    | .init idx => acc := (if idx.any (·.isEmpty) then acc.note '0' else acc).note 'I'
    | .split i =>
      acc := acc.note 'S'
      if !s.free.isEmpty then acc := acc.note 'U'
      if ((a.rel.getD i []).length + (SR.aCol a.rel i).length + 1 > s.free.length) && !s.free.isEmpty then acc := acc.note 'V'
    | .eraseRow i mask =>
      let row := a.rel.getD i []
      let hit := row.filter (fun c => mask.contains c)
      acc := if hit.isEmpty then acc.note 'e' else if hit.length == row.length then acc.note 'A' else acc.note 'E'
      if hit.contains i then acc := acc.note 'd'
      if row.getLast? != none && hit.contains (row.getLastD 0) then acc := acc.note 'l'
      if row.head? != none && hit.contains (row.headD 0) then acc := acc.note 'h'
    if acc.inDisc && !SR.ok a op then acc := { acc with inDisc := false }
    match SR.step s op with
    | none => throw s!"step {k} ({stp}): the model of SplittingRelation has no defined behaviour here"
    | some (s', out) =>
      s := s'
      a := SR.aStep a op
      if acc.inDisc then
        -- rows and columns of the value
        match kv res s!"{k}.z" with
        | some z => if z != toString a.rel.length then acc := acc.find s!"violation step {k} ({stp}): size()={z}, the relation has {a.rel.length} indices"
        | none => acc := acc.find s!"mismatch step {k} ({stp}): size not read back"
        let strip (t : String) : String := if t == "-" then "-" else ",".intercalate ((t.splitOn ",").map (fun e => (e.splitOn "@").headD ""))
        for i in List.range a.rel.length do
          if acc.stop then break
          match kv res s!"{k}.r{i}", kv res s!"{k}.c{i}" with
          | some r, some c =>
            if strip r != showL (a.rel.getD i []) then
              acc := acc.find s!"violation step {k} ({stp}): row({i}) iterates {strip r}, the relation has {showL (a.rel.getD i [])}"
            else if strip c != showL (SR.aCol a.rel i) then
              acc := acc.find s!"violation step {k} ({stp}): column({i}) iterates {strip c}, the relation has {showL (SR.aCol a.rel i)}"
          | _, _ => acc := acc.find s!"mismatch step {k} ({stp}): row/column {i} not read back"
      match op with
      | .split _ => acc := cmpQ res k stp (showL out) (if acc.inDisc then "violation" else "mismatch") acc
      | _ => pure ()
      ids ← getE (srSight s ids) s!"step {k}: the model relation cannot be traversed"
      acc := cmpToks res k stp (← getE (srDump s ids) s!"step {k}: the model relation cannot be traversed") acc
    k := k + 1
  pure (acc.f, s!"cls=sr steps={steps.length} size={s.size} cells={s.next} disc={if acc.inDisc then 1 else 0} br={brTag acc}")

/-! ### CachingAllocator -/

def caOp? (st : String) : Option CA.Op :=
  match st.splitOn "!" with
  | ["a"] => some .alloc
  | ["r", p] => do pure (.reclaim (← p.toNat?))
  | _ => none

def checkCA (args res : List String) : Except String (List String × String) := do
  let steps := args.drop 1
  let mut s : CA.T := CA.mk
  let mut live : CA.A := []
  let mut acc : Acc := {}
  let mut k := 0
  for stp in steps do
    if acc.stop then break
    let op ← getE (caOp? stp) s!"bad ca step {stp}"
    match op with
    | .alloc => acc := if s.free.isEmpty then acc.note 'f' else acc.note 'r'
    | .reclaim p => acc := if live.contains p then acc.note 'c' else acc.note 'X'
    if acc.inDisc && !CA.ok live op then acc := { acc with inDisc := false }
    let (s', out) := CA.step s op
    s := s'
    match op with
    | .alloc =>
      if acc.inDisc then
        match kv res s!"q{k}" >>= String.toNat? with
        | some p => if live.contains p then acc := acc.find s!"violation step {k}: the allocator handed out object {p}, which is live"
        | none => acc := acc.find s!"mismatch step {k}: no result"
      acc := cmpQ res k stp (showL out) "mismatch" acc
    | _ => pure ()
    live := CA.aStep live out op
    acc := cmpToks res k stp [("f", showL s.free), ("i", toString s.inits)] acc
    k := k + 1
  pure (acc.f, s!"cls=ca steps={steps.length} objs={s.next} disc={if acc.inDisc then 1 else 0} br={brTag acc}")

/-- tag legend (`br=`):
`ss`: `N`/`z` new (range 0), `n`/`x` add of a new / present key, `e`/`h`/`d` remove: erase (inner / first element) /
decrement, `L` the erased element was the last one (`last_` dangles), `0` absent key, `j`/`i` `init(k, c>0)` new / present,
`I`/`J` `init(k, 0)` present / absent, `C`/`c` clear, `F`/`f`/`G` assignFlat (into empty from non-empty / from empty /
into non-empty), `P`/`p` copy ctor, `g`/`s` assignment / self-assignment;
`sc`: `n` new, `y` copy ctor, `O`/`o` resize, `s`/`S` first / later `set` in a row, `F` row taken from the free list, `init`:
`e` no data, `k` kept, `r` reclaimed; `decr`: `m` master only, `a`/`A` all in this column (unshared / shared row), `t`/`T`
master = 2, `w`/`W` copy on write (fresh / recycled row), `u` unshared decrement, `z` reached zero; `c`/`l` copyLabels
(`d` rows with data, `M` master-only rows), `D` destructor (`x` last reference, `X` others remain);
`sl`: `N` append to an empty handle, `H` head shared → new node, `P` push, `U` recycled node, `C` copy, `L` newList, `T` take,
release: `A` whole chain, `R` stopped at a shared node, `K` head shared; `I`/`i` iterate;
`sr`: `I` init (`0` with an empty row), `S` split (`U` recycled cells, `V` recycled and fresh), eraseRow: `e` nothing, `E` some,
`A` all, `d` diagonal, `h`/`l` first / last cell of the row;
`ca`: `f` fresh, `r` recycled, `c` reclaim, `X` reclaim of an object that is not live. -/
def check (args res : List String) : Except String (List String × String) := do
  match args with
  | "ss" :: steps => checkSS steps res
  | "sc" :: rest => checkSC rest res
  | "sl" :: rest => checkSL rest res
  | "sr" :: rest => checkSR rest res
  | "ca" :: rest => checkCA rest res
  | _ => throw "ltsutil: unknown class"

end LtsUtilChk
