import Vata.Parse
import Vata.CliArgs
/-! # Driver side of the command-line cases (`cliargs`): argument parsing and option handling of the `vata` binary

A case is one `argv` vector (without the program name).  The harness (`harness/op_cliargs.inc`) runs the REAL
`parseArguments`, the real `main()` for everything that ends before `executeCommand` (no arguments, parse errors, `help`,
`version` – with the help text), and the real `performOperation` / `CheckInclusion` / `ComputeSimulation` /
`ComputeReduction` / `CheckEquiv` of `/repo/cli` on a recording automaton type.  Here the model `Vata.CliArgs` is run on
the same vector and every token of the result line is compared exactly:

* `violation` – the C++ contradicts a theorem of `Vata/Properties/Util_CliArgs.lean` that is stated without reference to the
  replay: an exception that is not a `std::runtime_error` (`Util_CliArgs_parse_total`), an inclusion call whose option word
  is not the flag-wise value of the options the C++ itself reported, or accepted / rejected inclusion options against
  `Util_CliArgs_incl_accepts` (`Util_CliArgs_incl_word_spec`);
* `mismatch` – any token differs from the model's.
-/
open Vata
open Vata.CliArgs

namespace CliArgsChk

def getE (o : Option α) (msg : String) : Except String α :=
  match o with
  | some a => pure a
  | none => throw msg

/-! ### the escaping of the line protocol: bytes <-> `Char`s below 256 -/

def hexDigit (n : Nat) : Char := if n < 10 then Char.ofNat (48 + n) else Char.ofNat (55 + n)

def keep (c : Char) : Bool :=
  c.isAlphanum || c == '_' || c == '.' || c == '\'' || c == '/' || c == '+' || c == '-'

def escL : Str → List Char
  | [] => []
  | c :: r => if keep c then c :: escL r else '%' :: hexDigit (c.toNat / 16 % 16) :: hexDigit (c.toNat % 16) :: escL r

def esc (s : Str) : String := String.ofList (escL s)

def hexVal? (c : Char) : Option Nat :=
  if '0' ≤ c ∧ c ≤ '9' then some (c.toNat - 48)
  else if 'A' ≤ c ∧ c ≤ 'F' then some (c.toNat - 55)
  else if 'a' ≤ c ∧ c ≤ 'f' then some (c.toNat - 87)
  else none

def unescL? : List Char → Option Str
  | [] => some []
  | '%' :: a :: b :: r => do
    let x ← hexVal? a
    let y ← hexVal? b
    let t ← unescL? r
    pure (Char.ofNat (16 * x + y) :: t)
  | '%' :: _ => none
  | c :: r => do
    let t ← unescL? r
    pure (c :: t)

def bit (b : Bool) : String := if b then "1" else "0"

def showOpts (m : Options) : String :=
  if m.isEmpty then "-" else ",".intercalate (m.map (fun e => esc e.1 ++ ":" ++ esc e.2))

def showLog (l : List Str) : String := if l.isEmpty then "-" else ";".intercalate (l.map esc)

/-- the tokens the harness prints for a successful `parseArguments` -/
def argTokens (a : Arguments) : List (String × String) :=
  [("p", "ok"), ("cmd", toString a.command.code), ("rep", toString a.representation.code),
   ("if", toString a.inputFormat.code), ("of", toString a.outputFormat.code), ("ops", toString a.operands),
   ("f1", esc a.fileName1), ("f2", esc a.fileName2), ("t", bit a.showTime), ("n", bit a.dontOutputResult),
   ("pu", bit a.pruneUnreachable), ("ps", bit a.pruneUseless), ("V", bit a.verbose), ("o", showOpts a.options)]

/-- the expected result line -/
def expected (argv : List Str) : List (String × String) :=
  let p := parse argv
  let ptoks := match p with
    | .ok a => argTokens a
    | .error m => [("p", "exc"), ("pt", "1"), ("pw", esc m)]
  match mainEarly (lit "T44") argv, p with
  | some mo, _ => ptoks ++ [("mc", toString mo.code), ("mo", esc mo.out), ("me", esc mo.err)]
  | none, .ok a =>
    let r := perform a
    ptoks ++ [("rx", match r.exc with | none => "-" | some e => "!" ++ esc e), ("ro", esc r.out), ("rt", bit r.timed),
      ("rl", showLog r.log)]
  | none, .error _ => ptoks   -- not reachable (`mainEarly` is `some` on a parse error)

def allKeys : List String :=
  ["p", "pt", "pw", "cmd", "rep", "if", "of", "ops", "f1", "f2", "t", "n", "pu", "ps", "V", "o", "mc", "mo", "me", "rx", "ro",
   "rt", "rl"]

def shorten (s : String) : String := if s.length > 160 then (s.take 160).toString ++ "…" else s

/-! ### checks that do not go through the replay -/

/-- the options map the C++ reported (`o=`) -/
def parseOpts? (t : String) : Option (List (Str × Str)) :=
  if t == "-" then some [] else
  (t.splitOn ",").mapM (fun e => match e.splitOn ":" with
    | [k, v] => do pure ((← unescL? k.toList), (← unescL? v.toList))
    | _ => none)

/-- value of an inclusion option: what `-o` gave, else the documented default -/
def optVal (m : List (Str × Str)) (k dflt : String) : Str :=
  match m.find? (fun e => e.1 = lit k) with
  | some e => e.2
  | none => lit dflt

/-- `Util_CliArgs_incl_accepts` / `Util_CliArgs_incl_word_spec`: the seven values are each one of its two words, and then
the word is the sum of the bits -/
def specWord (m : List (Str × Str)) : Option Nat :=
  let pick (k dflt a b : String) : Option Bool :=
    let v := optVal m k dflt
    if v = lit a then some false else if v = lit b then some true else none
  do
    let alg ← pick "alg" "antichains" "antichains" "congr"
    let dir ← pick "dir" "up" "up" "down"
    let rc ← pick "rec" "no" "no" "yes"
    let oc ← pick "optC" "no" "no" "yes"
    let sm ← pick "sim" "no" "no" "yes"
    let ord ← pick "order" "depth" "depth" "breadth"
    let _ ← pick "timeS" "yes" "no" "yes"
    pure ((if alg then 1 else 0) + (if dir then 2 else 0) + (if oc then 4 else 0) + (if rc then 8 else 0) +
      (if sm then 16 else 0) + (if ord then 32 else 0))

/-- the word of the `incl(…,…,word)` event of a log -/
def inclWord? (rl : String) : Option Nat :=
  if rl == "-" then none else
  (rl.splitOn ";").findSome? (fun e => do
    let s ← unescL? e.toList
    let str := String.ofList s
    if str.startsWith "incl(" then ((str.splitOn ",").getLast?.map (fun x => (x.dropEnd 1).toString)) >>= String.toNat?
    else none)

def showW (w : Option Nat) : String := match w with | some n => toString n | none => "<none>"

def specChecks (res : List String) : List String := Id.run do
  let mut f : List String := []
  if kv res "p" == some "exc" && kv res "pt" != some "1" then
    f := f ++ ["violation parseArguments threw something that is not a std::runtime_error"]
  if kv res "p" == some "ok" && kv res "cmd" == some "6" && (kv res "rx").isSome then
    match (kv res "o") >>= parseOpts? with
    | none => f := f ++ ["violation options map of the result line is unreadable"]
    | some m =>
      -- `symbolic` is looked at first by performOperation: only judge inclusion when it passed
      let sym := optVal m "symbolic" "no"
      if sym = lit "yes" ∨ sym = lit "no" then
        let rx := (kv res "rx").getD ""
        let w := (kv res "rl") >>= inclWord?
        match specWord m, rx == "-" with
        | some sw, true =>
          if w != some sw then
            f := f ++ [s!"violation inclusion called with option word {showW w} but the options denote {sw} (flag-wise specification)"]
        | some sw, false => f := f ++ [s!"violation valid inclusion options (word {sw}) were rejected: {shorten rx}"]
        | none, true => f := f ++ [s!"violation an inclusion option value outside its two words was accepted (word {showW w})"]
        | none, false =>
          if !rx.startsWith "!Invalid%20options%20for%20inclusion%3A%20" then
            f := f ++ [s!"violation invalid inclusion options rejected with an unexpected exception: {shorten rx}"]
  return f

/-! ### the tag: which branches the case exercised -/

def errClass (m : Str) : String :=
  let s := String.ofList m
  let s := (s.splitOn ":").head!
  ((s.replace "'" "").trimAscii.toString.replace " " "_")

def tagOf (argv : List Str) : String :=
  if argv.isEmpty then "noargs" else
  match parse argv with
  | .error m => "perr:" ++ errClass m
  | .ok a =>
    match a.command with
    | .help => "help"
    | .version => "version"
    | c =>
      let r := perform a
      let base := s!"run:{c.code}:r{a.representation.code}" ++
        (if a.pruneUseless then ":s" else "") ++ (if a.pruneUnreachable then ":p" else "") ++
        (if a.dontOutputResult then ":n" else "") ++ (if a.showTime then ":t" else "") ++
        (if a.options.isEmpty then "" else s!":o{a.options.length}")
      match r.exc with
      | some e => base ++ ":exc:" ++ errClass e
      | none =>
        if c = .incl then
          match checkInclusionOpts a.options with
          | .ok ch => base ++ s!":w{ch.word}:" ++ (if implemented a.representation ch.word then "impl" else "notimpl")
          | .error _ => base
        else base

def check (args res : List String) : Except String (List String × String) := do
  let argv ← args.mapM (fun t =>
    if t.startsWith ":" then getE (unescL? (t.toList.drop 1)) s!"bad escape in {t}" else throw s!"bad argv token {t}")
  -- the pointer-level loop agrees with the list-level one and stays inside argv (`Util_CliArgs_parse_in_bounds`)
  if parseRaw argv argv.length 0 {} != Raw.ofExcept (parse argv) then throw "internal: parseRaw differs from parse"
  -- the `-o` loop on indices agrees with the split-based one (`Util_CliArgs_option_loop_in_range`)
  for x in argv do
    if optLoopRaw x (x.length + 1) 0 [] != OptRaw.ofExcept (parseOptionList x []) then
      throw "internal: optLoopRaw differs from parseOptionList"
  let exp := expected argv
  let mut f : List String := specChecks res
  for k in allKeys do
    let got := kv res k
    let want := exp.lookup k
    if got != want then
      f := f ++ [s!"mismatch {k}: C++ {shorten (got.getD "<absent>")} model {shorten (want.getD "<absent>")}"]
  pure (f, tagOf argv)

end CliArgsChk
