import Vata.Parse
import Vata.Glue
/-! # Driver side of the `glue` histories: `SymbolicVarAsgn`, `TwoWayDict`, the translators, `Convert`, the dictionary helpers

Replays the history on the models of `Vata/Glue.lean` (the classes as coded, `NDEBUG`) and compares every read-back of the
real objects and every answer (`harness/op_glue.inc`):

* `violation` – the real object contradicts a theorem of `Vata/Proofs/Glue.lean` that does not depend on the model of the
  operation: a dictionary whose history stayed inside the contract (`Pool` invariant `history_inv`) but whose two maps are not
  inverse to each other / of different size; `length()` different from the length of `ToString()`; `GetIthVariableValue`
  inconsistent with `ToString()`; `a < b` and `b < a` both true; a strict translator that changed its container;
* `mismatch` – the real object or answer differs from the model's.

One defect of the real code is reported although model and code agree on it: `CreateProductStringToStateMap` naming two
different pairs of states alike (`Util_Glue_productNames_collide`; the generator produces such product maps only with
`GLUE_PRODNAMES=full`).
-/
open Vata
open Vata.Glue

namespace GlueChk

def getE (o : Option α) (msg : String) : Except String α :=
  match o with
  | some a => pure a
  | none => throw msg

def bchar (b : Bool) : Char := if b then '1' else '0'

def lstTok (s : String) : List String := if s == "-" || s == "" then [] else s.splitOn ","

def natLst? (s : String) : Option (List Nat) := (lstTok s).mapM String.toNat?

def arrow? (e : String) : Option (String × String) :=
  match e.splitOn ">" with
  | [a, b] => some (a, b)
  | _ => none

def dotted? (e : String) : Option (Nat × Nat) :=
  match e.splitOn "." with
  | [a, b] => do pure ((← a.toNat?), (← b.toNat?))
  | _ => none

def nameMap? (s : String) : Option (List (Name × Nat)) :=
  (lstTok s).mapM (fun e => do let (a, b) ← arrow? e; pure (a.toList, (← b.toNat?)))

def natMap? (s : String) : Option (List (Nat × Nat)) :=
  (lstTok s).mapM (fun e => do let (a, b) ← arrow? e; pure ((← a.toNat?), (← b.toNat?)))

def pairMap? (s : String) : Option (List ((Nat × Nat) × Nat)) :=
  (lstTok s).mapM (fun e => do let (a, b) ← arrow? e; pure ((← dotted? a), (← b.toNat?)))

def hexVal? (c : Char) : Option Nat :=
  if c.isDigit then some (c.toNat - 48)
  else if 'a'.toNat ≤ c.toNat && c.toNat ≤ 'f'.toNat then some (c.toNat - 87)
  else if 'A'.toNat ≤ c.toNat && c.toNat ≤ 'F'.toNat then some (c.toNat - 55)
  else none

def unhexL? : List Char → Option (List Char)
  | [] => some []
  | [_] => none
  | a :: b :: r => do
    let x ← hexVal? a
    let y ← hexVal? b
    pure (Char.ofNat (16 * x + y) :: (← unhexL? r))

def unhex? (s : String) : Option (List Char) := if s == "-" then some [] else unhexL? s.toList

def str (l : List Char) : String := String.ofList l
def us (l : List Char) : String := String.ofList (l.map (fun c => if c = ' ' then '_' else c))
def joinOr (l : List String) : String := if l.isEmpty then "-" else ",".intercalate l

def parseFunctor? (s : String) : Option Alloc :=
  match s.toList with
  | ['c'] => some .counter
  | 's' :: r => (String.ofList r).toNat?.map .size
  | 'k' :: r => (String.ofList r).toNat?.map .const
  | _ => none

/-! ### what the harness prints for the model's objects -/

def codesStr (a : Asgn) : String := String.ofList (a.map (fun v => Char.ofNat (48 + valCode v)))

def asgnDump (a : Asgn) : String := s!"={str (toStr a)};{a.length};={codesStr a};1"

def dictDump (d : StateDict) : String :=
  let f := joinOr (d.fwd.map (fun e => s!"{str e.1}>{e.2}"))
  let b := joinOr (d.bwd.map (fun e => s!"{e.1}>{str e.2}"))
  let pr := us (mapStr (d.fwd.map (fun e => (e.1, natStr e.2))))
  s!"{f};{b};{d.fwd.length};{pr};111"

def mapDump (m : List (Nat × Nat)) : String :=
  joinOr ((sortByKey (fun (a b : Nat) => decide (a < b)) m).map (fun e => s!"{e.1}>{e.2}"))

/-- the representation invariant of a dictionary (Boolean form of `Glue.TwoWayDict.Inv`) -/
def invB (d : StateDict) : Bool :=
  d.fwd.all (fun e => d.bwd.contains (e.2, e.1)) && d.bwd.all (fun e => d.fwd.contains (e.2, e.1)) &&
    d.fwd.length == d.bwd.length

def hasDupKey {κ ν : Type} [BEq κ] : List (κ × ν) → Bool
  | [] => false
  | e :: r => r.any (fun x => x.1 == e.1) || hasDupKey r

structure St where
  as : List Asgn := []
  pool : Pool := {}
  /-- per dictionary: its history stayed inside the contracts of `Insert` / `Union` / the helpers -/
  clean : List Bool := []
  f : List String := []
  br : List Char := []
  /-- the numbers of live objects diverged (an object exists on one side only): the rest of the case cannot be aligned -/
  stop : Bool := false

def St.note (s : St) (c : Char) : St := if s.br.contains c then s else { s with br := c :: s.br }
def St.find (s : St) (m : String) : St := { s with f := s.f ++ [m] }

/-- the forward / backward part of a dumped dictionary -/
def parseDictDump? (t : String) : Option (List (Name × Nat) × List (Nat × Name) × Nat) :=
  match t.splitOn ";" with
  | [f, b, n, _, _] => do
    let fw ← nameMap? f
    let bw ← (lstTok b).mapM (fun e => do let (x, y) ← arrow? e; pure ((← x.toNat?), y.toList))
    pure (fw, bw, ← n.toNat?)
  | _ => none

/-- read back every live object after step `k` -/
def readBack (res : List String) (k : Nat) (what : String) (s : St) : Except String St := do
  let mut s := s
  for i in List.range s.as.length do
    let some t := kv res s!"{k}.a{i}"
      | return { s.find s!"mismatch step {k} ({what}): assignment {i} is live in the model but not in the real history" with stop := true }
    let a := s.as.getD i []
    if t != asgnDump a then
      let kind :=
        match t.splitOn ";" with
        | [st, n, cs, _] =>
          if n.toNat? != some (st.length - 1) then "violation length() differs from the length of ToString(): "
          else if (ofStr (st.drop 1).toString.toList).map codesStr != some (cs.drop 1).toString then
            "violation GetIthVariableValue inconsistent with ToString(): "
          else "mismatch "
        | _ => "mismatch "
      s := s.find s!"{kind}step {k} ({what}) assignment {i}: real {t}, model {asgnDump a}"
  if (kv res s!"{k}.a{s.as.length}").isSome then
    s := { s.find s!"mismatch step {k} ({what}): the real history has more live assignments than the model ({s.as.length})" with stop := true }
  for i in List.range s.pool.ds.length do
    let some t := kv res s!"{k}.d{i}"
      | return { s.find s!"mismatch step {k} ({what}): dictionary {i} is live in the model but not in the real history" with stop := true }
    let d := s.pool.d i
    if t != dictDump d then
      let kind :=
        match parseDictDump? t with
        | some (fw, bw, n) =>
          if s.clean.getD i false && !(invB ⟨fw, bw⟩ && n == fw.length) then
            "violation a dictionary used inside its contract is not a bijection (history_inv): "
          else "mismatch "
        | none => "mismatch "
      s := s.find s!"{kind}step {k} ({what}) dictionary {i}: real {t}, model {dictDump d}"
  if (kv res s!"{k}.d{s.pool.ds.length}").isSome then
    s := { s.find s!"mismatch step {k} ({what}): the real history has more live dictionaries than the model ({s.pool.ds.length})" with stop := true }
  for i in List.range s.pool.ms.length do
    let some t := kv res s!"{k}.m{i}"
      | return { s.find s!"mismatch step {k} ({what}): map {i} is live in the model but not in the real history" with stop := true }
    let m := s.pool.m i
    if t != mapDump m then
      s := s.find s!"mismatch step {k} ({what}) map {i}: real {t}, model {mapDump m}"
  if (kv res s!"{k}.m{s.pool.ms.length}").isSome then
    s := { s.find s!"mismatch step {k} ({what}): the real history has more live maps than the model ({s.pool.ms.length})" with stop := true }
  pure s

def seqAns {β : Type} (sh : β → String) (r : List β × Bool) (exc : String) : String :=
  joinOr (r.1.map sh ++ (if r.2 then [exc] else []))

def constExc : String := "EXC:runtime_error:Cannot_insert_value_into_const_translator."

/-- the first key without a translation (the one the strict translator complains about) -/
def firstMiss {κ ν : Type} [DecidableEq κ] (m : List (κ × ν)) : List κ → Option κ
  | [] => none
  | a :: r => if (m.lookup a).isNone then some a else firstMiss m r

def pmOk (l r : StateDict) (pm : List ((Nat × Nat) × Nat)) : Bool :=
  pm.all (fun e => (l.bwd.lookup e.1.1).isSome && (r.bwd.lookup e.1.2).isSome)

def go (steps : List String) (res : List String) (k : Nat) (s : St) : Except String St :=
  match steps with
  | [] => pure s
  | st :: rest => do
    if s.stop then return s
    let parts := st.splitOn "!"
    let opn := parts[0]!
    let arg (i : Nat) : Except String String := getE parts[i]? s!"bad step {st}"
    let argN (i : Nat) : Except String Nat := getE (parts[i]? >>= String.toNat?) s!"bad number in step {st}"
    let ai (i : Nat) : Except String Nat := do
      let x ← argN i
      if x < s.as.length then pure x else throw s!"no such assignment in step {st}"
    let di (i : Nat) : Except String Nat := do
      let x ← argN i
      if x < s.pool.ds.length then pure x else throw s!"no such dictionary in step {st}"
    let mi (i : Nat) : Except String Nat := do
      let x ← argN i
      if x < s.pool.ms.length then pure x else throw s!"no such map in step {st}"
    let mut s := s
    let mut expQ : Option String := none
    let mut op : Option Op := none
    let norm := StateDict.norm
    match opn with
    -- ------------------------------------------------------------ SymbolicVarAsgn
    | "an" => let n ← argN 1; s := (s.note 'n'); s := { s with as := s.as ++ [mkDontCare n] }
    | "ak" =>
      let n ← argN 1; let x ← argN 2
      let a ← getE (ofNum n x) s!"step {st}: undefined behaviour in the model (size > 32)"
      s := s.note (if n == 32 && x ≥ 2 ^ 31 then 'j' else 'k')
      s := { s with as := s.as ++ [a] }
    | "as" =>
      let t ← arg 1
      match ofStr (t.drop 1).toString.toList with
      | some a => s := s.note 's'; expQ := some "ok"; s := { s with as := s.as ++ [a] }
      | none => s := s.note 'e'; expQ := some "EXC:runtime_error:Invalid_input_value!"
    | "ad" => s := s.note 'y'; s := { s with as := s.as ++ [[]] }
    | "acp" => let i ← ai 1; s := s.note 'c'; s := { s with as := s.as ++ [s.as.getD i []] }
    | "aas" =>
      let i ← ai 1; let j ← ai 2
      s := s.note (if i == j then 'f' else 'b')
      s := { s with as := s.as.set i (s.as.getD j []) }
    | "aset" =>
      let i ← ai 1; let p ← argN 2; let v ← arg 3
      let vv ← getE (match v with | "0" => some (some false) | "1" => some (some true) | "X" => some none | _ => none) s!"bad value in {st}"
      s := s.note 't'
      s := { s with as := s.as.set i (set (s.as.getD i []) p vv) }
    | "aget" =>
      let i ← ai 1; let p ← argN 2
      let v ← getE (get (s.as.getD i []) p) s!"step {st}: index out of range"
      s := s.note 'g'
      expQ := some (toString (valCode v))
    | "aup" =>
      let i ← ai 1; let m ← argN 2
      let a := s.as.getD i []
      s := s.note (if m + 1 > a.length then 'u' else 'h')
      s := { s with as := s.as.set i (addVariablesUpTo a m) }
    | "aapp" =>
      let i ← ai 1; let j ← ai 2
      let a := s.as.getD i []
      let r ← if i == j then getE (appendSelf a) s!"step {st}: a.append(a) is outside the contract" else pure (append a (s.as.getD j []))
      s := s.note 'p'
      s := { s with as := s.as.set i r }
    | "ainc" =>
      let i ← ai 1
      let a := s.as.getD i []
      s := s.note (if !isConcrete a then 'x' else if a.all (· == some true) then 'w' else 'i')
      s := { s with as := s.as.set i (inc a) }
    | "apinc" =>
      let i ← ai 1
      let a := s.as.getD i []
      s := s.note 'r'
      s := { s with as := (s.as.set i (postInc a).2) ++ [(postInc a).1] }
    | "alt" =>
      let i ← ai 1; let j ← ai 2
      let a := s.as.getD i []; let b := s.as.getD j []
      s := s.note (if a.length == b.length then 'l' else 'm')
      expQ := some (String.ofList [bchar (lt a b), bchar (lt b a)])
      match kv res s!"q{k}" with
      | some "11" => s := s.find s!"violation step {k}: a < b and b < a both hold for {str (toStr a)} and {str (toStr b)} (lt_asymm)"
      | _ => pure ()
    | "acon" =>
      let i ← ai 1
      let a := s.as.getD i []
      s := s.note (if isConcrete a then 'q' else 'o')
      expQ := some ("=" ++ ",".intercalate ((concretize a).map (fun x => str (toStr x))))
    | "aall" =>
      let n ← argN 1
      s := s.note 'a'
      expQ := some ("=" ++ ",".intercalate ((getAllAssignments n).map (fun x => str (toStr x))))
    | "auniv" => s := s.note 'y'; s := { s with as := s.as ++ [universalSymbol] }
    | "azero" =>
      let a ← getE zeroSymbol "internal: zeroSymbol"
      s := s.note 'z'; s := { s with as := s.as ++ [a] }
    -- ------------------------------------------------------------ StateDict
    | "dn" => s := s.note 'N'; op := some .dNew; s := { s with clean := s.clean ++ [true] }
    | "dm" =>
      let m ← getE (nameMap? (← arg 1)) s!"bad map in {st}"
      op := some (.dOfMap m)
      match TwoWayDict.ofMap (mapOfList m) with
      | some _ => s := s.note 'M'; expQ := some "ok"; s := { s with clean := s.clean ++ [true] }
      | none => s := s.note 'E'; expQ := some "EXC:runtime_error:TwoWayDict:_failed_to_construct_reverse_mapping"
    | "dcp" => let i ← di 1; s := s.note 'C'; op := some (.dCopy i); s := { s with clean := s.clean ++ [s.clean.getD i false] }
    | "dins" =>
      let i ← di 1; let n := (← arg 2).toList; let v ← argN 3
      let d := s.pool.d i
      let r := d.insert n v
      let logged := (d.bwd.lookup v).isSome
      s := s.note (if d.insertOk n v then 'I' else if (d.fwd.lookup n).isSome then 'F' else 'B')
      if !d.insertOk n v then s := { s with clean := s.clean.set i false }
      expQ := some s!"{bchar r.2.2}:{str r.2.1.1}>{r.2.1.2}:{bchar logged}"
      op := some (.dInsert i n v)
    | "dtf" | "dat" =>
      let i ← di 1; let n := (← arg 2).toList
      let what := if opn == "dtf" then "TranslateFwd" else "at"
      match (s.pool.d i).translateFwd n with
      | some v => s := s.note 'T'; expQ := some (toString v)
      | none => s := s.note 'X'; expQ := some s!"EXC:out_of_range:{what}"
      op := some (.dQuery i)
    | "dtb" =>
      let i ← di 1; let v ← argN 2
      match (s.pool.d i).translateBwd v with
      | some n => s := s.note 'T'; expQ := some (str n)
      | none => s := s.note 'X'; expQ := some "EXC:out_of_range:TranslateBwd"
      op := some (.dQuery i)
    | "dff" =>
      let i ← di 1; let n := (← arg 2).toList
      match (s.pool.d i).findFwd n with
      | some e => s := s.note 'H'; expQ := some s!"{str e.1}>{e.2}"
      | none => s := s.note 'J'; expQ := some "-"
      op := some (.dQuery i)
    | "dfb" =>
      let i ← di 1; let v ← argN 2
      match (s.pool.d i).findBwd v with
      | some e => s := s.note 'H'; expQ := some s!"{e.1}>{str e.2}"
      | none => s := s.note 'J'; expQ := some "-"
      op := some (.dQuery i)
    | "dun" =>
      let i ← di 1; let j ← di 2
      let ok := (s.pool.d i).unionOk (s.pool.d j)
      s := s.note (if ok then 'U' else 'V')
      s := { s with clean := s.clean ++ [ok && s.clean.getD i false && s.clean.getD j false] }
      op := some (.dUnion i j)
    | "tw" =>
      let i ← di 1; let f ← getE (parseFunctor? (← arg 2)) s!"bad functor in {st}"; let c ← argN 3
      let keys := (lstTok (← arg 4)).map String.toList
      let d := s.pool.d i
      let r := weakDictSeq f keys d c []
      s := s.note (if r.1.fwd.length == d.fwd.length then 'W' else 'A')
      if (match f with | .size _ => true | _ => false) && r.1.fwd.length != d.fwd.length then s := s.note '5'
      if !invB r.1 && invB d then s := (s.note 'Q'); s := { s with clean := s.clean.set i false }
      expQ := some (joinOr (r.2.2.map toString))
      op := some (.dWeak i f c keys)
    | "twc" =>
      let i ← di 1
      let keys := (lstTok (← arg 2)).map String.toList
      let r := strictSeq (s.pool.d i).fwd keys
      s := s.note (if r.2 then 'K' else 'S')
      expQ := some (seqAns toString r constExc)
      op := some (.dStrict i keys)
    | "ts" =>
      let i ← di 1
      let keys := (lstTok (← arg 2)).map String.toList
      let m := (s.pool.d i).fwd
      let r := strictSeq m keys
      s := s.note (if r.2 then 'Z' else 'S')
      expQ := some (seqAns toString r ("EXC:runtime_error:No_translation_for_" ++ (match firstMiss m keys with | some n => str n | none => "")))
      op := some (.dStrict i keys)
    | "tsb" =>
      let i ← di 1
      let keys ← getE (natLst? (← arg 2)) s!"bad list in {st}"
      let m := (s.pool.d i).getReverseMap
      let r := strictSeq m keys
      s := s.note 'R'
      expQ := some (seqAns str r ("EXC:runtime_error:No_translation_for_" ++ (match firstMiss m keys with | some n => toString n | none => "")))
      op := some (.dStrictBwd i keys)
    -- ------------------------------------------------------------ StateToStateMap
    | "mn" => s := s.note '0'; op := some .mNew
    | "mm" => let m ← getE (natMap? (← arg 1)) s!"bad map in {st}"; s := s.note '1'; op := some (.mLit m)
    | "mcp" => let i ← mi 1; s := s.note '2'; op := some (.mCopy i)
    | "mw" | "mw2" =>
      let i ← mi 1; let f ← getE (parseFunctor? (← arg 2)) s!"bad functor in {st}"; let c ← argN 3
      let keys ← getE (natLst? (← arg 4)) s!"bad list in {st}"
      let m := s.pool.m i
      let two := opn == "mw2"
      let r := if two then weak2MapSeq f keys m c [] else weakMapSeq f keys m c []
      if r.1.length != m.length then
        s := s.note (if two then '4' else '3')
        if (match f with | .size _ => true | _ => false) then s := s.note (if two then '6' else '5')
      expQ := some (joinOr (r.2.2.map toString))
      op := some (if two then .mWeak2 i f c keys else .mWeak i f c keys)
    | "mwc" | "mw2c" =>
      let i ← mi 1
      let keys ← getE (natLst? (← arg 2)) s!"bad list in {st}"
      let r := strictSeq (s.pool.m i) keys
      s := s.note '7'
      expQ := some (seqAns toString r constExc)
      op := some (.mStrict i keys)
    | "ms" =>
      let i ← mi 1
      let keys ← getE (natLst? (← arg 2)) s!"bad list in {st}"
      let m := s.pool.m i
      let r := strictSeq m keys
      s := s.note (if r.2 then '9' else '8')
      expQ := some (seqAns toString r ("EXC:runtime_error:No_translation_for_" ++ (match firstMiss m keys with | some n => toString n | none => "")))
      op := some (.mStrict i keys)
    -- ------------------------------------------------------------ util.cc
    | "uni" =>
      let i ← di 1; let j ← di 2
      let ml ← (do let t ← arg 3; if t == "-" then pure none else pure (some (← mi 3)) : Except String (Option Nat))
      let mr ← (do let t ← arg 4; if t == "-" then pure none else pure (some (← mi 4)) : Except String (Option Nat))
      let l := s.pool.d i; let r := s.pool.d j
      let d := unionDict l r (ml.map s.pool.m) (mr.map s.pool.m)
      let skipped := d.fwd.length < l.fwd.length + r.fwd.length
      s := s.note (if !invB d then '#' else if ml.isNone && mr.isNone then '+' else if skipped then '*' else '%')
      s := { s with clean := s.clean ++ [invB d] }
      op := some (.uni i j ml mr)
    | "prod" =>
      let i ← di 1; let j ← di 2
      let pm ← getE (pairMap? (← arg 3)) s!"bad pair map in {st}"
      let l := s.pool.d i; let r := s.pool.d j
      match productDict l r (mapOfList pm) with
      | none => s := s.note '^'; expQ := some "UB"; op := some (.prod i j pm)
      | some d =>
        expQ := some "ok"
        if invB d && d.fwd.length == (mapOfList pm).length then
          s := s.note '&'; s := { s with clean := s.clean ++ [true] }
          op := some (.prod i j pm)
        else
          -- a collision of names or of values: which entry wins depends on the iteration order of the hash map; the
          -- real object is taken over after checking that each of its entries is produced by an entry of the product map
          s := s.note (if d.fwd.length != (mapOfList pm).length then '~' else '@')
          if d.fwd.length != (mapOfList pm).length then
            s := s.find s!"violation step {k} ({st}): CreateProductStringToStateMap gives {(mapOfList pm).length} different pairs of states only {d.fwd.length} names – the names [l_1|r_2] are not injective (Util_Glue_productNames_collide); the result is not a dictionary"
          let t ← getE (kv res s!"{k}.d{s.pool.ds.length}") s!"step {k}: product dictionary not dumped"
          let (fw, bw, _) ← getE (parseDictDump? t) s!"bad dump {t}"
          let cand := (mapOfList pm).filterMap (fun e =>
            match l.bwd.lookup e.1.1, r.bwd.lookup e.1.2 with
            | some a, some b => some (prodName a b, e.2)
            | _, _ => none)
          let okF := fw.all (fun e => cand.contains e) && cand.all (fun e => fw.any (fun x => x.1 == e.1))
          let okB := bw.all (fun e => cand.contains (e.2, e.1)) && cand.all (fun e => bw.any (fun x => x.1 == e.2))
          if !(okF && okB) || hasDupKey fw || hasDupKey bw then
            s := s.find s!"mismatch step {k}: product dictionary {t} is not made of the entries {dictDump d} of the model"
          s := { s with pool := { s.pool with ds := s.pool.ds ++ [norm ⟨fw, bw⟩] }, clean := s.clean ++ [false] }
    -- ------------------------------------------------------------ Convert
    | "cfi" | "cfu" | "cfz" =>
      let inp ← getE (unhex? (← arg 1)) s!"bad hex in {st}"
      let r : Option String :=
        if opn == "cfi" then (fromStrSigned 32 inp).map toString
        else (fromStrUnsigned (if opn == "cfu" then 32 else 64) inp).map toString
      match r with
      | some v =>
        s := s.note '('
        match scanInt inp with
        | some (neg, ds) =>
          if neg && opn != "cfi" then s := s.note '<'
          if ((inp.dropWhile isSpaceC).length : Nat) > ds.length + (if neg || (inp.dropWhile isSpaceC).head? == some '+' then 1 else 0) then s := s.note '>'
        | none => pure ()
        expQ := some v
      | none => s := s.note ')'; expQ := some "EXC:invalid_argument:FromString:_invalid_argument"
    | "cts" =>
      let t ← arg 1
      let data := parts[2]?.getD "-"
      let nl ← (getE (natLst? data) s!"bad list in {st}" <|> pure [])
      s := s.note ':'
      let r : Option (List Char) :=
        match t with
        | "n" | "uc" => data.toNat?.map natStr
        | "i" => data.toInt?.map intStr
        | "v" | "l" => some (vecStr (nl.map natStr))
        | "st" => some (setStr (((nl.map (fun x => (x, ()))) |> mapOfList |> sortByKey (fun (a b : Nat) => decide (a < b))).map (fun e => natStr e.1)))
        | "mp" => (natMap? data).map (fun m => mapStr ((sortByKey (fun (a b : Nat) => decide (a < b)) (mapOfList m)).map (fun e => (natStr e.1, natStr e.2))))
        | "pr" => (dotted? data).map (fun p => pairStr (natStr p.1) (natStr p.2))
        | "ms" => (nameMap? data).map (fun m => mapStr ((sortByKey nameLt (mapOfList m)).map (fun e => (e.1, natStr e.2))))
        | "vp" => ((lstTok data).mapM dotted?).map (fun l => vecStr (l.map (fun p => pairStr (natStr p.1) (natStr p.2))))
        | _ => none
      let r ← getE r s!"bad cts step {st}"
      expQ := some ("=" ++ us r)
    | _ => throw s!"unknown step {st}"
    let before := s.pool
    match op with
    | some o => s := { s with pool := step norm s.pool o }
    | none => pure ()
    if s.pool.ds.length != s.clean.length then throw s!"internal: pools out of step at {st}"
    -- the answer of the step
    let got := kv res s!"q{k}"
    match expQ, got with
    | some e, some g => if e != g then s := s.find s!"mismatch step {k} ({st}): answer {g}, model {e}"
    | some e, none => s := s.find s!"mismatch step {k} ({st}): no answer, model {e}"
    | none, some g => s := s.find s!"mismatch step {k} ({st}): unexpected answer {g}"
    | none, none => pure ()
    s ← readBack res k opn s
    -- a strict translator (and every query) must leave every container as it was: the dumps of this step are those of the
    -- previous step (independent of the model)
    match op with
    | some (.dStrict ..) | some (.dStrictBwd ..) | some (.mStrict ..) | some (.dQuery ..) =>
      if k > 0 then
        for i in List.range before.ds.length do
          if kv res s!"{k}.d{i}" != kv res s!"{k - 1}.d{i}" then
            s := s.find s!"violation step {k} ({st}): a strict translator / query changed dictionary {i} (strict_unchanged)"
        for i in List.range before.ms.length do
          if kv res s!"{k}.m{i}" != kv res s!"{k - 1}.m{i}" then
            s := s.find s!"violation step {k} ({st}): a strict translator / query changed map {i} (strict_unchanged)"
    | _ => pure ()
    go rest res (k + 1) s

/-- tag legend (`br=`).  `SymbolicVarAsgn`: `n` size ctor, `k` (size, number) ctor, `j` the same with size 32 and a number
≥ 2^31, `s`/`e` string ctor ok / throws, `y` empty assignment, `c` copy, `b`/`f` assignment / self-assignment, `t` set, `g` get,
`u`/`h` `AddVariablesUpTo` extends / does nothing, `p` append, `i`/`w`/`x` `++` without wrap / wrapping / over a don't care,
`r` post-increment, `l`/`m` `<` on equal / different lengths, `o`/`q` concretisation with / without don't cares, `a`
`GetAllAssignments`, `z` zero symbol.  `TwoWayDict`: `N` empty, `M`/`E` from a map ok / throws, `C` copy, `I` insert inside the
contract, `F` present key, `B` present value (logged), `T`/`X` translate hit / exception, `H`/`J` find hit / miss, `U`/`V`
`Union` inside / outside its contract, `W`/`A` weak translator without / with allocation, `Q` allocation of a value that is
not fresh, `K` const weak translator throws, `S`/`Z` strict ok / throws, `R` strict on the reverse map.  Maps: `0` `1` `2`
constructors, `3`/`4` `TranslatorWeak` / `TranslatorWeak2` allocate, `5`/`6` the same with the size-reading functor, `7` const
weak, `8`/`9` strict ok / throws.  Helpers: `+` union without maps, `%` with maps, `*` with maps and skipped (pruned) states,
`#` colliding values, `&` product, `^` product with an unnamed component (not executed), `~` colliding product names (a
FINDING about the real function, reported as such; generated only with `GLUE_PRODNAMES=full`), `@` colliding product values.  `Convert`: `(`/`)` `FromString` ok / throws, `<` negative into unsigned, `>` trailing garbage,
`:` `ToString`. -/
def check (args res : List String) : Except String (List String × String) := do
  let s ← go args res 0 {}
  let br := String.ofList (s.br.toArray.qsort (· < ·)).toList
  let f := if s.f.length > 6 then s.f.take 6 ++ [s!"violation (… {s.f.length - 6} further findings of this case suppressed)"] else s.f
  pure (f, s!"steps={args.length} a={s.as.length} d={s.pool.ds.length} m={s.pool.ms.length} br={br}")

end GlueChk
