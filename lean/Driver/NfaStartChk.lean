import Vata.Parse
import Vata.NfaOps
import Vata.NfaStart
/-! # Driver side of the NFA histories WITH start symbols (`nfas`): properties C10 / C09 / C13

Replays the history on the model `Vata.NFAS` (`Vata/NfaStart.lean`: the automaton of `Vata.W.NFA` plus the map
`startStateToSymbols_`, stale entries included) and compares, after every step, EVERY live object with what the real class
shows (`harness/op_nfas.inc`): the dump (transitions, final states, the nullary rules grouped by state) and the API
(`GetStartStates`, `GetStartSymbols` of every start state).

* `violation` – the real class contradicts a theorem of `Vata/Proofs/NfaStart.lean` / `Vata/Properties/C10_StartSymbols.lean`:
  the language of a result (`nfas_*_lang`, decided by the reference checkers of `Vata/NfaEmbed.lean`), the dump against the API
  (`nfasDump` writes exactly `dumpSyms`), dump ∘ load (`nfas_load_dump`), an object changed by an operation on another one,
  and the OBSERVABLE specification of the three writers that can see stale entries of the map (`SetStateStart`,
  `SetExistingStateStart`, `UnionDisjointStates`: `C10_start_setStart_spec` … state the result in terms of what the API
  showed before; a stale entry left by `Reverse` / `RemoveUnreachableStates` makes the real class – and the model – break it);
* `mismatch`  – the real class differs from the model where no theorem decides (the symbols of a start state, the shape of a
  result, a reported translation map that is not a certificate).
-/
open Vata
open Vata.W (NFA acceptsW)

namespace NfaStartChk

def FUEL : Nat := 1000000

def getE (o : Option α) (msg : String) : Except String α :=
  match o with
  | some a => pure a
  | none => throw msg

def bchar (b : Bool) : Char := if b then '1' else '0'

def transEq (a b : List (Nat × Nat × Nat)) : Bool := a.all (fun e => b.contains e) && b.all (fun e => a.contains e)
def nfaEq (A B : NFA) : Bool := transEq A.trans B.trans && seteq A.start B.start && seteq A.final B.final
def nfaSub (R N : NFA) : Bool := R.trans.all (fun e => N.trans.contains e) && subB R.start N.start && subB R.final N.final
def statesOf (N : NFA) : List Nat := dedupL (N.start ++ N.final ++ N.trans.flatMap (fun e => [e.1, e.2.2]))
def lookupFn (m : List (Nat × Nat)) : Nat → Nat := fun q => (m.lookup q).getD q
def injOn (f : Nat → Nat) (l : List Nat) : Bool := l.all (fun p => l.all (fun q => f p != f q || p == q))

def showSyms (l : List Nat) : String := "{" ++ ",".intercalate (l.map toString) ++ "}"

/-- `q.s.s,q.s,q` -/
def parseStarts? (s : String) : Option (List (Nat × List Nat)) :=
  (splitC s ',').mapM (fun e => match e.splitOn "." with
    | q :: ss => do pure ((← q.toNat?), (← ss.mapM (fun x => x.toNat?)))
    | [] => none)

def parseTrans? (s : String) : Option (List (Nat × Nat × Nat)) :=
  (splitC s ';').mapM (fun e => match e.splitOn "," with
    | [a, b, c] => do pure ((← a.toNat?), (← b.toNat?), (← c.toNat?))
    | _ => none)

/-- the automaton token of a `def` / `load` step: transitions, (state, symbol) pairs in the order written, final states -/
def parseTok? (s : String) : Option (List (Nat × Nat × Nat) × List (Nat × Nat) × List Nat) :=
  match s.splitOn "|" with
  | [ts, ss, fs] => do
    let st ← parseStarts? ss
    pure ((← parseTrans? ts), st.flatMap (fun e => e.2.map (fun a => (e.1, a))), (← natList? fs ','))
  | _ => none

/-- what the harness shows of one object: `T|S|F|P` -/
structure View where
  trans : List (Nat × Nat × Nat)
  final : List Nat
  dumpStarts : List (Nat × List Nat)
  apiStarts : List (Nat × List Nat)

def parseView? (s : String) : Option View :=
  match s.splitOn "|" with
  | [ts, ss, fs, ps] => do pure ⟨← parseTrans? ts, ← natList? fs ',', ← parseStarts? ss, ← parseStarts? ps⟩
  | _ => none

def View.nfa (W : View) : NFA := ⟨W.apiStarts.map (·.1), W.final, W.trans⟩

def View.show (W : View) : String :=
  let st (l : List (Nat × List Nat)) := ",".intercalate (l.map (fun e => ".".intercalate ((e.1 :: e.2).map toString)))
  showNfa ⟨[], W.final, W.trans⟩ ++ " dump-starts=" ++ st W.dumpStarts ++ " api-starts=" ++ st W.apiStarts

def symsIn (l : List (Nat × List Nat)) (q : Nat) : List Nat := (l.lookup q).getD []

/-- the dump against the API (no model involved): the same start states, and for each the symbols the dump must write -/
def viewConsistent (W : View) : List String :=
  (if seteq (W.dumpStarts.map (·.1)) (W.apiStarts.map (·.1)) then [] else
    [s!"the dump shows the start states {W.dumpStarts.map (·.1)} but GetStartStates = {W.apiStarts.map (·.1)}"]) ++
  W.apiStarts.filterMap (fun e =>
    let exp := if e.2.isEmpty then [NFAS.xSym] else e.2
    if seteq (symsIn W.dumpStarts e.1) exp then none else
      some s!"the dump writes the start symbols {showSyms (symsIn W.dumpStarts e.1)} for state {e.1} but GetStartSymbols = {showSyms e.2}")

/-- differences between the model value and the view (empty = equal) -/
def viewDiff (V : NFAS) (W : View) : List String :=
  (if nfaEq V.toNFA W.nfa then [] else [s!"automaton {showNfa W.nfa} model {showNfa V.toNFA}"]) ++
  (dedupL V.start).filterMap (fun q =>
    if seteq (symsIn W.apiStarts q) (V.symsOf q) then none else
      some s!"GetStartSymbols({q}) = {showSyms (symsIn W.apiStarts q)} model {showSyms (V.symsOf q)}") ++
  (dedupL V.start).filterMap (fun q =>
    if seteq (symsIn W.dumpStarts q) (V.dumpSyms q) then none else
      some s!"dump start symbols of {q} = {showSyms (symsIn W.dumpStarts q)} model {showSyms (V.dumpSyms q)}")

/-- value of pool entry `i` shown after step `k` -/
def viewAt (res : List String) (k i : Nat) : Except String (Option View) :=
  match kv res s!"{k}.{i}" with
  | none => pure none
  | some t => do pure (some (← getE (parseView? t) s!"bad view {k}.{i}"))

/-- has the map an entry for a state that is not a start state? -/
def hasStale (V : NFAS) : Bool := V.startSyms.any (fun e => !V.start.contains e.1)

partial def go (steps : List String) (res : List String) (k : Nat) (pool : List (Option NFAS)) (bad : List Nat)
    (f : List String) (tags : List String) : Except String (List String × List String) :=
  match steps with
  | [] => pure (f, tags)
  | st :: rest => do
    let parts := st.splitOn ":"
    let op := parts[0]!
    let argN (i : Nat) : Except String Nat := getE (parts[i]? >>= String.toNat?) s!"bad step {st}"
    let ent (i : Nat) : Except String NFAS := do
      let ix ← argN i
      getE ((pool[ix]?).join) s!"dead entry in {st}"
    let newIx := pool.length
    let mut f := f
    let mut tags := if tags.contains op then tags else tags ++ [op]
    let mut pool' := pool
    let mut bad := bad
    let newView : Except String View := do getE (← viewAt res k newIx) s!"missing view {k}.{newIx}"
    match op with
    | "def" | "load" =>
      let (tr, sp, fi) ← getE (parseTok? ((st.drop (op.length + 1)).toString)) s!"bad {op}"
      let V := if op == "def" then nfasBuild tr sp fi else nfasLoad id ⟨fi, sp.map (fun p => (p.2, p.1)), tr⟩
      let W ← newView
      -- the specification of construction / load: every start state shows exactly the symbols given for it
      let want (q : Nat) := (sp.filter (fun p => p.1 == q)).map (·.2)
      for e in W.apiStarts do
        if !seteq e.2 (want e.1) then
          f := f ++ [s!"violation step {k} {op}: start state {e.1} shows {showSyms e.2}, the symbols given are {showSyms (want e.1)}"]
      if !nfaEq W.nfa ⟨sp.map (·.1), fi, tr⟩ then
        f := f ++ [s!"violation step {k} {op}: the object shows {showNfa W.nfa}, not the automaton given"]
      pool' := pool ++ [some V]
    | "copy" =>
      pool' := pool ++ [some (← ent 1)]
    | "assign" =>
      let ix ← argN 1
      let jx ← argN 2
      let _ ← ent 1
      pool' := pool.set ix (some (← ent 2))
      bad := if bad.contains jx then (if bad.contains ix then bad else bad ++ [ix]) else bad.filter (· != ix)
    | "move" =>
      let ix ← argN 1
      pool' := (pool.set ix none) ++ [some (← ent 1)]
    | "massign" =>
      let ix ← argN 1
      let jx ← argN 2
      let _ ← ent 1
      pool' := (pool.set ix (some (← ent 2))).set jx none
      bad := if bad.contains jx then (if bad.contains ix then bad else bad ++ [ix]) else bad.filter (· != ix)
    | "kill" =>
      let ix ← argN 1
      let _ ← ent 1
      pool' := pool.set ix none
    | "add" =>
      let ix ← argN 1
      let A ← ent 1
      match ← getE (parts[2]? >>= (fun s => natList? s ',')) "bad add" with
      | [a, b, c] => pool' := pool.set ix (some (nfasAddTrans A a b c))
      | _ => throw "bad add"
    | "final" =>
      let ix ← argN 1
      pool' := pool.set ix (some (nfasSetFinal (← ent 1) (← argN 2)))
    | "start" =>
      let ix ← argN 1
      let A ← ent 1
      let q ← argN 2
      let a ← argN 3
      let V := nfasSetStart A q a
      -- observable specification (`C10_start_setStart_spec`): the symbols `q` showed before (none if it was no start state) plus `a`
      let before := if A.start.contains q then A.symsOf q else []
      match ← viewAt res k ix with
      | some W =>
        if !seteq (symsIn W.apiStarts q) (before ++ [a]) then
          let why := if seteq (symsIn W.apiStarts q) (V.symsOf q) then " (as in the model: a stale entry of the start-symbol map became visible – symbols invented)" else ""
          f := f ++ [s!"violation step {k} SetStateStart({q}, {a}): state {q} now shows {showSyms (symsIn W.apiStarts q)}; it showed {if A.start.contains q then showSyms before else "no start symbols (it was not a start state)"} before, so {showSyms (before ++ [a])} is expected{why}"]
      | none => pure ()
      if !A.start.contains q && smHas A.startSyms q then tags := tags ++ ["stale-start"]
      pool' := pool.set ix (some V)
    | "estart" =>
      let ix ← argN 1
      let A ← ent 1
      let q ← argN 2
      let S ← getE (parts[3]? >>= (fun s => if s == "-" then some [] else natList? s '.')) "bad estart"
      if A.start.contains q then throw "precondition: SetExistingStateStart on a start state"
      let V := nfasSetExistingStart A q S
      match ← viewAt res k ix with
      | some W =>
        if !seteq (symsIn W.apiStarts q) S then
          let why := if seteq (symsIn W.apiStarts q) (V.symsOf q) then " (as in the model: a stale entry of the start-symbol map won – symbols lost / invented)" else ""
          f := f ++ [s!"violation step {k} SetExistingStateStart({q}, {showSyms S}) on a state that was no start state: it now shows {showSyms (symsIn W.apiStarts q)}{why}"]
      | none => pure ()
      if smHas A.startSyms q then tags := tags ++ ["stale-estart"]
      pool' := pool.set ix (some V)
    | "union" =>
      let A ← ent 1
      let B ← ent 2
      let W ← newView
      let ml ← getE ((kv res s!"ml{k}") >>= parseMap?) "bad ml"
      let mr ← getE ((kv res s!"mr{k}") >>= parseMap?) "bad mr"
      let ok ← getE (isUnionW W.nfa A.toNFA B.toNFA FUEL) "fuel"
      if !ok then f := f ++ [s!"violation step {k} union-language"]
      let fA := lookupFn ml
      let fB := lookupFn mr
      let sA := statesOf A.toNFA
      let sB := statesOf B.toNFA
      if !(injOn fA sA && injOn fB sB && sA.all (fun p => sB.all (fun q => fA p != fB q)) &&
          sA.all (fun p => (ml.lookup p).isSome) && sB.all (fun q => (mr.lookup q).isSome)) then
        f := f ++ [s!"mismatch step {k} union: the reported maps are not injective with disjoint images on the states"]
      else
        -- `C10_start_union_spec`: the image of a start state shows exactly the symbols of its source
        for (N, fN, name) in [(A, fA, "left"), (B, fB, "right")] do
          for q in dedupL N.start do
            if !seteq (symsIn W.apiStarts (fN q)) (N.symsOf q) then
              f := f ++ [s!"violation step {k} Union: start state {q} of the {name} operand showed {showSyms (N.symsOf q)}, its image {fN q} shows {showSyms (symsIn W.apiStarts (fN q))}"]
      pool' := pool ++ [some (nfasUnionWith fA fB A B)]
    | "uniondisj" =>
      let A ← ent 1
      let B ← ent 2
      let W ← newView
      if !((statesOf A.toNFA).all (fun q => !(statesOf B.toNFA).contains q)) then
        throw "precondition: uniondisj operands share states"
      let ok ← getE (isUnionW W.nfa A.toNFA B.toNFA FUEL) "fuel"
      if !ok then f := f ++ [s!"violation step {k} uniondisjoint-language"]
      -- observable specification (`C10_start_unionDisjoint_spec`): every start state keeps the symbols it showed in its operand
      for (N, name) in [(A, "left"), (B, "right")] do
        for q in dedupL N.start do
          if !seteq (symsIn W.apiStarts q) (N.symsOf q) then
            let why := if seteq (symsIn W.apiStarts q) ((nfasUnionDisjoint A B).symsOf q) then " (as in the model: a stale entry of the left operand's start-symbol map, for a state the left operand does not have, won – symbols lost / invented)" else ""
            f := f ++ [s!"violation step {k} UnionDisjointStates: start state {q} of the {name} operand showed {showSyms (N.symsOf q)} there and shows {showSyms (symsIn W.apiStarts q)} in the union{why}"]
      if B.start.any (fun q => smHas A.startSyms q) then tags := tags ++ ["stale-uniondisj"]
      pool' := pool ++ [some (nfasUnionDisjoint A B)]
    | "isect" =>
      let A ← ent 1
      let B ← ent 2
      let W ← newView
      let ok ← getE (isIsectW W.nfa A.toNFA B.toNFA FUEL) "fuel"
      if !ok then f := f ++ [s!"violation step {k} isect-language"]
      let pm ← getE ((kv res s!"m{k}") >>= parsePairMap?) "bad product map"
      let dom := pm.map (·.1)
      let mf := fun p => (pm.lookup p).getD 0
      if !(nfaProdCertB A.toNFA B.toNFA dom mf) then
        f := f ++ [s!"mismatch step {k} the reported product map is not a closed injective numbering of the reachable pairs: {dom}"]
      else
        -- `C10_start_intersection_spec`: a start state of the product is the number of a pair of start states and shows the
        -- union of the two components' sets
        for e in W.apiStarts do
          match pm.filter (fun x => x.2 == e.1 && A.start.contains x.1.1 && B.start.contains x.1.2) with
          | [x] =>
            if !seteq e.2 (A.symsOf x.1.1 ++ B.symsOf x.1.2) then
              f := f ++ [s!"violation step {k} Intersection: the start state {e.1} = ({x.1.1}, {x.1.2}) shows {showSyms e.2}; the components show {showSyms (A.symsOf x.1.1)} and {showSyms (B.symsOf x.1.2)}"]
          | _ => f := f ++ [s!"violation step {k} Intersection: the start state {e.1} is not the number of exactly one pair of start states"]
      let e ← getE (emptyW W.nfa FUEL) "fuel"
      tags := tags ++ [s!"isectempty={bchar e}"]
      pool' := pool ++ [some (nfasRemoveUseless (nfasProdOn A B dom mf))]
    | "rev" =>
      let A ← ent 1
      let W ← newView
      let ok ← getE (equivW W.nfa (nfaReverse A.toNFA) FUEL) "fuel"
      if !ok then f := f ++ [s!"violation step {k} reverse-language"]
      -- `C10_start_reverse_spec`, observable part: a new start state that was a start state keeps its symbols
      for e in W.apiStarts do
        if A.start.contains e.1 && !seteq e.2 (A.symsOf e.1) then
          f := f ++ [s!"violation step {k} Reverse: state {e.1}, a start state before and after, showed {showSyms (A.symsOf e.1)} and shows {showSyms e.2}"]
      pool' := pool ++ [some (nfasReverse A)]
    | "unreach" | "useless" =>
      let A ← ent 1
      let W ← newView
      let ok ← getE (equivW W.nfa A.toNFA FUEL) "fuel"
      if !ok then f := f ++ [s!"violation step {k} {op}-language"]
      -- `C10_start_trim_spec`: the start states that survive keep their symbols
      for e in W.apiStarts do
        if !seteq e.2 (A.symsOf e.1) then
          f := f ++ [s!"violation step {k} {op}: start state {e.1} showed {showSyms (A.symsOf e.1)} and shows {showSyms e.2} in the result"]
      pool' := pool ++ [some (if op == "unreach" then nfasRemoveUnreachable A else nfasRemoveUseless A)]
    | "cand" =>
      let A ← ent 1
      let W ← newView
      let so ← getE ((kv res s!"so{k}") >>= (fun t => if t == "-" then some [] else natList? t ',')) "missing start order"
      if !seteq so A.start then
        f := f ++ [s!"violation step {k}: GetStartStates iterates over {so}, the start states are {A.start}"]
      -- the model scans the start states in the order in which the implementation's container iterates
      let A' : NFAS := ⟨⟨so, A.final, A.trans⟩, A.startSyms⟩
      let M := nfasCandidate A'
      if !nfaSub W.nfa A.toNFA then
        let inc ← getE (inclW W.nfa A.toNFA FUEL) "fuel"
        if !inc then f := f ++ [s!"violation step {k} witness-not-sublanguage"]
        else f := f ++ [s!"mismatch step {k} witness-not-a-subautomaton"]
      let eA ← getE (emptyW A.toNFA FUEL) "fuel"
      let eD ← getE (emptyW W.nfa FUEL) "fuel"
      if eD != eA then f := f ++ [s!"violation step {k} witness empty = {eD} for a language with empty = {eA}"]
      for e in W.apiStarts do
        if !seteq e.2 (A.symsOf e.1) then
          f := f ++ [s!"violation step {k} cand: start state {e.1} showed {showSyms (A.symsOf e.1)} and shows {showSyms e.2} in the witness"]
      tags := tags ++ [s!"candempty={bchar eA}", s!"candexact={bchar (nfaEq W.nfa M.toNFA)}"]
      -- which accepting path the breadth-first search finds first depends on the iteration order of the transition
      -- containers; the map of the result does not (all scanned start states, plus an empty entry for the final state found):
      -- `nfasCandidate_symsOf_raw`
      let V : NFAS := if nfaEq W.nfa M.toNFA then M else
        ⟨W.nfa, (nfasCandidateRaw A').startSyms ++
          ((W.final.filter (fun q => !smHas (nfasCandidateRaw A').startSyms q)).map (fun q => (q, [])))⟩
      pool' := pool ++ [some V]
    | "reidx" =>
      let A ← ent 1
      let W ← newView
      let mx ← getE ((kv res s!"mx{k}") >>= parseMap?) "bad mx"
      let fx := lookupFn mx
      let sA := statesOf A.toNFA
      if !sA.all (fun p => (mx.lookup p).isSome) then
        f := f ++ [s!"mismatch step {k} reidx: the translator's map after the call does not cover the states"]
      if !injOn fx sA then throw "precondition: reidx with a map that is not injective on the states"
      let ok ← getE (equivW W.nfa A.toNFA FUEL) "fuel"
      if !ok then f := f ++ [s!"violation step {k} reindex-language"]
      -- `C10_start_reindex_spec`
      for q in dedupL A.start do
        if !seteq (symsIn W.apiStarts (fx q)) (A.symsOf q) then
          f := f ++ [s!"violation step {k} ReindexStates: start state {q} showed {showSyms (A.symsOf q)}, its image {fx q} shows {showSyms (symsIn W.apiStarts (fx q))}"]
      pool' := pool ++ [some (nfasMap fx A)]
    | "rt" =>
      -- C13: dump → Timbuk text → load into a fresh automaton → read back under the original names: the same automaton with the
      -- same symbols, a start state without symbols comes back with the symbol `x` (`nfas_load_dump`)
      let A ← ent 1
      let W ← getE ((kv res s!"rt{k}") >>= parseView?) "missing reloaded view"
      let V := nfasLoad id (nfasDump id A)
      for d in viewConsistent W do f := f ++ [s!"violation step {k} reloaded automaton: {d}"]
      for d in viewDiff V W do f := f ++ [s!"violation step {k}: dump / load shows {d}"]
      for e in W.apiStarts do
        if !seteq e.2 (A.dumpSyms e.1) then
          f := f ++ [s!"violation step {k}: start state {e.1} with the symbols {showSyms (A.symsOf e.1)} is reloaded with {showSyms e.2}"]
      tags := tags ++ [s!"rtx={bchar (A.start.any (fun q => (A.symsOf q).isEmpty))}"]
    | _ => throw s!"unknown step {st}"
    -- after the step every live entry shows exactly the value the model holds for it
    for i in List.range pool'.length do
      match pool'[i]?.join, (← viewAt res k i) with
      | some V, some W =>
        for d in viewConsistent W do f := f ++ [s!"violation step {k} ({op}): entry {i}: {d}"]
        let ds := viewDiff V W
        -- an entry whose difference has been reported is not reported again (and not any more compared)
        if !ds.isEmpty && !bad.contains i then
          bad := bad ++ [i]
          let mutIx : Option Nat := if ["add", "final", "start", "estart", "assign", "massign"].contains op then (parts[1]? >>= String.toNat?) else none
          let changed := i < pool.length && (pool[i]?.join).isSome && mutIx != some i
          let cls := if changed then "violation" else "mismatch"
          f := f ++ [s!"{cls} step {k} ({op}): entry {i}: {" / ".intercalate ds}" ++
            (if changed then " (an object changed through an operation on another object)" else "")]
      | none, none => pure ()
      | some _, none => f := f ++ [s!"violation step {k}: live entry {i} not shown"]
      | none, some _ => throw "dead entry shown"
    if pool'.any (fun o => match o with | some V => hasStale V | none => false) then
      if !tags.contains "stale" then tags := tags ++ ["stale"]
    if pool'.any (fun o => match o with | some V => V.start.any (fun q => (V.symsOf q).isEmpty) | none => false) then
      if !tags.contains "nosyms" then tags := tags ++ ["nosyms"]
    go rest res (k + 1) pool' bad f tags

def check (args res : List String) : Except String (List String × String) := do
  let (f, tags) ← go args res 0 [] [] [] []
  pure (f, " ".intercalate tags)

end NfaStartChk
