import Vata.Parse
import Vata.MtbddOps
import Vata.RcStoreX
/-! # Driver side of MTBDD histories (`mth`): properties C17 (operations, canonicity) and C18 (node lifetime) -/
open Vata Vata.M

namespace MtHist

def NQ : Nat := 6

def getE (o : Option α) (msg : String) : Except String α :=
  match o with
  | some a => pure a
  | none => throw msg

def op1 (op : Nat) (x : Int) : Int :=
  match op with
  | 0 => (x * x).tmod 7
  | 1 => 9 - x
  | 2 => x.tmod 2
  | _ => 3

def op2 (op : Nat) (x y : Int) : Int :=
  match op with
  | 0 => x + y
  | 1 => (x * y).tmod 11
  | 2 => max x y
  | 3 => min x y
  | _ => x

def op3 (op : Nat) (x y z : Int) : Int :=
  match op with
  | 0 => if x.tmod 2 == 0 then y else z
  | 1 => x + 2 * y + 3 * z
  | 2 => max x (min y z)
  | _ => y

def parseAsgn? (s : String) : Option (List (Option Bool)) :=
  s.toList.mapM (fun c => if c == '0' then some (some false) else if c == '1' then some (some true)
    else if c == 'X' then some none else none)

def showAsgn (a : List (Option Bool)) : String :=
  String.ofList (a.map (fun o => match o with | some true => '1' | some false => '0' | none => 'X'))

/-- values on all total assignments of `NQ` variables (variable `i` = bit `i` of the counter) -/
def valuesOf (a : Node Int) : List Int :=
  (List.range (2 ^ NQ)).map (fun n => eval a (fun i => n.testBit i))

def subterms : Node Int → List (Node Int)
  | .leaf v => [.leaf v]
  | .node x lo hi => .node x lo hi :: (subterms lo ++ subterms hi)

def dedupNodes (l : List (Node Int)) : List (Node Int) :=
  l.foldl (fun acc n => if acc.contains n then acc else acc ++ [n]) []

def isLeaf : Node Int → Bool
  | .leaf _ => true
  | _ => false

/-- what the two unique tables must contain: exactly the nodes reachable from the live handles -/
def tableSizes (live : List (Node Int)) : Nat × Nat :=
  let all := dedupNodes (live.flatMap subterms)
  ((all.filter isLeaf).length, (all.filter (fun n => !isLeaf n)).length)

def parseInts? (s : String) : Option (List Int) := (splitC s ',').mapM String.toInt?

def parsePair? (s : String) : Option (Nat × Nat) :=
  match s.splitOn "," with
  | [a, b] => do pure ((← a.toNat?), (← b.toNat?))
  | _ => none

abbrev Ent := Node Int × Int     -- root, default value

/-! the STORE-level model (`Vata/RcStoreX.lean`: reference counts, the two unique tables, `defaultValue_` per handle; theorems
`C18_ext_*`, `C18_relative_release`, `C17_store_*`) runs beside the tree-level one.  Leaves of the store model are `Nat`: the
harness' `int` leaves are coded by the zig-zag bijection, the leaf operations are conjugated with it (the store only ever
compares leaves for equality). -/
def encZ (x : Int) : Nat := if x ≥ 0 then 2 * x.toNat else 2 * (-x).toNat - 1
def decZ (n : Nat) : Int := if n % 2 == 0 then Int.ofNat (n / 2) else - Int.ofNat ((n + 1) / 2)

def fnsOf (o1 o2 o3 : Nat) : Vata.RcSX.Fns :=
  ⟨fun a => encZ (op1 o1 (decZ a)), fun a b => encZ (op2 o2 (decZ a) (decZ b)), fun a b c => encZ (op3 o3 (decZ a) (decZ b) (decZ c))⟩

def stepsX (x : Vata.RcSX.XStore) (F : Vata.RcSX.Fns) (ops : List Vata.RcSX.Op) : Vata.RcSX.XStore := ops.foldl (Vata.RcSX.stepX F) x

/-- values of handle `h` of the store model on all total assignments of `NQ` variables -/
def valuesX (x : Vata.RcSX.XStore) (h : Nat) : Option (List Int) :=
  (Vata.RcS.find h x.st.hs).map (fun r => (List.range (2 ^ NQ)).map (fun n => decZ (Vata.RcS.denote x.st r (fun i => n.testBit i))))

partial def go (rc : Bool) (steps res : List String) (k : Nat) (pool : List (Option Ent)) (base : Nat × Nat) (f : List String)
    (xs : Vata.RcSX.XStore := Vata.RcSX.xempty) (leaky : Bool := false) : Except String (List String) :=
  match steps with
  | [] => pure f
  | st :: rest => do
    let parts := st.splitOn "!"
    let op := parts[0]!
    let argN (i : Nat) : Except String Nat := getE (parts[i]? >>= String.toNat?) s!"bad step {st}"
    let argA (i : Nat) : Except String (List (Option Bool)) := getE (parts[i]? >>= parseAsgn?) s!"bad assignment in {st}"
    let ent (i : Nat) : Except String Ent := do
      let ix ← argN i
      getE ((pool[ix]?).join) s!"dead entry in {st}"
    let mut f := f
    let mut pool' := pool
    let mut xs' := xs
    let mut leaky' := leaky
    let nw := pool.length          -- the handle name of a new pool entry in the store model
    let f0 := fnsOf 0 0 0
    match op with
    | "con" =>
      let a ← argA 1; let v ← argN 2; let d ← argN 3
      pool' := pool ++ [some (construct a (Int.ofNat v) (Int.ofNat d), Int.ofNat d)]
      xs' := stepsX xs f0 [.construct nw a (encZ (Int.ofNat v)) (encZ (Int.ofNat d))]
    | "leaf" =>
      let v ← argN 1; pool' := pool ++ [some (.leaf (Int.ofNat v), Int.ofNat v)]
      xs' := stepsX xs f0 [.construct nw [] (encZ (Int.ofNat v)) (encZ (Int.ofNat v))]
    | "copy" => pool' := pool ++ [some (← ent 1)]; xs' := stepsX xs f0 [.copy (← argN 1) nw]
    | "assign" =>
      let ix ← argN 1; let _ ← ent 1; pool' := pool.set ix (some (← ent 2))
      xs' := stepsX xs f0 [.assign (← argN 2) ix]
    | "selfassign" => let _ ← ent 1; xs' := stepsX xs f0 [.assign (← argN 1) (← argN 1)]
    | "kill" => let ix ← argN 1; let _ ← ent 1; pool' := pool.set ix none; xs' := stepsX xs f0 [.destroy ix]
    | "burst" => let _ ← ent 1; pure ()      -- n copies created and destroyed again: no observable change
    | "ap1" =>
      let (a, d) ← ent 1; let o ← argN 2
      pool' := pool ++ [some (apply1 (op1 o) a, op1 o d)]
      xs' := stepsX xs (fnsOf o 0 0) [.apply1 (← argN 1) nw]
    | "ap2" =>
      let (a, d) ← ent 1; let (b, e) ← ent 2; let o ← argN 3
      pool' := pool ++ [some (apply2 (op2 o) a b, op2 o d e)]
      xs' := stepsX xs (fnsOf 0 o 0) [.apply (← argN 1) (← argN 2) nw]
    | "ap2to" =>
      let ix ← argN 1
      let (a, d) ← ent 1; let (b, e) ← ent 2; let o ← argN 3
      pool' := pool.set ix (some (apply2 (op2 o) a b, op2 o d e))
      -- `x = fn(x, y)`: a temporary, copy-assignment, destruction of the temporary
      xs' := stepsX xs (fnsOf 0 o 0) [.apply ix (← argN 2) (1000000 + k), .assign (1000000 + k) ix, .destroy (1000000 + k)]
    | "ap3" =>
      let (a, d) ← ent 1; let (b, e) ← ent 2; let (c, g) ← ent 3; let o ← argN 4
      pool' := pool ++ [some (apply3 (op3 o) a b c, op3 o d e g)]
      xs' := stepsX xs (fnsOf 0 0 o) [.apply3 (← argN 1) (← argN 2) (← argN 3) nw]
    | "proj" =>
      let (a, d) ← ent 1; let mask ← argN 2; let o ← argN 3
      pool' := pool ++ [some (project (fun x => mask.testBit x) (op2 o) a, d)]
      xs' := stepsX xs (fnsOf 0 o 0) [.project (← argN 1) nw ((List.range 64).filter (fun x => mask.testBit x))]
      leaky' := true      -- `Project` leaves count-0 nodes in the unique tables (`C18_ext_project_leaks`): sizes are not compared afterwards
    | "ren" =>
      let (a, d) ← ent 1; let off ← argN 2
      pool' := pool ++ [some (rename (fun x => x + off) a, d)]
      xs' := stepsX xs f0 [.rename (← argN 1) nw ((List.range 64).map (· + off))]
    | "ext" =>
      let (a, d) ← ent 1; let asg ← argA 2; let off ← argN 3
      pool' := pool ++ [some (extendWith asg off a d, d)]
      xs' := stepsX xs f0 [.extendWith (← argN 1) nw asg off]
    | "pre" =>
      let (a, d) ← ent 1; let asg ← argA 2; let off ← argN 3
      pool' := pool ++ [some (getPrefix asg off a, d)]
      xs' := stepsX xs f0 [.getPrefix (← argN 1) nw asg off]
    | "paths" =>
      let (a, _) ← ent 1
      let got ← getE (kv res s!"paths{k}") "missing paths"
      let exp := (getPaths a).map (fun p => s!"{showAsgn p.1}={p.2}")
      let gl := if got == "-" then [] else got.splitOn ";"
      if !(gl.all (fun x => exp.contains x) && exp.all (fun x => gl.contains x) && gl.length == exp.length) then
        f := f ++ [s!"violation step {k} GetPaths={gl} model={exp}"]
    | "getv" =>
      let (a, _) ← ent 1; let q ← argA 2
      let got ← getE ((kv res s!"getv{k}") >>= String.toInt?) "missing getv"
      if got != getValue a q then f := f ++ [s!"violation step {k} GetValue({showAsgn q})={got} model={getValue a q}"]
    | _ => throw s!"unknown step {st}"
    -- the store-level model: no internal error, the same values through every live handle, the same unique-table sizes
    if xs'.st.err then f := f ++ [s!"mismatch step {k} ({op}): the store model reports an internal error (fuel / dangling)"]
    -- after the step: values of every live diagram on all assignments, equality matrix, table sizes
    let liveIx := (List.range pool'.length).filter (fun i => (pool'[i]?.join).isSome)
    for i in liveIx do
      match pool'[i]?.join with
      | some (a, _) =>
        let got ← getE ((kv res s!"{k}.{i}") >>= parseInts?) s!"missing values {k}.{i}"
        if got != valuesOf a then
          f := f ++ [s!"violation step {k} ({op}): diagram {i} denotes {got.take 16}… but its value is {(valuesOf a).take 16}… (pointwise)"]
        else if valuesX xs' i != some got then
          f := f ++ [s!"mismatch step {k} ({op}): diagram {i}: the store model denotes {((valuesX xs' i).getD []).take 16}…, the implementation {got.take 16}…"]
      | none => pure ()
    let roots := liveIx.filterMap (fun i => (pool'[i]?.join).map (·.1))
    let eq ← getE (kv res s!"eq{k}") "missing eq"
    let expEq := String.ofList (roots.flatMap (fun a => roots.map (fun b => if a = b then '1' else '0')))
    if (if roots.isEmpty then eq != "-" else eq != expEq) then
      f := f ++ [s!"violation step {k} ({op}): operator== matrix {eq} but equality of denoted functions gives {expEq}"]
    let sz ← getE ((kv res s!"sz{k}") >>= parsePair?) "missing sizes"
    let exp := tableSizes roots
    if rc && (sz.1 != base.1 + exp.1 || sz.2 != base.2 + exp.2) then
      f := f ++ [s!"violation step {k} ({op}): unique tables hold {sz.1 - base.1} leaves / {sz.2 - base.2} internal nodes, the live diagrams reach {exp.1} / {exp.2}"]
    let szx := Vata.RcS.tableSizes xs'.st
    if rc && !leaky' && (sz.1 != base.1 + szx.1 || sz.2 != base.2 + szx.2) then
      f := f ++ [s!"mismatch step {k} ({op}): unique tables hold {sz.1 - base.1} / {sz.2 - base.2} nodes, the store model {szx.1} / {szx.2}"]
    if xs'.st.hs.length != liveIx.length then
      f := f ++ [s!"mismatch step {k} ({op}): the store model has {xs'.st.hs.length} live handles, the history {liveIx.length}"]
    go rc rest res (k + 1) pool' base f xs' leaky'

def check (rc : Bool) (args res : List String) : Except String (List String × String) := do
  let base ← getE ((kv res "base") >>= parsePair?) "missing base"
  let f ← go rc args res 0 [] base []
  let fin ← getE ((kv res "end") >>= parsePair?) "missing end"
  let f := if rc && fin != base then f ++ [s!"violation all-released: tables {fin} after destroying every handle, {base} before"] else f
  let nap := (args.filter (fun s => s.startsWith "ap")).length
  pure (f, s!"steps={args.length} applies={nap}")

end MtHist
