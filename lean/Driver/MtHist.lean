import Vata.Parse
import Vata.MtbddOps
/-! # Driver side of MTBDD histories (`mth`): properties C17 (operations, canonicity) and C18 (node lifetime) -/
open Vata Vata.M

namespace MtHist

def NQ : Nat := 6

def getE (o : Option α) (msg : String) : Except String α :=
  match o with
  | some a => pure a
  | none => throw msg

def op1 (op : Nat) (x : Int) : Int :=
  match op with
  | 0 => (x * x).tmod 7
  | 1 => 9 - x
  | 2 => x.tmod 2
  | _ => 3

def op2 (op : Nat) (x y : Int) : Int :=
  match op with
  | 0 => x + y
  | 1 => (x * y).tmod 11
  | 2 => max x y
  | 3 => min x y
  | _ => x

def op3 (op : Nat) (x y z : Int) : Int :=
  match op with
  | 0 => if x.tmod 2 == 0 then y else z
  | 1 => x + 2 * y + 3 * z
  | 2 => max x (min y z)
  | _ => y

def parseAsgn? (s : String) : Option (List (Option Bool)) :=
  s.toList.mapM (fun c => if c == '0' then some (some false) else if c == '1' then some (some true)
    else if c == 'X' then some none else none)

def showAsgn (a : List (Option Bool)) : String :=
  String.ofList (a.map (fun o => match o with | some true => '1' | some false => '0' | none => 'X'))

/-- values on all total assignments of `NQ` variables (variable `i` = bit `i` of the counter) -/
def valuesOf (a : Node Int) : List Int :=
  (List.range (2 ^ NQ)).map (fun n => eval a (fun i => n.testBit i))

def subterms : Node Int → List (Node Int)
  | .leaf v => [.leaf v]
  | .node x lo hi => .node x lo hi :: (subterms lo ++ subterms hi)

def dedupNodes (l : List (Node Int)) : List (Node Int) :=
  l.foldl (fun acc n => if acc.contains n then acc else acc ++ [n]) []

def isLeaf : Node Int → Bool
  | .leaf _ => true
  | _ => false

/-- what the two unique tables must contain: exactly the nodes reachable from the live handles -/
def tableSizes (live : List (Node Int)) : Nat × Nat :=
  let all := dedupNodes (live.flatMap subterms)
  ((all.filter isLeaf).length, (all.filter (fun n => !isLeaf n)).length)

def parseInts? (s : String) : Option (List Int) := (splitC s ',').mapM String.toInt?

def parsePair? (s : String) : Option (Nat × Nat) :=
  match s.splitOn "," with
  | [a, b] => do pure ((← a.toNat?), (← b.toNat?))
  | _ => none

abbrev Ent := Node Int × Int     -- root, default value

partial def go (rc : Bool) (steps res : List String) (k : Nat) (pool : List (Option Ent)) (base : Nat × Nat) (f : List String)
    : Except String (List String) :=
  match steps with
  | [] => pure f
  | st :: rest => do
    let parts := st.splitOn "!"
    let op := parts[0]!
    let argN (i : Nat) : Except String Nat := getE (parts[i]? >>= String.toNat?) s!"bad step {st}"
    let argA (i : Nat) : Except String (List (Option Bool)) := getE (parts[i]? >>= parseAsgn?) s!"bad assignment in {st}"
    let ent (i : Nat) : Except String Ent := do
      let ix ← argN i
      getE ((pool[ix]?).join) s!"dead entry in {st}"
    let mut f := f
    let mut pool' := pool
    match op with
    | "con" =>
      let a ← argA 1; let v ← argN 2; let d ← argN 3
      pool' := pool ++ [some (construct a (Int.ofNat v) (Int.ofNat d), Int.ofNat d)]
    | "leaf" => let v ← argN 1; pool' := pool ++ [some (.leaf (Int.ofNat v), Int.ofNat v)]
    | "copy" => pool' := pool ++ [some (← ent 1)]
    | "assign" => let ix ← argN 1; let _ ← ent 1; pool' := pool.set ix (some (← ent 2))
    | "selfassign" => let _ ← ent 1; pure ()
    | "kill" => let ix ← argN 1; let _ ← ent 1; pool' := pool.set ix none
    | "ap1" =>
      let (a, d) ← ent 1; let o ← argN 2
      pool' := pool ++ [some (apply1 (op1 o) a, op1 o d)]
    | "ap2" =>
      let (a, d) ← ent 1; let (b, e) ← ent 2; let o ← argN 3
      pool' := pool ++ [some (apply2 (op2 o) a b, op2 o d e)]
    | "ap2to" =>
      let ix ← argN 1
      let (a, d) ← ent 1; let (b, e) ← ent 2; let o ← argN 3
      pool' := pool.set ix (some (apply2 (op2 o) a b, op2 o d e))
    | "ap3" =>
      let (a, d) ← ent 1; let (b, e) ← ent 2; let (c, g) ← ent 3; let o ← argN 4
      pool' := pool ++ [some (apply3 (op3 o) a b c, op3 o d e g)]
    | "proj" =>
      let (a, d) ← ent 1; let mask ← argN 2; let o ← argN 3
      pool' := pool ++ [some (project (fun x => mask.testBit x) (op2 o) a, d)]
    | "ren" =>
      let (a, d) ← ent 1; let off ← argN 2
      pool' := pool ++ [some (rename (fun x => x + off) a, d)]
    | "ext" =>
      let (a, d) ← ent 1; let asg ← argA 2; let off ← argN 3
      pool' := pool ++ [some (extendWith asg off a d, d)]
    | "pre" =>
      let (a, d) ← ent 1; let asg ← argA 2; let off ← argN 3
      pool' := pool ++ [some (getPrefix asg off a, d)]
    | "paths" =>
      let (a, _) ← ent 1
      let got ← getE (kv res s!"paths{k}") "missing paths"
      let exp := (getPaths a).map (fun p => s!"{showAsgn p.1}={p.2}")
      let gl := if got == "-" then [] else got.splitOn ";"
      if !(gl.all (fun x => exp.contains x) && exp.all (fun x => gl.contains x) && gl.length == exp.length) then
        f := f ++ [s!"violation step {k} GetPaths={gl} model={exp}"]
    | "getv" =>
      let (a, _) ← ent 1; let q ← argA 2
      let got ← getE ((kv res s!"getv{k}") >>= String.toInt?) "missing getv"
      if got != getValue a q then f := f ++ [s!"violation step {k} GetValue({showAsgn q})={got} model={getValue a q}"]
    | _ => throw s!"unknown step {st}"
    -- after the step: values of every live diagram on all assignments, equality matrix, table sizes
    let liveIx := (List.range pool'.length).filter (fun i => (pool'[i]?.join).isSome)
    for i in liveIx do
      match pool'[i]?.join with
      | some (a, _) =>
        let got ← getE ((kv res s!"{k}.{i}") >>= parseInts?) s!"missing values {k}.{i}"
        if got != valuesOf a then
          f := f ++ [s!"violation step {k} ({op}): diagram {i} denotes {got.take 16}… but its value is {(valuesOf a).take 16}… (pointwise)"]
      | none => pure ()
    let roots := liveIx.filterMap (fun i => (pool'[i]?.join).map (·.1))
    let eq ← getE (kv res s!"eq{k}") "missing eq"
    let expEq := String.ofList (roots.flatMap (fun a => roots.map (fun b => if a = b then '1' else '0')))
    if (if roots.isEmpty then eq != "-" else eq != expEq) then
      f := f ++ [s!"violation step {k} ({op}): operator== matrix {eq} but equality of denoted functions gives {expEq}"]
    let sz ← getE ((kv res s!"sz{k}") >>= parsePair?) "missing sizes"
    let exp := tableSizes roots
    if rc && (sz.1 != base.1 + exp.1 || sz.2 != base.2 + exp.2) then
      f := f ++ [s!"violation step {k} ({op}): unique tables hold {sz.1 - base.1} leaves / {sz.2 - base.2} internal nodes, the live diagrams reach {exp.1} / {exp.2}"]
    go rc rest res (k + 1) pool' base f

def check (rc : Bool) (args res : List String) : Except String (List String × String) := do
  let base ← getE ((kv res "base") >>= parsePair?) "missing base"
  let f ← go rc args res 0 [] base []
  let fin ← getE ((kv res "end") >>= parsePair?) "missing end"
  let f := if rc && fin != base then f ++ [s!"violation all-released: tables {fin} after destroying every handle, {base} before"] else f
  let nap := (args.filter (fun s => s.startsWith "ap")).length
  pure (f, s!"steps={args.length} applies={nap}")

end MtHist
