import Vata.Parse
import Vata.LtsEngine
import Vata.LtsEngineCalls
import Vata.Proofs.LtsUtilSS
/-!
# Driver side of the LTS engine check (kind `lts`, property C16) against the engine MODEL

`check args res` has the same arguments as `checkLts` of `Driver/Main.lean` (`n edges partition relation outSize
overload` / `size=… rel=…`).  It runs `Vata.LE.computeSimulation` (the model of `SimulationEngine`) and compares its
result with the relation the real class returned, as sets of pairs.  Unlike the comparison with `ltsSimOut` it makes
sense for every reflexive block relation, transitive or not (the model follows the code there, too).

* `mismatch lts-engine-model …`    the C++ output differs from the model's output (fidelity of the model);
* `violation lts-engine-none`      the model ran out of its fuel although the preconditions of `engine_total` hold.

NOT wired into `dispatch`; to use it, call it from `checkLts` (e.g. `f := f ++ (← LtsEngineChk.check args res).1`).
-/
open Vata

namespace LtsEngineChk

def getE (o : Option α) (msg : String) : Except String α :=
  match o with
  | some a => pure a
  | none => throw msg

def bchar (b : Bool) : Char := if b then '1' else '0'

def check (args res : List String) : Except String (List String × String) := do
  let n ← getE (args[0]? >>= String.toNat?) "bad n"
  let edges ← getE (args[1]? >>= (fun s => if s == "-" then some [] else (splitC s ';').mapM (fun e =>
    match e.splitOn "," with
    | [a, b, c] => do pure ((← a.toNat?), (← b.toNat?), (← c.toNat?))
    | _ => none))) "bad edges"
  let outSize ← getE (args[4]? >>= String.toNat?) "bad output size"
  let overload ← getE (args[5]? >>= String.toNat?) "bad overload"
  let L : Vata.L.LTS := ⟨n, edges⟩
  if !(edges.all (fun e => e.1 < n && e.2.2 < n)) then throw "precondition: edge outside 0..n-1"
  let (model, trans) ← (if overload == 0 then do
      let blocks ← getE (args[2]? >>= (fun s => (splitC s '/').mapM (fun b => natList? b ','))) "bad partition"
      let brel ← getE (args[3]? >>= parseRel?) "bad block relation"
      if !Vata.LE.isPartition blocks n then throw "precondition: not a partition of the states into non-empty blocks"
      if !Vata.LE.isConsistent blocks brel then throw "precondition: block relation not reflexive"
      let tr := brel.all (fun p => brel.all (fun p' => p.2 != p'.1 || brel.contains (p.1, p'.2)))
      pure (Vata.LE.computeSimulation L blocks brel outSize, tr)
    else if overload == 1 then pure (Vata.LE.computeSimulation1 L outSize, true)
    else pure (Vata.LE.computeSimulation0 L, true) : Except String (Option Vata.L.Rel × Bool))
  let rel ← getE ((kv res "rel") >>= parseRel?) "bad rel"
  let e0 := if overload == 0 then none else some (Vata.LE.engineInit L [List.range n] [(0, 0)])
  let busy := match e0 with | some e => !e.queue.isEmpty | none => false
  match model with
  | none =>
    pure ([if trans then "violation lts-engine-none: the model ran out of fuel"
           else "mismatch lts-engine-none: the model ran out of fuel (block relation not transitive)"],
          s!"trans={bchar trans}")
  | some R =>
    let extra := rel.filter (fun p => !R.contains p)
    let missing := R.filter (fun p => !rel.contains p)
    let f := if extra.isEmpty && missing.isEmpty then []
      else [s!"mismatch lts-engine-model: C++ and model differ: only C++={extra} only model={missing}"]
    -- the INSTRUMENTED engine (`Vata/LtsEngineCalls.lean`): same result (`C16_trace_erasure`), and the histories of helper-class calls it
    -- emits lie inside the call disciplines of the class models (`C16_engine_discipline_partial` proves this for `SmartSet` under `DeltaOK L`,
    -- which is evaluated here on the input itself; for `SplittingRelation` the check on the input is all there is)
    let mut f := f
    let mut disc := "-"
    if overload == 0 && trans && n ≤ 12 then
      let blocks ← getE (args[2]? >>= (fun s => (splitC s '/').mapM (fun b => natList? b ','))) "bad partition"
      let brel ← getE (args[3]? >>= parseRel?) "bad block relation"
      match Vata.LEC.computeSimulationI L blocks brel outSize with
      | some (R', t) =>
        if !(R'.all (fun p => R.contains p) && R.all (fun p => R'.contains p)) then f := f ++ ["mismatch instrumented engine result differs from the engine model"]
        if !Vata.LU.SS.okAll [] t.ss then f := f ++ ["mismatch SmartSet call history of the engine model leaves the class discipline"]
        disc := "1"
      | none => f := f ++ ["mismatch instrumented engine returned none"]
    pure (f, s!"trans={bchar trans} busy={bchar busy} discipline={disc}")

end LtsEngineChk
