import Vata.Parse
/-! # Driver side of the metamorphic / law check (`meta`): property C19 -/
open Vata

namespace MetaChk

def FUEL : Nat := 1000000

def getE (o : Option α) (msg : String) : Except String α :=
  match o with
  | some a => pure a
  | none => throw msg

def selNames : List String := ["up", "up+sim", "down-nonrec", "down-nonrec+sim", "down-rec", "down-rec+sim", "down-rec-opt", "down-rec-opt+sim"]

/-- the verdict all returned answers agree on (none when nothing returned) and the disagreements -/
def agree (tag : String) (v : String) : Option Char × List String :=
  let cs := v.toList.zip selNames
  let answered := cs.filter (fun p => p.1 == '0' || p.1 == '1')
  let bad := cs.filter (fun p => p.1 != '0' && p.1 != '1' && p.1 != 'T')
  let f1 := bad.map (fun p => s!"violation {tag}: selection {p.2} answered {p.1}")
  match answered with
  | [] => (none, f1)
  | (c, _) :: _ =>
    let dis := answered.filter (fun p => p.1 != c)
    (some c, f1 ++ dis.map (fun p => s!"violation {tag}: selections disagree: {p.2}={p.1} but {(answered.head!).2}={c}"))

def halves (s : String) : Option (String × String) :=
  match s.splitOn "/" with
  | [a, b] => some (a, b)
  | _ => none

def check (args res : List String) : Except String (List String × String) := do
  let v ← getE (kv res "v") "missing v"
  let vt ← getE (kv res "vt") "missing vt"
  let mut f : List String := []
  let (c1, f1) := agree "pair" v
  let (c2, f2) := agree "renamed / reordered twin pair" vt
  f := f ++ f1 ++ f2
  match c1, c2 with
  | some a, some b => if a != b then f := f ++ [s!"violation inclusion verdict changes under renaming / reordering: {a} vs {b}"]
  | _, _ => pure ()
  -- expected verdict shipped with the repository (tests/aut_timbuk_smaller_incl.txt), when given
  match args[3]? with
  | some e =>
    match c1 with
    | some a => if e.length == 1 && a.toString != e then f := f ++ [s!"violation verdict {a} differs from the shipped expected verdict {e}"]
    | none => pure ()
  | none => pure ()
  -- small generated operands: the proved reference
  let isTok (s : String) := !(s.startsWith "@")
  match args[0]?, args[1]? with
  | some sa, some sb =>
    if isTok sa && isTok sb then
      let A ← getE (parseTA? sa) "bad A"
      let B ← getE (parseTA? sb) "bad B"
      let exp ← getE (inclM A B FUEL) "fuel"
      match c1 with
      | some a => if a != (if exp then '1' else '0') then f := f ++ [s!"violation verdict {a} differs from the proved reference"]
      | none => pure ()
  | _, _ => pure ()
  -- emptiness, simulations, sizes: equal for the automaton and its twin
  let e ← getE (kv res "e") "missing e"
  if e.length == 2 && e.toList[0]! != e.toList[1]! then f := f ++ [s!"violation emptiness verdict changes under renaming: {e}"]
  if e == "E" || e == "C" then f := f ++ [s!"violation IsLangEmpty failed: {e}"]
  for (key, what) in [("sd", "downward simulation is not mapped to its renamed image"),
      ("su", "upward simulation is not mapped to its renamed image"),
      ("red", "number of states after Reduce changes under renaming"),
      ("trim", "number of states after trimming changes under renaming")] do
    let s ← getE (kv res key) s!"missing {key}"
    if s == "E" || s == "C" then f := f ++ [s!"violation {key} computation failed: {s}"]
    match halves s with
    | some (a, b) => if a != b then f := f ++ [s!"violation {what}: {a} vs {b}"]
    | none => pure ()
  -- the laws of inclusion
  let lawNames := ["A ⊆ A", "A ⊆ A∪B", "B ⊆ A∪B", "A∩B ⊆ A", "A∩B ⊆ B", "A∩B ⊆ A∪B (transitivity)", "A ⊆ A∩B iff A ⊆ B",
    "A∪B ⊆ B iff A ⊆ B", "A ⊆ Reduce A", "Reduce A ⊆ A", "A ⊆ RemoveUseless A", "RemoveUseless A ⊆ A",
    "A ⊆ RemoveUnreachable A", "RemoveUnreachable A ⊆ A", "-", "A ⊆ reindexed A", "reindexed A ⊆ A"]
  let mut nlaw := 0
  for w in ["0", "16", "30"] do
    let l ← getE (kv res s!"law{w}") s!"missing law{w}"
    for ((c, n), i) in (l.toList.zip lawNames).zip (List.range 17) do
      if c == 'T' || c == '-' then continue
      nlaw := nlaw + 1
      if c != '0' && c != '1' then f := f ++ [s!"violation law [{n}] with option word {w}: answered {c}"]
      else if i == 6 || i == 7 then
        match c1 with
        | some a => if c != a then f := f ++ [s!"violation law [{n}] with option word {w}: {c} but A ⊆ B is {a}"]
        | none => pure ()
      else if c != '1' then f := f ++ [s!"violation law [{n}] broken with option word {w}"]
  let overrun := (v ++ vt).toList.filter (· == 'T') |>.length
  let nA := (kv res "nA").getD "?"
  pure (f, s!"verdict={c1.getD '?'} overrun={overrun} laws={nlaw} nA={nA}")

end MetaChk
