import Vata.Parse
import Vata.BddShare
/-!
# Driver side of the sharing model of the BDD automata (`Vata/BddShare.lean`, property C08)

`precondition enc steps` replays a `bddh` history (step grammar of `Driver/BddChk.lean`, `go`) WITHOUT the answers of the
library and fails when a step may be outside the precondition `Vata.BddShare.pre` (clauses T, A, H, S, L; sufficiency and
necessity: `Vata/Proofs/BddShare.lean`).  Which numbers the library hands out depends on hash orders, so the replay is an
abstract interpretation of the sharing model:

* the sharing structure (which entry points to which table, use counts, copy-on-write of `loadinto`) is replayed EXACTLY – it
  depends on the steps only;
* state numbers are tracked as SETS: a table is a list of *spans* (each span is the set of numbers of one origin: a `def` at
  step `k` has the span `{100k, …, 100k+n-1}`, `n` = number of states; `defo` / `loadinto` `{0, …, n-1}`; a fresh `Union`
  `{0, …, m-1}`, `m` = number of states of both operands; `Intersection` at most `{0, …, |S₁|·|S₂|-1}`; the trimmings a subset
  of the operand's numbers); an entry has the spans of its own leaf rules (bottom-up; tagged with the step that created
  them: equal tags = equal leaf rules) and an over-approximation of its final states (all numbers of its origin, plus the
  exact numbers of `final!i!q`);
* clauses T, A, H, L are disjointness conditions, checked on the over-approximations; clause S (bottom-up, two entries on one
  table) is checked with the upward closure computed on spans (a span of the table that meets the closure is added whole).

So `precondition` never accepts a history that `pre` rejects on the numbers the library really uses (argued, not proved in
Lean; `check` below cross-checks it against the exact precondition evaluated on the dumps), and it may reject a harmless one.

`preconditionExact enc steps res` evaluates the proved `Vata.BddShare.pre` itself: the sharing structure is replayed, the
rules and final states of every entry before a step are read from the dumps of the previous step.

`check` (kind `bddpre`: arguments and result line of a `bddh` case) also runs the model's `step` on that state and compares
its prediction for EVERY live entry with the dumps after the step – a correspondence check of the sharing model itself.
Self-test (`tools/run_bddpre.sh`, real library /repo 222cfd8a): 23 000 histories of `g_bddh` – all inside the exact `pre`, the
replay from the steps alone rejects 1 of them (conservative), no difference between model and library; 14 000 unrestricted
histories (`tools/gen_bddwild.py`; 13 574 in-place writes, 13 316 shared-table results, 2 389 copy-on-write loads) – no
history accepted by the replay and rejected by the exact `pre`, 202 rejected by the replay only; model and library differ in
32 histories, all outside `pre`, all at an in-place `uniondisj` where the library deleted MORE rules than the model (entries
with empty MTBDDs replace too: not visible in a list of rules).
-/
open Vata

namespace BddShareChk

open Vata.BddShare (Enc)

def getE (o : Option α) (msg : String) : Except String α :=
  match o with
  | some a => pure a
  | none => throw msg

def encOf (s : String) : Except String Enc :=
  if s == "bu" then pure .bu else if s == "td" then pure .td else throw s!"bad encoding {s}"

/-! ## the abstract replay -/

/-- an entry: table id, spans of its own leaf rules tagged by origin, over-approximated final states -/
structure AHnd where
  tid : Nat
  nul : List (Nat × List Nat)
  fin : List Nat

structure ASt where
  /-- table id ↦ spans of the origins whose rules are in the table -/
  tabs : List (Nat × List (List Nat))
  next : Nat
  pool : List (Option AHnd)

def uni (a b : List Nat) : List Nat := b.foldl (fun acc x => if acc.contains x then acc else acc ++ [x]) a
def inter (a b : List Nat) : List Nat := a.filter (fun x => b.contains x)
def flat (ss : List (List Nat)) : List Nat := ss.foldl uni []
def interval (lo n : Nat) : List Nat := (List.range n).map (· + lo)

def ASt.spans (σ : ASt) (t : Nat) : List (List Nat) := (σ.tabs.lookup t).getD []
def ASt.setSpans (σ : ASt) (t : Nat) (ss : List (List Nat)) : ASt :=
  { σ with tabs := (t, ss) :: σ.tabs.filter (fun e => e.1 != t) }
def ASt.refs (σ : ASt) (t : Nat) : Nat := (σ.pool.filter (fun o => match o with | some h => h.tid == t | none => false)).length
def ASt.hnd (σ : ASt) (k : Nat) : Option AHnd := (σ.pool[k]?).join
/-- drop the tables without an owner (only to keep the state small) -/
def ASt.gc (σ : ASt) : ASt := { σ with tabs := σ.tabs.filter (fun e => σ.refs e.1 != 0) }

/-- all numbers an entry may mention: its table (everything in it), its leaf rules, its final states -/
def ASt.states (σ : ASt) (h : AHnd) : List Nat := uni (uni (flat (σ.spans h.tid)) (flat (h.nul.map (·.2)))) h.fin

/-- a new entry on a fresh table whose numbers are in `span` -/
def ASt.fresh (σ : ASt) (enc : Enc) (k : Nat) (span fin : List Nat) : ASt :=
  { tabs := (σ.next, [span]) :: σ.tabs, next := σ.next + 1,
    pool := σ.pool ++ [some ⟨σ.next, if enc == .bu then [(k, span)] else [], fin⟩] }

/-- upward closure on spans: every span of the table that meets the set is added whole -/
def absClose (spans : List (List Nat)) : Nat → List Nat → List Nat
  | 0, X => X
  | n + 1, X => absClose spans n (spans.foldl (fun acc s => if inter s acc != [] then uni acc s else acc) X)

/-- clause S on spans: the leaf-rule origins `hj` has and `hi` lacks must not reach a final state of `hi` -/
def sSide (σ : ASt) (hi hj : AHnd) : List Nat :=
  let d := hj.nul.filter (fun a => !(hi.nul.any (fun b => b.1 == a.1)))
  let sp := σ.spans hi.tid
  inter hi.fin (absClose sp (sp.length + 1) (flat (d.map (·.2))))

def showL (l : List Nat) : String := ",".intercalate ((l.take 6).map toString) ++ (if l.length > 6 then ",…" else "")

def sharedPre (σ : ASt) (where_ : String) (hi hj : AHnd) : Except String Unit := do
  let c1 := sSide σ hi hj
  if c1 != [] then
    throw s!"{where_}: clause S: leaf rules only the right operand has can reach the final state(s) {showL c1} of the left operand (one table, different leaf rules)"
  let c2 := sSide σ hj hi
  if c2 != [] then
    throw s!"{where_}: clause S: leaf rules only the left operand has can reach the final state(s) {showL c2} of the right operand (one table, different leaf rules)"

def shared (σ : ASt) (hi hj : AHnd) : ASt :=
  { σ with pool := σ.pool ++ [some ⟨hi.tid, hi.nul ++ hj.nul.filter (fun a => !(hi.nul.any (fun b => b.1 == a.1))), uni hi.fin hj.fin⟩] }

def astep (enc : Enc) (k : Nat) (st : String) (σ : ASt) : Except String ASt := do
  let parts := st.splitOn "!"
  let op := parts[0]!
  let where_ := s!"precondition: step {k} ({if st.length > 40 then op ++ "!…" else st})"
  let argN (i : Nat) : Except String Nat := getE (parts[i]? >>= String.toNat?) s!"bad step {st}"
  let ent (i : Nat) : Except String AHnd := do
    let ix ← argN i
    getE (σ.hnd ix) s!"dead entry in {st}"
  match op with
  | "def" | "defo" =>
    let A ← getE (parts[1]? >>= parseTA?) "bad def"
    let span := interval (if op == "def" then 100 * k else 0) A.states.length
    pure (σ.fresh enc k span span)
  | "rt" => let _ ← ent 1; pure σ
  | "copy" => let h ← ent 1; pure { σ with pool := σ.pool ++ [some h] }
  | "assign" =>
    let ix ← argN 1; let _ ← ent 1; let hj ← ent 2
    pure ({ σ with pool := σ.pool.set ix (some hj) }).gc
  | "kill" => let ix ← argN 1; let _ ← ent 1; pure ({ σ with pool := σ.pool.set ix none }).gc
  | "final" =>
    let ix ← argN 1; let h ← ent 1; let q ← argN 2
    pure { σ with pool := σ.pool.set ix (some { h with fin := uni h.fin [q] }) }
  | "loadinto" =>
    let ix ← argN 1; let h ← ent 1
    let B ← getE (parts[2]? >>= parseTA?) "bad TA"
    let span := interval 0 B.states.length
    let bad := inter (σ.states h) span
    if bad != [] then throw s!"{where_}: clause L: the numbers {showL bad} of the loaded automaton occur in the target"
    let h' : AHnd := { h with nul := if enc == .bu then h.nul ++ [(k, span)] else [], fin := uni h.fin span }
    if B.rules.isEmpty then pure { σ with pool := σ.pool.set ix (some h') }
    else if σ.refs h.tid > 1 then
      -- copy on write
      pure { tabs := (σ.next, σ.spans h.tid ++ [span]) :: σ.tabs, next := σ.next + 1,
             pool := σ.pool.set ix (some { h' with tid := σ.next }) }
    else pure { (σ.setSpans h.tid (σ.spans h.tid ++ [span])) with pool := σ.pool.set ix (some h') }
  | "union" | "unionpre" =>
    let hi ← ent 1; let hj ← ent 2
    if hi.tid == hj.tid then
      sharedPre σ where_ hi hj
      pure (shared σ hi hj)
    else
      let span := interval 0 ((σ.states hi).length + (σ.states hj).length)
      pure (σ.fresh enc k span span)
  | "uniondisj" =>
    let i ← argN 1
    let hi ← ent 1; let hj ← ent 2
    if hi.tid == hj.tid then
      sharedPre σ where_ hi hj
      pure (shared σ hi hj)
    else
      let sb := σ.states hj
      let cT := inter (flat (σ.spans hi.tid)) sb
      if cT != [] then
        throw s!"{where_}: clause T: the numbers {showL cT} of the right operand occur in the TABLE of the left operand (stale rules of earlier in-place unions included)"
      let cA := inter (uni (flat (hi.nul.map (·.2))) hi.fin) sb
      if cA != [] then
        throw s!"{where_}: clause A: the numbers {showL cA} of the right operand occur among the leaf rules / final states of the left operand"
      let tb := flat (σ.spans hj.tid)
      for (o, kk) in σ.pool.zip (List.range σ.pool.length) do
        match o with
        | some h =>
          if kk != i && h.tid == hi.tid then
            let cH := inter h.fin tb
            if cH != [] then
              throw s!"{where_}: clause H: entry {kk} shares the table of the left operand and has the final state(s) {showL cH} among the numbers of the right operand's table"
        | none => pure ()
      let σ1 := σ.setSpans hi.tid (σ.spans hi.tid ++ σ.spans hj.tid)
      pure (shared σ1 hi hj)
  | "isect" =>
    let hi ← ent 1; let hj ← ent 2
    let span := interval 0 ((σ.states hi).length * (σ.states hj).length)
    pure (σ.fresh enc k span span)
  | "unreach" | "useless" =>
    let h ← ent 1
    pure (σ.fresh enc k (σ.states h) h.fin)
  | _ => throw s!"unknown step {st}"

def areplay (enc : Enc) : Nat → List String → ASt → Except String ASt
  | _, [], σ => pure σ
  | k, st :: rest, σ => do
    let σ' ← astep enc k st σ
    areplay enc (k + 1) rest σ'

/-- **The precondition of a `bddh` history**, from the steps alone (a safe approximation of `Vata.BddShare.pre`). -/
def precondition (enc : String) (steps : List String) : Except String Unit := do
  let e ← encOf enc
  let _ ← areplay e 1 steps ⟨[], 0, []⟩
  pure ()

/-! ## the exact precondition on the dumps -/

def dumpAt (res : List String) (k i : Nat) : Except String (Option TA) :=
  match kv res s!"{k}.{i}" with
  | none => pure none
  | some t => do pure (some (← getE (parseTA? t) s!"bad TA {k}.{i}"))

/-- the model state before a step: table ids from the replay, rules and final states from the dumps -/
def mkSt (enc : Enc) (tids : List (Option Nat)) (dumps : List (Option TA)) : Vata.BddShare.St :=
  let ents := tids.zip dumps
  let refs (t : Nat) : Nat := (tids.filter (· == some t)).length
  { tabs := fun t =>
      match ents.find? (fun e => e.1 == some t && e.2.isSome) with
      | some (_, some D) => some ⟨Vata.BddShare.tblPart enc D.rules, refs t⟩
      | _ => none
    next := tids.foldl (fun a o => match o with | some t => max a (t + 1) | none => a) 0
    pool := ents.map (fun e => match e.1, e.2 with
      | some t, some D => some ⟨t, Vata.BddShare.nulPart enc D.rules, D.final⟩
      | _, _ => none) }

/-- the loaded automaton with the numbers of a fresh dictionary (as a SET: `{0, …, n-1}`; clause L needs no more) -/
def renum (B : TA) : TA :=
  let f := fun q => (B.states.idxOf q)
  ⟨B.rules.map (fun r => ⟨r.sym, r.kids.map f, f r.parent⟩), B.final.map f⟩

/-- result of the exact replay: the first step outside `pre` (if any) and the differences between the model's prediction
and the dumps -/
structure EState where
  preFail : Option String := none
  findings : List String := []
  writes : Nat := 0
  shared : Nat := 0
  cow : Nat := 0

/-- Replays the sharing structure; before every step the model state is rebuilt from the dumps of the previous step, `pre`
is evaluated on it, the model's `step` is run and its prediction for EVERY live entry (bystanders included) is compared with
the dumps after the step, as sets of rules and final states.  Results of fresh-table operations are taken from the dump
(their numbers are the library's choice); the target of `loadinto` is not compared (dictionary order). -/
partial def ego (enc : Enc) (steps res : List String) (k : Nat) (tids : List (Option Nat)) (next : Nat) (E : EState) :
    Except String EState :=
  match steps with
  | [] => pure E
  | st :: rest => do
    let parts := st.splitOn "!"
    let op := parts[0]!
    let argN (i : Nat) : Except String Nat := getE (parts[i]? >>= String.toNat?) s!"bad step {st}"
    let tidOf (i : Nat) : Except String Nat := do
      let ix ← argN i
      getE ((tids[ix]?).join) s!"dead entry in {st}"
    let dumps ← (List.range tids.length).mapM (fun i => if k == 1 then pure none else dumpAt res (k - 1) i)
    let σ := mkSt enc tids dumps
    let refs (t : Nat) : Nat := (tids.filter (· == some t)).length
    let newIx := tids.length
    let newDump : Except String TA := do getE (← dumpAt res k newIx) s!"missing dump {k}.{newIx}"
    let mut E := E
    -- the model step, the table ids after it, the entry whose dump is not compared
    let mut ms : Option Vata.BddShare.Step := none
    let mut tids' := tids
    let mut next' := next
    let mut skip : Option Nat := none
    match op with
    | "def" | "defo" =>
      ms := some (.defn (← newDump)); tids' := tids ++ [some next]; next' := next + 1
    | "isect" =>
      let _ ← tidOf 1; let _ ← tidOf 2
      ms := some (.defn (← newDump)); tids' := tids ++ [some next]; next' := next + 1
    | "unreach" | "useless" =>
      let _ ← tidOf 1
      ms := some (.defn (← newDump)); tids' := tids ++ [some next]; next' := next + 1
    | "rt" => let ix ← argN 1; let _ ← tidOf 1; ms := some (.rt ix)
    | "copy" => let ix ← argN 1; let t ← tidOf 1; ms := some (.copy ix); tids' := tids ++ [some t]
    | "assign" =>
      let ix ← argN 1; let jx ← argN 2; let _ ← tidOf 1; let t ← tidOf 2
      ms := some (.assign ix jx); tids' := tids.set ix (some t)
    | "kill" => let ix ← argN 1; let _ ← tidOf 1; ms := some (.kill ix); tids' := tids.set ix none
    | "final" => let ix ← argN 1; let q ← argN 2; let _ ← tidOf 1; ms := some (.final ix q)
    | "loadinto" =>
      let ix ← argN 1; let t ← tidOf 1
      let B ← getE (parts[2]? >>= parseTA?) "bad TA"
      ms := some (.loadinto ix (renum B)); skip := some ix
      if !B.rules.isEmpty && refs t > 1 then
        tids' := tids.set ix (some next); next' := next + 1
        E := { E with cow := E.cow + 1 }
    | "union" | "unionpre" =>
      let i ← argN 1; let j ← argN 2; let ti ← tidOf 1; let tj ← tidOf 2
      if ti == tj then
        ms := some (.union i j); tids' := tids ++ [some ti]; E := { E with shared := E.shared + 1 }
      else
        -- fresh table: `pre` has no clause; the result is the library's
        ms := some (.defn (← newDump)); tids' := tids ++ [some next]; next' := next + 1
    | "uniondisj" =>
      let i ← argN 1; let j ← argN 2; let ti ← tidOf 1; let tj ← tidOf 2
      ms := some (.uniondisj i j); tids' := tids ++ [some ti]
      E := if ti == tj then { E with shared := E.shared + 1 } else { E with writes := E.writes + 1 }
    | _ => throw s!"unknown step {st}"
    match ms with
    | none => pure ()
    | some s =>
      if !(Vata.BddShare.pre enc σ s) && E.preFail.isNone then
        E := { E with preFail := some s!"precondition (exact): step {k} ({if st.length > 40 then op ++ "!…" else st}) is outside `pre`" }
      match Vata.BddShare.step enc σ s with
      | none => throw s!"model step undefined at {st}"
      | some σ' =>
        for i in List.range σ'.pool.length do
          if some i == skip then continue
          match σ'.hnd i, (← dumpAt res k i) with
          | some h, some D =>
            if !(taEq (σ'.aut h) D) then
              E := { E with findings := E.findings ++
                [s!"mismatch sharing model step {k} ({op}) entry {i}: model {showTA (σ'.aut h)} library {showTA D}"] }
          | none, none => pure ()
          | some _, none => E := { E with findings := E.findings ++ [s!"mismatch sharing model step {k}: live entry {i} not dumped"] }
          | none, some _ => E := { E with findings := E.findings ++ [s!"mismatch sharing model step {k}: dead entry {i} dumped"] }
        -- the table ids of the model agree with the replay (same sharing structure)
        let mt := σ'.pool.map (fun o => o.map (·.tid))
        let same := (List.range mt.length).all (fun a => (List.range mt.length).all (fun b =>
          ((mt[a]?).join.isSome && (mt[a]?).join == (mt[b]?).join) == ((tids'[a]?).join.isSome && (tids'[a]?).join == (tids'[b]?).join)))
        if !same then throw s!"internal: sharing structure of model and replay differ at step {k}"
    ego enc rest res (k + 1) tids' next' E

/-- the proved precondition `Vata.BddShare.pre`, evaluated on the states the library reports -/
def preconditionExact (enc : String) (steps res : List String) : Except String Unit := do
  let e ← encOf enc
  let E ← ego e steps res 1 [] 0 {}
  match E.preFail with
  | some m => throw m
  | none => pure ()

/-- self-test kind `bddpre` (arguments and result line of a `bddh` case):
* the sharing model predicts the dumps of ALL entries after every step (findings `mismatch sharing model …`);
* the abstract replay must not accept a history that the exact precondition rejects. -/
def check (args res : List String) : Except String (List String × String) := do
  let enc := args[0]!
  let steps := args.drop 1
  let e ← encOf enc
  let E ← ego e steps res 1 [] 0 {}
  let tag := s!"enc={enc} writes={E.writes} shared={E.shared} cow={E.cow}"
  -- a difference between model and library INSIDE the precondition would contradict the theorems' reading of the code;
  -- outside it the model is knowingly coarser (entries whose MTBDD has only empty leaves also replace: see the header)
  let fs (status : String) := E.findings.map (fun f => f ++ s!" [{status}]")
  match precondition enc steps, E.preFail with
  | .ok _, none => pure (fs "pre=in exact=in", tag ++ " pre=in exact=in")
  | .error m, none =>
    if m.startsWith "precondition" then pure (fs "pre=out exact=in", tag ++ s!" pre=out exact=in [{m}]") else throw m
  | .error m, some _ =>
    if m.startsWith "precondition" then pure (fs "pre=out exact=out", tag ++ s!" pre=out exact=out [{m}]") else throw m
  | .ok _, some m =>
    pure (fs "pre=in exact=out" ++ [s!"mismatch the abstract replay accepts a history that the exact precondition rejects: {m}"], tag)

end BddShareChk
