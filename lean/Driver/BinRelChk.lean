import Vata.Parse
import Vata.BinRel
/-!
# Driver side of the `binrel` histories: `BinaryRelation`, `Identity`, `DiscontBinaryRelation` (supports C04, C05, C16)

The case is a list of steps `op!a!b…` over two pools of live objects; the harness (`harness/op_binrel.inc`) executes them
on the real classes and prints, after every step, what the step returned (`o<k>=…`) and the whole observable state of every
live object (`<k>.<i>=size:rows`, `<k>.d<i>=size:states:rows`).  Here the same steps run on the model `Vata/BinRel.lean`
(`BinRel.stepC`, the function the history theorem `Vata.BinRel.runC_refines` is about) and everything is compared.

The first step at which the C++ and the model differ ends the check (the two states have diverged) with one finding:

* `violation …` when a theorem of `Vata/Proofs/BinRel.lean` decides the value the C++ got wrong (every entry below `size`
  after every operation – `get_set`, `resize_*`, `split_spec`, `transposedInto_spec`, `restrictToSymmetric_spec`, … –, the
  index builders, `GetQuotientProjection`/`buildClasses` on an equivalence, `Identity`, the dictionary look-ups);
* `mismatch …` when the code promises nothing and the model just mirrors it: the entries that `resize`/`alloc` expose
  without reallocation (stale cells), `GetQuotientProjection`/`buildClasses` on a relation that is not an equivalence
  ("the result is undefined otherwise"), and the inner numbering of states that `DiscontBinaryRelation::set` allocates.

`set(row, col, v)` of `DiscontBinaryRelation` translates both states inside one argument list, the order is unspecified in
C++: the check runs with the order g++ uses (right to left) and, if that fails, with the other one (tag `evalorder=ltr`).
-/
open Vata Vata.BinRel

namespace BinRelChk

def getE (o : Option α) (msg : String) : Except String α :=
  match o with
  | some a => pure a
  | none => throw msg

def bstr (b : Bool) : String := if b then "1" else "0"

def parseB? (s : String) : Option Bool := if s == "1" then some true else if s == "0" then some false else none

def parseNats? (s : String) : Option (List Nat) := if s == "-" then some [] else natList? s ','

/-- `-` = no rows; rows separated by `;`, an empty row is `_` -/
def parseIdx? (s : String) : Option (List (List Nat)) :=
  if s == "-" then some [] else (splitC s ';').mapM (fun r => if r == "_" then some [] else natList? r ',')

def parseRows? (s : String) : Option (List (List Bool)) :=
  if s == "-" then some [] else (splitC s '/').mapM (fun r => r.toList.mapM (fun c => parseB? c.toString))

def showNats (l : List Nat) : String := if l.isEmpty then "-" else ",".intercalate (l.map toString)

def showONats (l : List (Option Nat)) : String :=
  if l.isEmpty then "-" else ",".intercalate (l.map (fun | some n => toString n | none => "U"))

def showRow (l : List Nat) : String := if l.isEmpty then "_" else ",".intercalate (l.map toString)

def showIdx (l : List (List Nat)) : String := if l.isEmpty then "-" else ";".intercalate (l.map showRow)

def showBits (l : List Bool) : String := String.ofList (l.map (fun b => if b then '1' else '0'))

def showRows (m : List (List Bool)) : String := "/".intercalate (m.map showBits)

def slashes (s : String) : String := if s.isEmpty then "-" else s.replace "\n" "/"

def insertSorted (x : Nat) : List Nat → List Nat
  | [] => [x]
  | y :: ys => if x < y then x :: y :: ys else if x == y then y :: ys else y :: insertSorted x ys

def sortNats (l : List Nat) : List Nat := l.foldl (fun acc x => insertSorted x acc) []

def insertByKey {β : Type} (x : Nat × β) : List (Nat × β) → List (Nat × β)
  | [] => [x]
  | y :: ys => if x.1 < y.1 then x :: y :: ys else y :: insertByKey x ys

def sortByKey {β : Type} (l : List (Nat × β)) : List (Nat × β) := l.foldl (fun acc x => insertByKey x acc) []

def showMapIdx (l : List (Nat × List Nat)) : String :=
  if l.isEmpty then "-" else ";".intercalate ((sortByKey l).map (fun p => s!"{p.1}>{showRow p.2}"))

def showMap (l : List (Nat × Nat)) : String :=
  if l.isEmpty then "-" else ",".intercalate ((sortByKey l).map (fun p => s!"{p.1}>{p.2}"))

def pairLt (a b : Nat × Nat) : Bool := a.1 < b.1 || (a.1 == b.1 && a.2 < b.2)

def insertPair (x : Nat × Nat) : List (Nat × Nat) → List (Nat × Nat)
  | [] => [x]
  | y :: ys => if pairLt x y then x :: y :: ys else y :: insertPair x ys

def showPairs (l : List (Nat × Nat)) : String :=
  if l.isEmpty then "-" else
    ",".intercalate ((l.foldl (fun acc x => insertPair x acc) []).map (fun p => s!"{p.1}.{p.2}"))

def dumpMat (m : Mat) : String := s!"{m.size}:{showRows m.toBMat}"

/-- everything the harness prints for `Identity(n)` -/
def identAll (n : Nat) : String :=
  let a : Ident := ⟨n⟩
  let rows (f : Nat → Nat → Bool) := showRows ((List.range n).map (fun i => (List.range n).map (f i)))
  let c2 := a.classes2
  let bi := showMapIdx a.buildIndex
  s!"{n}:{rows a.get}|{rows a.sym}|{showNats a.classes1}|{showNats c2.1}|{showNats c2.2}|{bi}|{bi}|{bi}|{bi}|{slashes a.print}"

def excStr (e : String) : String := "EXC:" ++ e

def dumpDisc (d : Disc) (univ : List Nat) : Except String String := do
  let known := univ.filter (fun x => (d.dict.fwd.lookup x).isSome)
  let rows ← known.mapM (fun a => known.mapM (fun b => do
    match d.getIdx a b with
    | .ok (i, j) =>
      if i < d.rel.size ∧ j < d.rel.size then pure (d.rel.get i j)
      else throw s!"precondition: state {a}/{b} of a discontinuous relation has an inner index beyond its size"
    | .error e => throw s!"internal: {e}"))
  pure s!"{d.rel.size}:{showNats known}:{showRows rows}"

def isEquiv (m : Mat) : Bool := m.isEquivB

def isSymEquiv (m : Mat) : Bool := m.isSymEquivB

structure St where
  R : List Mat := []
  D : List Disc := []

/-- statistics for the tag -/
structure Stat where
  grow : Nat := 0
  stale : Nat := 0
  split : Nat := 0
  refused : Nat := 0
  exc : Nat := 0
  qpEq : Nat := 0
  qpNon : Nat := 0
  alias : Nat := 0
  disc : Nat := 0
  ident : Nat := 0
  preIdx : Nat := 0
  maxn : Nat := 0

/-- result of the model for one step: the expected `o` token (`none` = no token), the new state, and whether a
difference at this step is only a `mismatch` (entries / outputs the code promises nothing about): `soft` covers the
returned value, `softCells k` the entries of relation `k` that may be stale -/
structure StepRes where
  o : Option String
  st : St
  soft : Bool := false
  softRel : Option (Nat × Nat) := none   -- relation index, old size: entries outside the old corner are unspecified

def parseOp (f : List String) : Except String Op := do
  let nat (i : Nat) : Except String Nat := getE (f[i]? >>= String.toNat?) s!"bad number in step {f}"
  let boolD (i : Nat) (d : Bool) : Except String Bool :=
    match f[i]? with
    | some s => getE (parseB? s) s!"bad bool in step {f}"
    | none => pure d
  let natD (i : Nat) (d : Nat) : Except String Nat :=
    match f[i]? with
    | some s => getE s.toNat? s!"bad number in step {f}"
    | none => pure d
  match f[0]? with
  | some "new" => pure (.new (← natD 1 0) (← boolD 2 false) (← natD 3 16))
  | some "rows" => pure (.ofRows (← getE (f[1]? >>= parseRows?) "bad rows"))
  | some "copy" => pure (.copy (← nat 1))
  | some "assign" => pure (.assign (← nat 1) (← nat 2))
  | some "set" => pure (.set (← nat 1) (← nat 2) (← nat 3) (← boolD 4 false))
  | some "reset" => pure (.reset (← nat 1) (← boolD 2 false))
  | some "resize" => pure (.resize (← nat 1) (← nat 2) (← boolD 3 false))
  | some "alloc" => pure (.alloc (← nat 1))
  | some "split" => pure (.split (← nat 1) (← nat 2) (← boolD 3 true))
  | some "tr" => pure (.transp (← nat 1) (← nat 2))
  | some "and" => pure (.and (← nat 1) (← nat 2))
  | some "rsym" => pure (.rsym (← nat 1))
  | some "get" => pure (.get (← nat 1) (← nat 2) (← nat 3))
  | some "sym" => pure (.sym (← nat 1) (← nat 2) (← nat 3))
  | some "bi" => pure (.index (← nat 1) (← getE (f[2]? >>= parseIdx?) "bad index"))
  | some "binv" => pure (.invIndex (← nat 1) (← getE (f[2]? >>= parseIdx?) "bad index"))
  | some "bi2" => pure (.index2 (← nat 1) (← getE (f[2]? >>= parseIdx?) "bad index") (← getE (f[3]? >>= parseIdx?) "bad index"))
  | some "qp" => pure (.quot (← nat 1))
  | some "bc1" => pure (.classes1 (← nat 1))
  | some "bc2" => pure (.classes2 (← nat 1))
  | some "print" => pure (.print (← nat 1))
  | _ => throw s!"unknown step {f}"

def showOut (op : Op) : Out → Option String
  | .none => match op with
    | .transp .. => some "1"      -- the returned reference is the destination
    | .and .. => some "1"
    | _ => none
  | .nat n => some (toString n)
  | .bool b => some (bstr b)
  | .onats l => some (showONats l)
  | .nats l => some (showNats l)
  | .idx l => some (showIdx l)
  | .idx2 a b => some (showIdx a ++ "|" ++ showIdx b)
  | .classes a b => some (showNats a ++ "|" ++ showNats b)
  | .text s => some (slashes s)

def isDiscOp (s : String) : Bool :=
  ["dnew", "dfrom", "dcopy", "dmove", "dassign", "dset", "dget", "dbi", "dbi2", "drsym", "dqp", "dstr"].contains s

/-- the model's answer to one step -/
def modelStep (st : St) (f : List String) (rtl : Bool) (sr : Stat) : Except String (StepRes × Stat) := do
  let nat (i : Nat) : Except String Nat := getE (f[i]? >>= String.toNat?) s!"bad number in step {f}"
  let opName := f[0]?.getD ""
  let refused (sr : Stat) : Except String (StepRes × Stat) := pure ({ o := some "pre", st := st }, { sr with refused := sr.refused + 1 })
  if opName == "id" then
    let n ← nat 1
    pure ({ o := some (identAll n), st := st }, { sr with ident := sr.ident + 1 })
  else if isDiscOp opName then
    let sr := { sr with disc := sr.disc + 1 }
    let dAt (i : Nat) : Except String (Option (Nat × Disc)) := do
      let x ← nat i
      pure ((st.D[x]?).map (fun d => (x, d)))
    let ofExc {α : Type} (r : Except String α) (sh : α → String) (sr : Stat) (soft : Bool := false) :
        Except String (StepRes × Stat) :=
      match r with
      | .ok a => pure ({ o := some (sh a), st := st, soft := soft }, sr)
      | .error e => pure ({ o := some (excStr e), st := st }, { sr with exc := sr.exc + 1 })
    match opName with
    | "dnew" =>
      let size ← (match f[1]? with | some s => getE s.toNat? "bad size" | none => pure 0)
      let d ← (match f[2]? with | some s => getE (parseB? s) "bad bool" | none => pure false)
      let rs ← (match f[3]? with | some s => getE s.toNat? "bad rowSize" | none => pure 16)
      if rs == 0 then refused sr else
      pure ({ o := none, st := { st with D := st.D ++ [Disc.mk' size d rs] } }, sr)
    | "dfrom" =>
      let k ← nat 1
      match st.R[k]? with
      | none => refused sr
      | some m =>
        let ps ← getE (f[2]? >>= parseMap?) "bad dictionary"
        let ks := ps.map (·.1)
        let vs := ps.map (·.2)
        if ks.eraseDups.length != ks.length || vs.eraseDups.length != vs.length then refused sr else
        if !(vs.all (· < m.size)) then throw "precondition: dictionary maps beyond the size of the relation"
        pure ({ o := none, st := { st with D := st.D ++ [Disc.ofRel m (Dict.ofList ps)] } }, sr)
    | "dcopy" | "dmove" =>
      match ← dAt 1 with
      | none => refused sr
      | some (_, d) => pure ({ o := none, st := { st with D := st.D ++ [d] } }, sr)
    | "dassign" =>
      match ← dAt 1, ← dAt 2 with
      | some (x, _), some (_, e) => pure ({ o := none, st := { st with D := st.D.set x e } }, sr)
      | _, _ => refused sr
    | "dset" =>
      match ← dAt 1 with
      | none => refused sr
      | some (x, d) =>
        let r ← nat 2; let c ← nat 3
        let v ← getE (f[4]? >>= parseB?) "bad bool"
        let (d', a, b) := d.setIdx r c rtl
        if !(a < d'.rel.size ∧ b < d'.rel.size) then throw "precondition: set() of a discontinuous relation beyond its size"
        let fresh := d'.cnt - d.cnt
        let aliasing := fresh > 0 && d.dict.bwd.any (fun p => p.1 ≥ d.cnt && p.1 < d'.cnt)
        let sr := if aliasing then { sr with alias := sr.alias + 1 } else sr
        pure ({ o := none, st := { st with D := st.D.set x (d.set r c v rtl) }, soft := fresh ≥ 2 }, sr)
    | "dget" =>
      match ← dAt 1 with
      | none => refused sr
      | some (_, d) =>
        let r ← nat 2; let c ← nat 3
        match d.getIdx r c with
        | .ok (a, b) =>
          if !(a < d.rel.size ∧ b < d.rel.size) then throw "precondition: get() of a discontinuous relation beyond its size"
          pure ({ o := some (bstr (d.rel.get a b)), st := st }, sr)
        | .error e => pure ({ o := some (excStr e), st := st }, { sr with exc := sr.exc + 1 })
    | "dbi" =>
      match ← dAt 1 with
      | none => refused sr
      | some (_, d) => ofExc d.buildIndex showMapIdx sr
    | "dbi2" =>
      match ← dAt 1 with
      | none => refused sr
      | some (_, d) => ofExc d.buildIndex2 (fun p => showMapIdx p.1 ++ "|" ++ showMapIdx p.2) sr
    | "drsym" =>
      match ← dAt 1 with
      | none => refused sr
      | some (x, d) => pure ({ o := none, st := { st with D := st.D.set x d.restrictToSymmetric } }, sr)
    | "dqp" =>
      match ← dAt 1 with
      | none => refused sr
      | some (_, d) =>
        let eq := isEquiv d.rel
        let sr := if eq then { sr with qpEq := sr.qpEq + 1 } else { sr with qpNon := sr.qpNon + 1 }
        ofExc d.quotProj showMap sr (soft := !eq)
    | "dstr" =>
      match ← dAt 1 with
      | none => refused sr
      | some (_, d) =>
        -- every state of the dictionary must have its inner index below the size
        if !(d.dict.fwd.all (fun p => p.2 < d.rel.size)) then throw "precondition: ToString with an inner index beyond the size"
        ofExc d.pairs (fun ps => showPairs ps ++ "|" ++ showPairs ps) sr
    | _ => throw s!"unknown step {f}"
  else
    let op ← parseOp f
    match stepC st.R op with
    | none => refused sr
    | some (R', out) =>
      let mut sr := sr
      let mut soft := false
      let mut softRel : Option (Nat × Nat) := none
      -- statistics and the "promises nothing" zones
      match op with
      | .resize k n _ =>
        match st.R[k]? with
        | some m =>
          if m.rowSize < n then sr := { sr with grow := sr.grow + 1 }
          else if m.size < n then sr := { sr with stale := sr.stale + 1 }; softRel := some (k, m.size)
        | none => pure ()
      | .alloc k =>
        match st.R[k]? with
        | some m =>
          if m.size ≥ m.rowSize then sr := { sr with grow := sr.grow + 1 }
          else sr := { sr with stale := sr.stale + 1 }; softRel := some (k, m.size)
        | none => pure ()
      | .split k _ _ =>
        sr := { sr with split := sr.split + 1 }
        match st.R[k]? with
        | some m => if m.size ≥ m.rowSize then sr := { sr with grow := sr.grow + 1 }
        | none => pure ()
      | .transp k j =>
        match st.R[k]?, st.R[j]? with
        | some m, some d => if d.rowSize < m.size then sr := { sr with grow := sr.grow + 1 }
        | _, _ => pure ()
      | .quot k =>
        match st.R[k]? with
        | some m => if isEquiv m then sr := { sr with qpEq := sr.qpEq + 1 } else sr := { sr with qpNon := sr.qpNon + 1 }; soft := true
        | none => pure ()
      | .classes1 k | .classes2 k =>
        match st.R[k]? with
        | some m => if !isSymEquiv m then soft := true
        | none => pure ()
      | .index _ pre | .invIndex _ pre => if !pre.isEmpty then sr := { sr with preIdx := sr.preIdx + 1 }
      | .index2 _ p1 p2 => if !p1.isEmpty || !p2.isEmpty then sr := { sr with preIdx := sr.preIdx + 1 }
      | _ => pure ()
      for m in R' do
        if m.size > sr.maxn then sr := { sr with maxn := m.size }
      pure ({ o := showOut op out, st := { st with R := R' }, soft := soft, softRel := softRel }, sr)

/-- the rows of a dump `size:rows` -/
def dumpRows (s : String) : List String :=
  match s.splitOn ":" with
  | [_, r] => splitC r '/'
  | _ => []

/-- do two dumps of a relation differ only outside the old `n × n` corner (and agree on the size)? -/
def onlyOutsideCorner (got exp : String) (n : Nat) : Bool :=
  let g := dumpRows got
  let e := dumpRows exp
  (got.splitOn ":").head? == (exp.splitOn ":").head? && g.length == e.length &&
  ((g.zip e).zip (List.range g.length)).all (fun p =>
    let (a, b) := p.1
    a.length == b.length && (p.2 ≥ n || (a.toList.take n == b.toList.take n)))

def universeOf (steps : List String) : List Nat :=
  let ks := steps.foldl (fun acc st =>
    let f := st.splitOn "!"
    match f[0]? with
    | some "dfrom" => acc ++ (((f[2]? >>= parseMap?).getD []).map (·.1))
    | some "dset" | some "dget" => acc ++ ([f[2]?, f[3]?].filterMap (fun o => o >>= String.toNat?))
    | _ => acc) []
  sortNats ks

partial def go (steps : List String) (res : List String) (univ : List Nat) (rtl : Bool) (k : Nat) (st : St) (sr : Stat) :
    Except String (List String × Stat) :=
  match steps with
  | [] => pure ([], sr)
  | s :: rest => do
    let f := s.splitOn "!"
    let (r, sr) ← modelStep st f rtl sr
    let gotO := kv res s!"o{k}"
    let mut fnd : List String := []
    if gotO != r.o then
      let what := if r.soft then "mismatch" else "violation"
      fnd := fnd ++ [s!"{what} step {k} ({s}): returned {gotO.getD "nothing"} expected {r.o.getD "nothing"}"]
    for i in List.range r.st.R.length do
      match r.st.R[i]? with
      | some m =>
        let exp := dumpMat m
        match kv res s!"{k}.{i}" with
        | some got =>
          if got != exp then
            let soft := match r.softRel with
              | some (j, n) => i == j && onlyOutsideCorner got exp n
              | none => false
            let what := if soft then "mismatch" else "violation"
            fnd := fnd ++ [s!"{what} step {k} ({s}): relation {i} shows {got} expected {exp}"]
        | none => fnd := fnd ++ [s!"violation step {k} ({s}): relation {i} is not dumped"]
      | none => pure ()
    if (kv res s!"{k}.{r.st.R.length}").isSome then fnd := fnd ++ [s!"violation step {k} ({s}): an unexpected relation is live"]
    for i in List.range r.st.D.length do
      match r.st.D[i]? with
      | some d =>
        let exp ← dumpDisc d univ
        match kv res s!"{k}.d{i}" with
        | some got =>
          if got != exp then
            let what := if r.soft then "mismatch" else "violation"
            fnd := fnd ++ [s!"{what} step {k} ({s}): discontinuous relation {i} shows {got} expected {exp}"]
        | none => fnd := fnd ++ [s!"violation step {k} ({s}): discontinuous relation {i} is not dumped"]
      | none => pure ()
    if (kv res s!"{k}.d{r.st.D.length}").isSome then fnd := fnd ++ [s!"violation step {k} ({s}): an unexpected discontinuous relation is live"]
    if !fnd.isEmpty then pure (fnd, sr)          -- the states have diverged: stop here
    else go rest res univ rtl (k + 1) r.st sr

def check (args res : List String) : Except String (List String × String) := do
  let univ := universeOf args
  let (f1, sr) ← go args res univ true 0 {} {}
  let hasSet := args.any (fun s => s.startsWith "dset!")
  let (f, sr, order) ← (if !f1.isEmpty && hasSet then do
      let (f2, sr2) ← go args res univ false 0 {} {}
      if f2.isEmpty then pure (f2, sr2, "ltr") else pure (f1, sr, "rtl")
    else pure (f1, sr, "rtl") : Except String (List String × Stat × String))
  let tag := s!"steps={args.length} grow={sr.grow} stale={sr.stale} split={sr.split} refused={sr.refused} exc={sr.exc} " ++
    s!"qpEq={sr.qpEq} qpNon={sr.qpNon} preIdx={sr.preIdx} disc={sr.disc} alias={sr.alias} ident={sr.ident} maxn={sr.maxn}" ++
    (if hasSet then s!" evalorder={order}" else "")
  pure (f, tag)

end BinRelChk
