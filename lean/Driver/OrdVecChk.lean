import Vata.Parse
import Vata.OrdVector
/-! # Driver side of the `OrdVector` histories (`ordvec`): utility class behind C07, C08, C09

Replays the history on the model of the class as coded (`Vata.OrdVec.step`) and on the abstract sets
(`Vata.OrdVec.aStep`) and compares every read-back of the real objects (`harness/op_ordvec.inc`):

* `violation` – the real object contradicts what the theorems of `Vata/Proofs/OrdVector.lean` say about the class
  (`history_invariant`, `history_observe`): iteration not strictly increasing / not the members of the abstract set,
  `size`/`empty`/`ToVector`/`cbegin` inconsistent with the iteration, `find`, `==`, `<`, `IsSubsetOf`,
  `HaveEmptyIntersection` different from the answer for the abstract sets, equal sets with different hashes;
* `mismatch` – the real object differs from the model where no theorem decides (numeric hash value, printed form).
-/
open Vata
open Vata.OrdVec

namespace OrdVecChk

def getE (o : Option α) (msg : String) : Except String α :=
  match o with
  | some a => pure a
  | none => throw msg

def bchar (b : Bool) : Char := if b then '1' else '0'

def listTok? (s : String) : Option (List Nat) := if s == "-" || s == "" then some [] else natList? s ','

def showL (l : List Nat) : String := if l.isEmpty then "-" else ",".intercalate (l.map toString)

/-- what the harness prints for one live object -/
structure Dump where
  content : List Nat
  size : Nat
  empty : String
  hash : Nat
  str : String
  flags : String

def parseDump? (t : String) : Option Dump :=
  match t.splitOn ";" with
  | [c, n, e, h, s, f] => do
    pure ⟨← listTok? c, ← n.toNat?, e, ← h.toNat?, s, f⟩
  | _ => none

def hasDup : List Nat → Bool
  | [] => false
  | x :: r => r.contains x || hasDup r

/-- branch letters of one `insert(x)` on the vector `v` (see the tag legend in `check`) -/
def insertBranch (v : Vec) (x : Nat) : Char :=
  if v.isEmpty then 'E'
  else if lastLess v x then 'P'
  else match bsearch v.length v x 0 v.length with
    | .found _ => 'F'
    | .pos 0 => 'B'
    | .pos _ => 'M'
    | .oob => '!'

def sameSet (a b : List Nat) : Bool := a.all (fun x => b.contains x) && b.all (fun x => a.contains x)

structure St where
  pool : Pool := []
  apool : List ASet := []
  f : List String := []
  br : List Char := []
  nub : Nat := 0

def St.note (s : St) (c : Char) : St := if s.br.contains c then s else { s with br := c :: s.br }
def St.find (s : St) (m : String) : St := { s with f := s.f ++ [m] }

/-- read back every live object after step `k` -/
def readBack (res : List String) (k : Nat) (what : String) (s : St) : Except String St := do
  let mut s := s
  let mut seen : List (List Nat × Nat) := []
  for i in List.range s.pool.length do
    let t ← getE (kv res s!"{k}.{i}") s!"step {k}: object {i} not dumped"
    let d ← getE (parseDump? t) s!"bad dump {k}.{i}={t}"
    let c := s.pool.at i
    let a := s.apool.getD i []
    let pre := s!"step {k} ({what}) object {i}"
    if !strictIncB d.content then
      s := s.find s!"violation {pre}: iteration yields {showL d.content}, not strictly increasing (representation invariant)"
    else if !isEnumOf d.content a then
      s := s.find s!"violation {pre}: iteration yields {showL d.content} but the object denotes the set {showL c}"
    else if d.content != c then
      s := s.find s!"mismatch {pre}: iteration yields {showL d.content}, model {showL c}"
    if d.size != d.content.length then
      s := s.find s!"violation {pre}: size()={d.size} but the iteration yields {d.content.length} elements"
    if d.empty != (bchar d.content.isEmpty).toString then
      s := s.find s!"violation {pre}: empty()={d.empty} but the iteration yields {d.content.length} elements"
    if d.flags != "11" then
      s := s.find s!"violation {pre}: ToVector() / cbegin()..cend() differ from begin()..end() (flags {d.flags})"
    for (c', h') in seen do
      if c' == d.content && h' != d.hash then
        s := s.find s!"violation {pre}: hash_value {d.hash} differs from the hash {h'} of an equal object"
    seen := (d.content, d.hash) :: seen
    if d.hash != (hashValue d.content).toNat then
      s := s.find s!"mismatch {pre}: hash_value={d.hash}, boost-1.83 model {(hashValue d.content).toNat}"
    let pr := (toStr d.content).replace " " "_"
    if d.str != pr then
      s := s.find s!"mismatch {pre}: operator<< prints {d.str}, model {pr}"
  if (kv res s!"{k}.{s.pool.length}").isSome then throw s!"step {k}: more objects dumped than live"
  pure s

def ctorNotes (l : List Nat) (s : St) : St :=
  let s := if l.isEmpty then s.note 'z' else s
  let s := if hasDup l then s.note 'd' else s
  if stdSort l != l then s.note 'u' else s

def go (steps : List String) (res : List String) (k : Nat) (s : St) : Except String St :=
  match steps with
  | [] => pure s
  | st :: rest => do
    let parts := st.splitOn "!"
    let opn := parts[0]!
    let argN (i : Nat) : Except String Nat := getE (parts[i]? >>= String.toNat?) s!"bad step {st}"
    let argL (i : Nat) : Except String (List Nat) := getE (parts[i]? >>= listTok?) s!"bad list in step {st}"
    let ix (i : Nat) : Except String Nat := do
      let x ← argN i
      if x < s.pool.length then pure x else throw s!"no such object in step {st}"
    let q := kv res s!"q{k}"
    let mut s := s
    let mut op : Option Op := none
    match opn with
    | "new" => op := some .mkEmpty
    | "vec" => let l ← argL 1; s := ctorNotes l s; op := some (.mkVector l)
    | "il" => let l ← argL 1; s := ctorNotes l s; op := some (.mkInitList l)
    | "key" => op := some (.mkKey (← argN 1))
    | "range" => let l ← argL 1; s := ctorNotes l s; op := some (.mkRange l)
    | "copy" => op := some (.copy (← ix 1))
    | "assign" =>
      let i ← ix 1; let j ← ix 2
      if i == j then s := s.note 's'
      op := some (.assign i j)
    | "ins" =>
      let i ← ix 1; let x ← argN 2
      s := s.note (insertBranch (s.pool.at i) x)
      op := some (.insert i x)
    | "insall" | "union" =>
      let i ← ix 1; let j ← ix 2
      if i == j then s := s.note 'a'
      let a := s.pool.at i; let b := s.pool.at j
      s := s.note (if a.isEmpty || b.isEmpty then 'W' else if haveEmptyIntersectionFixed a b then 'V' else 'U')
      op := some (if opn == "union" then .union i j else .insertAll i j)
    | "clear" => op := some (.clear (← ix 1))
    | "find" =>
      let i ← ix 1; let x ← argN 2
      let a := s.apool.getD i []
      let c := s.pool.at i
      -- the abstract answer: the rank of x among the members if x is a member, end() otherwise
      let exp : Option Nat := if a.contains x then some (c.filter (· < x)).length else none
      let expS := match exp with | some r => toString r | none => "-"
      s := s.note (if exp.isSome then 'h' else 'm')
      let got ← getE q s!"missing q{k}"
      if got != expS then
        s := s.find s!"violation step {k}: find({x}) on object {i} = {got}, expected {expS} (set {showL c})"
      else if find c x != exp then
        s := s.find s!"mismatch step {k}: model find({x}) = {find c x}"
    | "cmp" =>
      let i ← ix 1; let j ← ix 2
      let a := s.apool.getD i []; let b := s.apool.getD j []
      let ci := s.pool.at i; let cj := s.pool.at j
      -- abstract answers (`<`: lexicographic order of the increasing enumerations = the model vectors, `rel_enum`)
      let exp := String.ofList [bchar (sameSet a b), bchar (decide (ci < cj)), bchar (decide (cj < ci)),
        bchar (a.all (fun x => b.contains x)), bchar (b.all (fun x => a.contains x))]
      let modelA := String.ofList [bchar (eq ci cj), bchar (lt ci cj), bchar (lt cj ci), bchar (isSubsetOf ci cj), bchar (isSubsetOf cj ci)]
      s := s.note (if sameSet a b then 'e' else if decide (ci < cj) then 'l' else 'g')
      s := s.note (if a.all (fun x => b.contains x) then 'S' else 'N')
      let got ← getE q s!"missing q{k}"
      if got != exp then
        s := s.find s!"violation step {k}: (==, <, >, IsSubsetOf, IsSupersetOf) of objects {i},{j} = {got}, expected {exp} ({showL ci} vs {showL cj})"
      else if modelA != exp then
        s := s.find s!"mismatch step {k}: model comparisons {modelA}"
    | "disj" =>
      let i ← ix 1; let j ← ix 2
      let a := s.apool.getD i []; let b := s.apool.getD j []
      let ci := s.pool.at i; let cj := s.pool.at j
      let exp := bchar (a.all (fun x => !b.contains x))
      let coded := haveEmptyIntersection ci cj
      s := s.note (match coded with | some true => '1' | some false => '0' | none => 'X')
      if coded.isNone then s := { s with nub := s.nub + 1 }
      let got ← getE q s!"missing q{k}"
      if got != exp.toString then
        let why := if coded.isNone then " [the loop as coded dereferences end() here: haveEmptyIntersection_reads_past_end]" else ""
        s := s.find s!"violation step {k}: HaveEmptyIntersection of objects {i},{j} = {got}, expected {exp} ({showL ci} vs {showL cj}){why}"
      match coded with
      | some b' => if bchar b' != exp then s := s.find s!"mismatch step {k}: model HaveEmptyIntersection {b'}"
      | none => pure ()
    | _ => throw s!"unknown step {st}"
    match op with
    | some o => s := { s with pool := step s.pool o, apool := aStep s.apool o }
    | none => pure ()
    if s.pool.length != s.apool.length then throw "internal: pools out of step"
    s ← readBack res k opn s
    go rest res (k + 1) s

/-- tag legend (`br=`): constructors `z` empty input, `d` duplicates, `u` unsorted; `insert(x)`: `E` into empty,
`P` push_back, `F` found, `B` at the front, `M` in the middle; `s` self-assignment, `a` `insert`/`Union` of an object with
itself; `Union`/`insert(OrdVector)`: `W` an empty operand, `V` disjoint, `U` overlapping; `find`: `h` hit, `m` miss;
comparison: `e` equal, `l` less, `g` greater, `S` subset, `N` not; `HaveEmptyIntersection`: `0`, `1`, `X` = region where the
loop as coded reads past the end -/
def check (args res : List String) : Except String (List String × String) := do
  let s ← go args res 0 {}
  let br := String.ofList (s.br.toArray.qsort (· < ·)).toList
  -- a divergence is re-reported at every later read-back of the same object: keep the first findings only
  let f := if s.f.length > 6 then s.f.take 6 ++ [s!"violation (… {s.f.length - 6} further findings of this case suppressed)"] else s.f
  pure (f, s!"steps={args.length} objs={s.pool.length} ub={s.nub} br={br}")

end OrdVecChk
