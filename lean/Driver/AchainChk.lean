import Vata.Parse
import Vata.Antichain
/-!
# Driver side of the antichain-container histories (`achain`): utility classes behind C01, C07, C09

Case and result formats: see `harness/op_achain.inc`.  The history is replayed on the models of `Vata/Antichain.lean`
(`One.step`, `Seq.insert`, `Two.step`, `Ord.step`); after every step the answer of the step and the dump of every object
are compared with what the real class produced.

* `violation` – the output of the real class contradicts a theorem of `Vata/Proofs/Antichain.lean` (content of a
  container after a step: the `listOf_*` / `mem_*` theorems; answers: `contains_iff`, `refine_calls`, `get_spec`, …).
* `mismatch` – model and class differ in something no theorem decides: nothing is left in this category (the order of
  the keys of the hash containers is not compared at all: dumps are sorted by key).
-/
open Vata Vata.AC

namespace AchainChk

def getE (o : Option α) (msg : String) : Except String α :=
  match o with
  | some a => pure a
  | none => throw msg

structure Header where
  cls : String
  ty : String
  m : Nat
  less : Nat
  n : Nat
  rel : List (Nat × Nat)

def parseHeader? (s : String) : Option Header :=
  match s.splitOn "!" with
  | ["H", cls, ty, m, less, n, rel] => do
    pure ⟨cls, ty, ← m.toNat?, ← less.toNat?, ← n.toNat?, ← parseRel? rel⟩
  | _ => none

def sortN (l : List Nat) : List Nat := l.mergeSort (fun a b => a ≤ b)

/-- `ind[q]` / `inv[q]` as the harness builds them (ascending) -/
def upOf (h : Header) (q : Nat) : List Nat := sortN ((h.rel.filter (fun p => p.1 == q)).map (·.2))
def downOf (h : Header) (q : Nat) : List Nat := sortN ((h.rel.filter (fun p => p.2 == q)).map (·.1))

def parseSet? (s : String) : Option NSet := if s == "e" then some [] else natList? s '.'
def parseKeys? (s : String) : Option (List Nat) := if s == "-" then some [] else natList? s ','

def showSet (s : NSet) : String := if s.isEmpty then "e" else ".".intercalate (s.map toString)
def showNodes (l : List (Nat × NSet)) : String :=
  if l.isEmpty then "-" else ",".intercalate (l.map (fun n => s!"{n.1}:{showSet n.2}"))
def showKeys (l : List Nat) : String := if l.isEmpty then "-" else ",".intercalate (l.map toString)

def dumpTwo (d : Two.Data Nat NSet) : String :=
  if d.isEmpty then "-" else
  let ks := sortN (Two.keys d)
  "/".intercalate (ks.map (fun k => s!"{k}@{showNodes (Two.listOf d k)}"))

def dumpOrd (o : Ord.State Nat NSet) : String :=
  dumpTwo o.ac ++ "|" ++ (if o.data.isEmpty then "-" else ",".intercalate (o.data.map (fun e => s!"{e.1}:{e.2.1}")))

def dumpOne (d : List Nat) : String := showKeys (sortN d)

def dumpSeq (d : List NSet) : String := if d.isEmpty then "-" else ",".intercalate (d.map showSet)

/-- compare the dumps of all objects after step `k` -/
def cmpDumps (res : List String) (k : Nat) (what : String) (dumps : List String) : Except String (List String) := do
  let mut f : List String := []
  for (exp, o) in dumps.zip (List.range dumps.length) do
    let got ← getE (kv res s!"{k}.{o}") s!"missing dump {k}.{o}"
    if got != exp then
      f := f ++ [s!"violation step {k} ({what}): object {o} holds {got} but the theorems about the model give {exp}"]
  pure f

def cmpAns (res : List String) (k : Nat) (what exp : String) (kind : String := "violation") : Except String (List String) := do
  let got ← getE (kv res s!"a{k}") s!"missing answer a{k}"
  pure (if got == exp then [] else [s!"{kind} step {k} ({what}) answered {got} expected {exp}"])

def field (parts : List String) (i : Nat) (st : String) : Except String String := getE parts[i]? s!"bad step {st}"
def fieldN (parts : List String) (i : Nat) (st : String) : Except String Nat := do
  getE ((← field parts i st).toNat?) s!"bad number in step {st}"
def fieldSet (parts : List String) (i : Nat) (st : String) : Except String NSet := do
  getE (parseSet? (← field parts i st)) s!"bad set in step {st}"
def fieldKeys (parts : List String) (i : Nat) (st : String) : Except String (List Nat) := do
  getE (parseKeys? (← field parts i st)) s!"bad key list in step {st}"
def fieldCmp (parts : List String) (i : Nat) (st : String) : Except String Char := do
  getE ((← field parts i st).toList.head?) s!"bad comparator in step {st}"

def mark (br : List Char) (c : Char) : List Char := if br.contains c then br else br ++ [c]

def bnum (b : Bool) : String := if b then "1" else "0"

/-! ### Antichain2Cv2 -/
partial def goTwo (h : Header) (steps res : List String) (k : Nat) (P : Two.Pool Nat NSet) (f : List String) (br : List Char) :
    Except String (List String × List Char) :=
  match steps with
  | [] => pure (f, br)
  | st :: rest => do
    let parts := st.splitOn "!"
    let op ← field parts 0 st
    let o ← fieldN parts 1 st
    if o ≥ h.m then throw s!"object out of range in {st}"
    let d := Two.obj P o
    let mut f := f
    let mut br := br
    let mut P' := P
    match op with
    | "c" =>
      let ks ← fieldKeys parts 2 st; let Q ← fieldSet parts 3 st; let c ← fieldCmp parts 4 st
      match Two.step P (.contains o ks Q (cmpOf c)) with
      | (P2, .bool b) =>
        P' := P2; br := mark br (if b then 'C' else 'c')
        f := f ++ (← cmpAns res k "contains" (bnum b))
      | _ => throw "internal"
    | "r" =>
      let ks ← fieldKeys parts 2 st; let Q ← fieldSet parts 3 st; let c ← fieldCmp parts 4 st
      match Two.step P (.refine o ks Q (cmpOf c)) with
      | (P2, .erased l) =>
        P' := P2
        if !l.isEmpty then br := mark br 'E'
        if (Two.keys (Two.obj P2 o)).length < (Two.keys d).length then br := mark br 'K'
        if ks.any (fun p => !(Two.keys d).contains p) then br := mark br 'A'
        if ks.length != ks.eraseDups.length then br := mark br 'D'
        let exp := if l.isEmpty then "-" else ",".intercalate (l.map (fun e => s!"{e.1}:{e.2.1}:{showSet e.2.2}"))
        f := f ++ (← cmpAns res k "refine: calls of the eraser" exp)
      | _ => throw "internal"
    | "i" =>
      let q ← fieldN parts 2 st; let Q ← fieldSet parts 3 st
      br := mark br (if (Two.keys d).contains q then 'J' else 'I')
      if (Two.listOf d q).any (fun n => n.2 == Q) then br := mark br 'X'
      match Two.step P (.insert o q Q) with
      | (P2, .nat i) =>
        P' := P2
        f := f ++ (← cmpAns res k "insert: returned iterator" s!"{i}:{showSet Q}")
      | _ => throw "internal"
    | "g" =>
      let a ← getE (kv res s!"a{k}") s!"missing answer a{k}"
      if a == "0" then
        br := mark br 'z'
        match Two.step P (.get o none) with
        | (_, .bool true) => pure ()
        | _ => f := f ++ [s!"violation step {k} (get) returned false on a non-empty antichain"]
      else
        match a.splitOn ":" with
        | ["1", ks, vs] =>
          let key ← getE ks.toNat? "bad key in get answer"
          let v ← getE (parseSet? vs) "bad set in get answer"
          match Two.step P (.get o (some key)) with
          | (P2, .node (some n)) =>
            P' := P2
            br := mark br (if (Two.keys (Two.obj P2 o)).length < (Two.keys d).length then 'G' else 'g')
            if n.2 != v then
              f := f ++ [s!"violation step {k} (get) returned {showSet v} but the front of the list of key {key} is {showSet n.2}"]
          | _ => f := f ++ [s!"violation step {k} (get) returned key {key} which is not stored"]
        | _ => throw "bad get answer"
    | "rm" =>
      let q ← fieldN parts 2 st; let i ← fieldN parts 3 st
      if !((Two.listOf d q).any (fun n => n.1 == i)) then throw s!"precondition: remove of a node that is not under the key ({st})"
      br := mark br 'M'
      P' := (Two.step P (.remove o q i)).1
    | "l" =>
      let key ← fieldN parts 2 st
      match Two.step P (.lookup o key) with
      | (_, .list l) =>
        br := mark br (if l.isSome then 'L' else 'l')
        f := f ++ (← cmpAns res k "lookup" (match l with | none => "N" | some l => showNodes l))
      | _ => throw "internal"
    | "sz" =>
      match Two.step P (.size o) with
      | (_, .nat n) => f := f ++ (← cmpAns res k "size" (toString n))
      | _ => throw "internal"
    | "em" =>
      match Two.step P (.empty o) with
      | (_, .bool b) => f := f ++ (← cmpAns res k "empty" (bnum b))
      | _ => throw "internal"
    | "cl" => P' := (Two.step P (.clear o)).1
    | "sw" =>
      let o2 ← fieldN parts 2 st
      if o2 ≥ h.m then throw s!"object out of range in {st}"
      br := mark br (if o == o2 then 's' else 'S')
      P' := (Two.step P (.swap o o2)).1
    | "of" =>
      let q ← fieldN parts 2 st; let Q ← fieldSet parts 3 st; let c ← fieldCmp parts 4 st
      match Two.step P (.offer o (upOf h q) (downOf h q) (cmpOf c) q Q) with
      | (P2, .bool b) =>
        P' := P2
        br := mark br (if b then 'O' else 'o')
        if b && Two.size (Two.obj P2 o) ≤ Two.size d then br := mark br 'R'
        f := f ++ (← cmpAns res k "contains/refine/insert combination" (bnum b))
      | _ => throw "internal"
    | _ => throw s!"unknown step {st}"
    f := f ++ (← cmpDumps res k op ((List.range h.m).map (fun o => dumpTwo (Two.obj P' o))))
    goTwo h rest res (k + 1) P' f br

/-! ### OrderedAntichain2C -/
partial def goOrd (h : Header) (steps res : List String) (k : Nat) (P : Ord.Pool Nat NSet) (f : List String) (br : List Char) :
    Except String (List String × List Char) :=
  match steps with
  | [] => pure (f, br)
  | st :: rest => do
    let lt := lessOf h.less
    let parts := st.splitOn "!"
    let op ← field parts 0 st
    let o ← fieldN parts 1 st
    if o ≥ h.m then throw s!"object out of range in {st}"
    let d := Ord.obj P o
    let mut f := f
    let mut br := br
    let mut P' := P
    match op with
    | "c" =>
      let ks ← fieldKeys parts 2 st; let Q ← fieldSet parts 3 st; let c ← fieldCmp parts 4 st
      match Ord.step lt P (.contains o ks Q (cmpOf c)) with
      | (_, .bool b) =>
        br := mark br (if b then 'C' else 'c')
        f := f ++ (← cmpAns res k "contains" (bnum b))
      | _ => throw "internal"
    | "r" =>
      let ks ← fieldKeys parts 2 st; let Q ← fieldSet parts 3 st; let c ← fieldCmp parts 4 st
      P' := (Ord.step lt P (.refine o ks Q (cmpOf c))).1
      if (Ord.obj P' o).data.length < d.data.length then br := mark br 'E'
      if (Two.keys (Ord.obj P' o).ac).length < (Two.keys d.ac).length then br := mark br 'K'
    | "i" =>
      let q ← fieldN parts 2 st; let Q ← fieldSet parts 3 st
      br := mark br (if (Two.keys d.ac).contains q then 'J' else 'I')
      match Ord.step lt P (.insert o q Q) with
      | (P2, .entry (some e)) =>
        P' := P2
        if e.2.1 != P.next then br := mark br 'X'      -- an equivalent element was there: contract of insert broken
        f := f ++ (← cmpAns res k "insert: returned iterator" s!"{e.1}:{e.2.1}")
      | _ => throw "internal"
    | "g" =>
      match Ord.step lt P (.get o) with
      | (P2, .entry x) =>
        P' := P2
        br := mark br (match x with | none => 'z' | some _ => if (Two.keys (Ord.obj P2 o).ac).length < (Two.keys d.ac).length then 'G' else 'g')
        f := f ++ (← cmpAns res k "get: the least element"
          (match x with | none => "0" | some e => s!"1:{e.1}:{showSet e.2.2}"))
      | _ => throw "internal"
    | "l" =>
      let key ← fieldN parts 2 st
      match Ord.step lt P (.lookup o key) with
      | (_, .list l) =>
        br := mark br (if l.isSome then 'L' else 'l')
        f := f ++ (← cmpAns res k "lookup" (match l with | none => "N" | some l => showNodes l))
      | _ => throw "internal"
    | "em" =>
      match Ord.step lt P (.empty o) with
      | (_, .bool b) => f := f ++ (← cmpAns res k "empty" (bnum b))
      | _ => throw "internal"
    | "cl" => P' := (Ord.step lt P (.clear o)).1
    | "of" =>
      let q ← fieldN parts 2 st; let Q ← fieldSet parts 3 st; let c ← fieldCmp parts 4 st
      match Ord.step lt P (.offer o (upOf h q) (downOf h q) (cmpOf c) q Q) with
      | (P2, .bool b) =>
        P' := P2
        br := mark br (if b then 'O' else 'o')
        if b && (Ord.obj P2 o).data.length ≤ d.data.length then br := mark br 'R'
        if b then
          let r := Ord.refine lt d (downOf h q) Q (fun P Q => cmpOf c Q P)
          if (Ord.insertRet lt r P.next q Q).2.1 != P.next then br := mark br 'X'   -- contract of insert broken inside the combination
        f := f ++ (← cmpAns res k "contains/refine/insert combination" (bnum b))
      | _ => throw "internal"
    | _ => throw s!"unknown step {st}"
    if (Ord.obj P' o).data.length != Two.size (Ord.obj P' o).ac then br := mark br 'U'   -- work-list and antichain out of step
    f := f ++ (← cmpDumps res k op ((List.range h.m).map (fun o => dumpOrd (Ord.obj P' o))))
    goOrd h rest res (k + 1) P' f br

/-! ### Antichain1C -/
partial def goOne (h : Header) (steps res : List String) (k : Nat) (P : One.Pool Nat) (f : List String) (br : List Char) :
    Except String (List String × List Char) :=
  match steps with
  | [] => pure (f, br)
  | st :: rest => do
    let parts := st.splitOn "!"
    let op ← field parts 0 st
    let o ← fieldN parts 1 st
    if o ≥ h.m then throw s!"object out of range in {st}"
    let d := One.obj P o
    let mut f := f
    let mut br := br
    let mut P' := P
    match op with
    | "c" =>
      let ks ← fieldKeys parts 2 st
      match One.step P (.contains o ks) with
      | (_, .bool b) =>
        br := mark br (if b then 'C' else 'c')
        f := f ++ (← cmpAns res k "contains" (bnum b))
      | _ => throw "internal"
    | "r" =>
      let ks ← fieldKeys parts 2 st
      P' := (One.step P (.refine o ks)).1
      if (One.obj P' o).length < d.length then br := mark br 'E'
      if ks.length != ks.eraseDups.length then br := mark br 'D'
    | "i" =>
      let q ← fieldN parts 2 st
      br := mark br (if d.contains q then 'J' else 'I')
      P' := (One.step P (.insert o q)).1
    | "n" =>
      let a ← getE (kv res s!"a{k}") s!"missing answer a{k}"
      if a == "0" then
        br := mark br 'z'
        match One.step P (.next o none) with
        | (_, .bool true) => pure ()
        | _ => f := f ++ [s!"violation step {k} (next) returned false on a non-empty antichain"]
      else
        match a.splitOn ":" with
        | ["1", ks] =>
          let key ← getE ks.toNat? "bad key in next answer"
          match One.step P (.next o (some key)) with
          | (P2, .bool true) => P' := P2; br := mark br 'g'
          | _ => f := f ++ [s!"violation step {k} (next) returned {key} which is not stored"]
        | _ => throw "bad next answer"
    | "cl" => P' := (One.step P (.clear o)).1
    | "of" =>
      let q ← fieldN parts 2 st
      match One.step P (.offer o (upOf h q) (downOf h q) q) with
      | (P2, .bool b) =>
        P' := P2
        br := mark br (if b then 'O' else 'o')
        if b && (One.obj P2 o).length ≤ d.length then br := mark br 'R'
        f := f ++ (← cmpAns res k "contains/refine/insert combination" (bnum b))
      | _ => throw "internal"
    | _ => throw s!"unknown step {st}"
    f := f ++ (← cmpDumps res k op ((List.range h.m).map (fun o => dumpOne (One.obj P' o))))
    goOne h rest res (k + 1) P' f br

/-! ### SequentialAntichain1C -/
partial def goSeq (h : Header) (steps res : List String) (k : Nat) (P : List (List NSet)) (f : List String) (br : List Char) :
    Except String (List String × List Char) :=
  match steps with
  | [] => pure (f, br)
  | st :: rest => do
    let parts := st.splitOn "!"
    let op ← field parts 0 st
    let o ← fieldN parts 1 st
    if o ≥ h.m then throw s!"object out of range in {st}"
    let d := P.getD o []
    let mut f := f
    let mut br := br
    let mut P' := P
    match op with
    | "i" =>
      let Q ← fieldSet parts 2 st; let c ← fieldCmp parts 3 st
      let x := Seq.insert (cmpOf c) d Q
      P' := P.set o x.2
      br := mark br (if x.1 then (if x.2.length ≤ d.length then 'R' else 'O') else 'o')
      f := f ++ (← cmpAns res k "insert" (bnum x.1))
    | "cl" => P' := P.set o (Seq.clear d)
    | _ => throw s!"unknown step {st}"
    f := f ++ (← cmpDumps res k op ((List.range h.m).map (fun o => dumpSeq (P'.getD o []))))
    goSeq h rest res (k + 1) P' f br

def check (args res : List String) : Except String (List String × String) := do
  let h ← getE (args[0]? >>= parseHeader?) "bad header"
  let steps := args.drop 1
  let (f, br) ←
    match h.cls with
    | "two" => goTwo h steps res 0 ⟨List.replicate h.m [], 0⟩ [] []
    | "ord" => goOrd h steps res 0 ⟨List.replicate h.m Ord.init, 0⟩ [] []
    | "one" => goOne h steps res 0 (List.replicate h.m []) [] []
    | "seq" => goSeq h steps res 0 (List.replicate h.m []) [] []
    | _ => throw "bad class"
  let brs := String.ofList (br.mergeSort (fun a b => a ≤ b))
  pure (f, s!"cls={h.cls}/{h.ty} less={h.less} steps={steps.length} br={brs}")

end AchainChk
