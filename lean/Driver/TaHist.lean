import Vata.Parse
/-! # Driver side of explicit tree-automata histories (`tah`): properties C11 (values) and C12 (container views) -/
open Vata

namespace TaHist

def getE (o : Option α) (msg : String) : Except String α :=
  match o with
  | some a => pure a
  | none => throw msg

def bchar (b : Bool) : Char := if b then '1' else '0'

def dumpAt (res : List String) (k i : Nat) : Except String (Option TA) :=
  match kv res s!"{k}.{i}" with
  | none => pure none
  | some t => do pure (some (← getE (parseTA? t) s!"bad TA {k}.{i}"))

def lookupFn (m : List (Nat × Nat)) : Nat → Nat := fun q => (m.lookup q).getD q

def dedupRules (rs : List Rule) : List Rule := rs.foldl (fun acc r => if acc.contains r then acc else acc ++ [r]) []

def parseRules? (s : String) : Option (List Rule) :=
  if s == "-" then some [] else (splitC s ';').mapM parseRule?

/-- multiset check: the listed rules are exactly `expected` (as a set) and nothing is listed twice -/
def exactRules (got expected : List Rule) : Bool := rulesEq got expected && nodupRules got

def natSorted? (s : String) : Option (List Nat) := if s == "-" then some [] else natList? s ','

/-- views of the touched entry against the value -/
def checkViews (res : List String) (k : Nat) (V : TA) : Except String (List String) := do
  let mut f : List String := []
  let acc ← getE ((kv res s!"acc{k}") >>= parseRules?) s!"bad acc{k}"
  let expAcc := (dedupRules V.rules).filter (fun r => V.final.contains r.parent)
  if !exactRules acc expAcc then f := f ++ [s!"violation step {k} GetAcceptTrans yields {acc.map showRule} expected {expAcc.map showRule}"]
  let used ← getE ((kv res s!"used{k}") >>= natSorted?) s!"bad used{k}"
  if !(seteq used V.states) || used.length != (dedupL used).length then
    f := f ++ [s!"violation step {k} GetUsedStates={used} expected {V.states}"]
  let te ← getE (kv res s!"te{k}") "missing te"
  if te != "-" && te != (bchar V.rules.isEmpty).toString then f := f ++ [s!"violation step {k} AreTransitionsEmpty={te}"]
  let down ← getE (kv res s!"down{k}") "missing down"
  for item in splitC down '/' do
    match item.splitOn "@" with
    | [qs, es, rs] =>
      let q ← getE qs.toNat? "bad down state"
      let got ← getE (parseRules? rs) "bad down rules"
      let exp := (dedupRules V.rules).filter (fun r => r.parent == q)
      if !exactRules got exp then f := f ++ [s!"violation step {k} operator[]({q}) yields {got.map showRule} expected {exp.map showRule}"]
      if es != (bchar exp.isEmpty).toString then f := f ++ [s!"violation step {k} operator[]({q}).empty()={es}"]
    | _ => throw "bad down item"
  let sc ← getE (kv res s!"selfc{k}") "missing selfc"
  if sc != "1" then f := f ++ [s!"violation step {k} ContainsTransition false on a rule the iteration yields"]
  pure f

partial def go (steps : List String) (res : List String) (k : Nat) (pool : List (Option TA)) (f : List String)
    (nmut nshared : Nat) : Except String (List String × Nat × Nat) :=
  match steps with
  | [] => pure (f, nmut, nshared)
  | st :: rest => do
    let parts := st.splitOn "!"
    let op := parts[0]!
    let argN (i : Nat) : Except String Nat := getE (parts[i]? >>= String.toNat?) s!"bad step {st}"
    let ent (i : Nat) : Except String TA := do
      let ix ← argN i
      getE ((pool[ix]?).join) s!"dead entry in {st}"
    let newIx := pool.length
    let newDump : Except String TA := do getE (← dumpAt res k newIx) s!"missing dump {k}.{newIx}"
    let mut f := f
    let mut pool' := pool
    let mut nmut := nmut
    match op with
    | "opt" => pure ()
    | "te" =>
      -- explicit AreTransitionsEmpty (non-const: it unshares the rule table, the value must not change)
      let A ← ent 1
      let v ← getE (kv res s!"tev{k}") "missing tev"
      if v != (bchar A.rules.isEmpty).toString then f := f ++ [s!"violation step {k} AreTransitionsEmpty={v}"]
    | "new" => pool' := pool ++ [some ⟨[], []⟩]
    | "def" =>
      let A ← getE (parts[1]? >>= parseTA?) "bad def"
      pool' := pool ++ [some A]
    | "copy" => pool' := pool ++ [some (← ent 1)]
    | "copynt" => let A ← ent 1; pool' := pool ++ [some ⟨[], A.final⟩]
    | "copynf" => let A ← ent 1; pool' := pool ++ [some ⟨A.rules, []⟩]
    | "assign" => let ix ← argN 1; let B ← ent 2; pool' := pool.set ix (some B)
    | "selfassign" => let _ ← ent 1; pure ()
    | "move" => let ix ← argN 1; let A ← ent 1; pool' := (pool.set ix none) ++ [some A]
    | "moveassign" =>
      let i ← argN 1; let j ← argN 2; let _ ← ent 1; let B ← ent 2
      if i != j then pool' := (pool.set i (some B)).set j none
    | "kill" => let ix ← argN 1; let _ ← ent 1; pool' := pool.set ix none
    | "add" | "addt" =>
      let ix ← argN 1; let A ← ent 1
      let r ← getE (parts[2]? >>= parseRule?) "bad rule"
      pool' := pool.set ix (some { A with rules := A.rules ++ [r] })
      nmut := nmut + 1
    | "final" =>
      let ix ← argN 1; let A ← ent 1; let q ← argN 2
      pool' := pool.set ix (some { A with final := A.final ++ [q] }); nmut := nmut + 1
    | "finals" =>
      let ix ← argN 1; let A ← ent 1
      let qs ← getE (parts[2]? >>= (fun s => natList? s ',')) "bad finals"
      pool' := pool.set ix (some { A with final := A.final ++ qs }); nmut := nmut + 1
    | "erasefinal" => let ix ← argN 1; let A ← ent 1; pool' := pool.set ix (some { A with final := [] }); nmut := nmut + 1
    | "clear" => let ix ← argN 1; let _ ← ent 1; pool' := pool.set ix (some ⟨[], []⟩); nmut := nmut + 1
    | "loadinto" =>
      -- `LoadFromString` into an existing automaton = the old value plus the image of the loaded description under the two
      -- translations the loader used (printed by the harness): `load_dump_roundtrip` / the loader model of `Vata/LoadDump.lean`
      let ix ← argN 1; let A ← ent 1
      let N ← getE (parts[2]? >>= parseTA?) "bad TA"
      let ld ← getE ((kv res s!"ld{k}") >>= parseMap?) "missing state dictionary"
      let sy ← getE ((kv res s!"sy{k}") >>= parseMap?) "missing symbol translation"
      let fs := fun q => (ld.lookup q).getD q
      let fy := fun a => (sy.lookup a).getD a
      let img : List Rule := N.rules.map (fun r => ⟨fy r.sym, r.kids.map fs, fs r.parent⟩)
      pool' := pool.set ix (some ⟨A.rules ++ img, A.final ++ N.final.map fs⟩); nmut := nmut + 1
    | "unreach" => let A ← ent 1; pool' := pool ++ [some (removeUnreachable A)]
    | "useless" => let A ← ent 1; pool' := pool ++ [some (removeUseless A)]
    | "cand" | "reduce" | "union" | "isect" | "isectbu" =>
      -- results with implementation-chosen numbering / witnesses: judged by C02 / C05 / C15; here only their stability
      let _ ← ent 1
      let D ← newDump
      pool' := pool ++ [some D]
    | "uniondisj" =>
      let A ← ent 1; let B ← ent 2
      if !(A.states.all (fun q => !B.states.contains q)) then throw "precondition: uniondisj operands share states"
      pool' := pool ++ [some (unionDisjoint A B)]
    | "reindex" =>
      let A ← ent 1
      let m ← getE (parts[2]? >>= parseMap?) "bad map"
      pool' := pool ++ [some (reindex (lookupFn m) A)]
    | "reindexinto" =>
      let A ← ent 1; let j ← argN 2; let D ← ent 2
      let m ← getE (parts[3]? >>= parseMap?) "bad map"
      let img := reindex (lookupFn m) A
      pool' := pool.set j (some ⟨D.rules ++ img.rules, D.final ++ img.final⟩)
    | "probe" =>
      let A ← ent 1
      let rs ← getE (parts[2]? >>= parseRules?) "bad probe rules"
      let qs ← getE (parts[3]? >>= natSorted?) "bad probe states"
      let cont ← getE (kv res s!"cont{k}") "missing cont"
      for (c, r) in cont.toList.zip rs do
        if c == 'X' then f := f ++ [s!"violation step {k} ContainsTransition overloads disagree on {showRule r}"]
        else if c != bchar (A.rules.contains r) then f := f ++ [s!"violation step {k} ContainsTransition({showRule r})={c}"]
      let isf ← getE (kv res s!"isf{k}") "missing isf"
      for (c, q) in isf.toList.zip qs do
        if c != bchar (A.final.contains q) then f := f ++ [s!"violation step {k} IsStateFinal({q})={c}"]
    | _ => throw s!"unknown step {st}"
    -- value semantics: after the step every live entry shows exactly its value, each rule once
    let mut nshared := nshared
    for i in List.range pool'.length do
      match pool'[i]?.join, (← dumpAt res k i) with
      | some V, some D =>
        if !(taEq V D) then
          f := f ++ [s!"violation step {k} ({op}): entry {i} shows {showTA D} but its value is {showTA V}"]
        else if !nodupRules D.rules then
          f := f ++ [s!"violation step {k} ({op}): iteration of entry {i} yields a rule twice: {showTA D}"]
      | none, none => pure ()
      | some _, none => f := f ++ [s!"violation step {k}: live entry {i} not dumped"]
      | none, some _ => throw "dead entry dumped"
    if (pool'.filter Option.isSome).length > 1 then nshared := nshared + 1
    -- views of the touched entry
    match kv res s!"t{k}" >>= String.toNat? with
    | some t =>
      match pool'[t]?.join with
      | some V => f := f ++ (← checkViews res k V)
      | none => pure ()
    | none => pure ()
    go rest res (k + 1) pool' f nmut nshared

def check (args res : List String) : Except String (List String × String) := do
  let (f, nmut, nshared) ← go args res 0 [] [] 0 0
  pure (f, s!"steps={args.length} mut={nmut} shared={bchar (nshared > 2)}")

end TaHist
