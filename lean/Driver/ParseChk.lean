import Vata.Parse
import Vata.Timbuk
/-! # Driver side of the Timbuk text check (`parse`): property C13 -/
open Vata Vata.Timbuk

namespace ParseChk

def hexVal (c : Char) : Nat :=
  if c.isDigit then c.toNat - 48 else if 'a' ≤ c ∧ c ≤ 'f' then c.toNat - 87 else c.toNat - 55

def unhex : List Char → List Char
  | a :: b :: r => Char.ofNat (hexVal a * 16 + hexVal b) :: unhex r
  | _ => []

def hexDigit (n : Nat) : Char := "0123456789abcdef".toList[n]!
def hex (s : List Char) : String :=
  String.ofList (s.flatMap (fun c => [hexDigit (c.toNat / 16 % 16), hexDigit (c.toNat % 16)]))

def dump (d : Desc) : String :=
  "name=" ++ hex d.name ++ ";syms=" ++ ",".intercalate (d.symbols.map (fun p => hex p.1 ++ ":" ++ toString p.2))
  ++ ";states=" ++ ",".intercalate (d.states.map hex) ++ ";final=" ++ ",".intercalate (d.final.map hex)
  ++ ";trans=" ++ ",".intercalate (d.trans.map (fun t => String.join (t.1.map (fun k => hex k ++ "|")) ++ "/" ++ hex t.2.1 ++ "/" ++ hex t.2.2))
  ++ ";ser=" ++ hex (serializeC d)

def check (args res : List String) : Except String (List String × String) := do
  let inp := unhex ((args[0]?.getD "").toList)
  let P ← match kv res "P" with | some p => pure p | none => throw "missing P"
  let L ← match kv res "L" with | some p => pure p | none => throw "missing L"
  let mut f : List String := []
  let model := parseC inp
  match model with
  | .error _ =>
    if P != "ERR" then f := f ++ [s!"mismatch the parser accepts a text the model rejects: {P.take 120}"]
  | .ok d =>
    if P == "ERR" then f := f ++ ["mismatch the parser rejects (throws on) a text the model accepts"]
    else
      -- strip the trailing `;again=…`
      let body := (P.splitOn ";again=")[0]!
      let again := ((P.splitOn ";again=")[1]?).getD "?"
      if body != "OK;" ++ dump d then f := f ++ [s!"mismatch parsed description / serialisation differ from the model: impl={body.take 200} model={(dump d).take 200}"]
      let goodD := d.symbols.all (fun p => goodName p.1) && d.states.all goodName && d.final.all goodName &&
        d.trans.all (fun t => t.1.all goodName && goodName t.2.1 && goodName t.2.2)
      if goodD && again != "1" then f := f ++ [s!"violation parse(serialize(d)) ≠ d on a description the parser produced (again={again})"]
  -- the four loaders: either succeed and round-trip, or throw; the round trip is only promised for names without
  -- whitespace and reserved punctuation (`goodName`, the hypothesis of `parse_serialize`)
  let good := match model with
    | .ok d => d.symbols.all (fun p => goodName p.1) && d.states.all goodName && d.final.all goodName &&
        d.trans.all (fun t => t.1.all goodName && goodName t.2.1 && goodName t.2.2)
    | .error _ => false
  for (c, n) in (if good then L.toList.zip ["explicit", "bdd-bu", "bdd-td", "nfa"] else []) do
    if c == '0' then f := f ++ [s!"violation load→dump→load→dump changes rules or final states in the {n} encoding"]
    if c == 'e' then f := f ++ [s!"violation the {n} encoding cannot reload its own dump"]
    if c == 'd' then f := f ++ [s!"violation the dump of the {n} encoding does not show the rules / final states that were loaded"]
  let acc := match model with | .ok _ => "1" | .error _ => "0"
  pure (f, s!"accepted={acc} goodnames={if good then 1 else 0} loaders={L}")

/-- `parse2`: two spellings of ONE description (C13: "nullary rules written with or without parentheses", free layout; the model is
invariant: `C13_nullary_parens`, `C13_layout_insensitive`).  When the model reads both texts as the same description the implementation must
too – a difference is a failing input of the property itself; each result is also compared with the model's. -/
def check2 (args res : List String) : Except String (List String × String) := do
  let t0 := unhex ((args[0]?.getD "").toList)
  let t1 := unhex ((args[1]?.getD "").toList)
  let P0 ← match kv res "P0" with | some p => pure p | none => throw "missing P0"
  let P1 ← match kv res "P1" with | some p => pure p | none => throw "missing P1"
  let show_ (m : Except String Desc) : String := match m with | .ok d => (("OK;" ++ dump d).splitOn ";ser=")[0]! | .error _ => "ERR"
  let m0 := show_ (parseC t0)
  let m1 := show_ (parseC t1)
  if m0 != m1 then throw "precondition: the model reads the two spellings differently (generator)"
  let mut f : List String := []
  if P0 != P1 then f := f ++ [s!"violation two spellings of one description parse differently: canonical {P0.take 160} respelled {P1.take 160}"]
  if P0 != m0 then f := f ++ [s!"mismatch parsed description differs from the model: impl={P0.take 160} model={m0.take 160}"]
  if P1 != m1 && P0 == P1 then f := f ++ [s!"mismatch parsed description (respelled text) differs from the model: impl={P1.take 160} model={m1.take 160}"]
  pure (f, s!"accepted={if m0 == "ERR" then 0 else 1} respelled=1")

end ParseChk
