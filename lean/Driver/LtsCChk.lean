import Vata.Parse
import Vata.LtsContainer
/-!
# Driver side of the `ltsc` kind (property C16): histories on the container `ExplicitLTS` against its model as coded

`Vata/LtsContainer.lean` (the repaired `init()`: `C16_container_refines`, `C16_container_views_after_init`, `C16_container_never_overruns`).
After every `init` step the harness dumps every public view of the real object in one token; the same token is computed from the model.
A difference is a broken correspondence (`mismatch`); the views are what the simulation engine reads, so it is reported under C16.
-/
open Vata

namespace LtsCChk

def list (l : List Nat) : String := ",".intercalate (l.map toString)

def views (c : LC.LtsC) : String :=
  let n := c.states
  let m := c.labels
  let per (f : Nat → Nat → String) : String :=
    String.join ((List.range m).flatMap (fun a => (List.range n).map (fun q => s!"{a}.{q}={f a q};")))
  let bw := String.join ((List.range n).map (fun r =>
    s!"{r}=" ++ ",".intercalate (((c.bw.getD r default).elems).map (fun e => s!"{e.1}:{e.2}")) ++ ";"))
  let d1 := String.join ((List.range m).map (fun a => s!"{a}=" ++ list ((c.buildDelta1.getD a default).keys) ++ ";"))
  s!"states:{n}/labels:{m}/post:" ++ per (fun a q => list (c.post a q)) ++ "/pre:" ++ per (fun a q => list (c.pre a q)) ++ "/bw:" ++ bw ++ "/d1:" ++ d1

def check (steps res : List String) : Except String (List String × String) := do
  let mut c : LC.LtsC := LC.run []
  let mut f : List String := []
  let mut k := 0
  let mut inits := 0
  for st in steps do
    let parts := st.splitOn "!"
    let num (i : Nat) : Except String Nat := match parts[i]? >>= String.toNat? with | some v => pure v | none => throw s!"bad step {st}"
    match parts[0]! with
    | "new" => c := LC.step c (.construct (← num 1))
    | "add" => c := LC.step c (.add (← num 1) (← num 2) (← num 3))
    | "clear" => c := LC.step c .clear
    | "init" =>
      c := LC.step c .init
      inits := inits + 1
      match kv res s!"V{k}" with
      | some v => if v != views c then f := f ++ [s!"mismatch step {k} (init): views of the real ExplicitLTS {v} model {views c}"]
      | none => throw s!"missing V{k}"
      if c.ub then f := f ++ [s!"mismatch step {k}: the model reports an overrun of a SmartSet (proved impossible: C16_container_never_overruns)"]
    | _ => throw s!"unknown step {st}"
    k := k + 1
  pure (f, s!"ltsc=1 inits={inits}")

end LtsCChk
