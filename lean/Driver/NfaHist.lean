import Vata.Parse
import Vata.Generated.Tables
import Vata.NfaOps
import Vata.NfaIncl
import Vata.NfaInclSim
import Vata.Properties.C09_Sim
import Vata.Proofs.NfaInclSimACTotal
/-! # Driver side of NFA histories (`nfah`): properties C09, C10, C11 (word automata) -/
open Vata
open Vata.W (NFA acceptsW)

namespace NfaHist

def FUEL : Nat := 1000000

def transEq (a b : List (Nat × Nat × Nat)) : Bool := a.all (fun e => b.contains e) && b.all (fun e => a.contains e)
def nfaEq (A B : NFA) : Bool := transEq A.trans B.trans && seteq A.start B.start && seteq A.final B.final
def nfaSub (R N : NFA) : Bool := R.trans.all (fun e => N.trans.contains e) && subB R.start N.start && subB R.final N.final

def nfaStates (N : NFA) : List Nat := dedupL (N.start ++ N.final ++ N.trans.flatMap (fun e => [e.1, e.2.2]))
def nfaMap (f : Nat → Nat) (N : NFA) : NFA := ⟨N.start.map f, N.final.map f, N.trans.map (fun e => (f e.1, e.2.1, f e.2.2))⟩
def nfaUnionDisjoint (A B : NFA) : NFA := ⟨A.start ++ B.start, A.final ++ B.final, A.trans ++ B.trans⟩

def getE (o : Option α) (msg : String) : Except String α :=
  match o with
  | some a => pure a
  | none => throw msg

def bchar (b : Bool) : Char := if b then '1' else '0'

/-- value of pool entry `i` dumped after step `k` -/
def dumpAt (res : List String) (k i : Nat) : Except String (Option NFA) :=
  match kv res s!"{k}.{i}" with
  | none => pure none
  | some t => do pure (some (← getE (parseNfa? t) s!"bad NFA {k}.{i}"))

def lookupFn (m : List (Nat × Nat)) : Nat → Nat := fun q => (m.lookup q).getD q

/-- processes the steps; `pool` = the values the model believes the entries have (none = dead) -/
partial def go (steps : List String) (res : List String) (k : Nat) (pool : List (Option NFA)) (f : List String)
    (tags : List String) : Except String (List String × List String) :=
  match steps with
  | [] => pure (f, tags)
  | st :: rest => do
    let parts := st.splitOn ":"
    let op := parts[0]!
    let argN (i : Nat) : Except String Nat := getE (parts[i]? >>= String.toNat?) s!"bad step {st}"
    let ent (i : Nat) : Except String NFA := do
      let ix ← argN i
      getE ((pool[ix]?).join) s!"dead entry in {st}"
    let newIx := pool.length
    let mut f := f
    let mut tags := tags
    let mut pool' := pool
    -- what the implementation shows for the new entry
    let newDump : Except String NFA := do getE (← dumpAt res k newIx) s!"missing dump {k}.{newIx}"
    match op with
    | "def" =>
      let N ← getE (parseNfa? ((st.drop 4).toString)) "bad def"
      let D ← newDump
      if !nfaEq D N then f := f ++ [s!"violation step {k} def: dump differs from the automaton built: {showNfa D}"]
      pool' := pool ++ [some N]
    | "copy" =>
      let A ← ent 1
      let D ← newDump
      if !nfaEq D A then f := f ++ [s!"violation step {k} copy differs from its source"]
      pool' := pool ++ [some A]
    | "union" =>
      let A ← ent 1
      let B ← ent 2
      let D ← newDump
      let ml ← getE ((kv res s!"ml{k}") >>= parseMap?) "bad ml"
      let mr ← getE ((kv res s!"mr{k}") >>= parseMap?) "bad mr"
      let ok ← getE (isUnionW D A B FUEL) "fuel"
      if !ok then f := f ++ [s!"violation step {k} union-language"]
      else if !nfaEq D (nfaUnionDisjoint (nfaMap (lookupFn ml) A) (nfaMap (lookupFn mr) B)) then
        f := f ++ [s!"mismatch step {k} union is not the image under the reported maps"]
      pool' := pool ++ [some D]
    | "unionpre" =>
      -- `Union` with caller-supplied pre-filled maps (injective with disjoint images: what a caller chaining unions supplies)
      let A ← ent 1
      let B ← ent 2
      let D ← newDump
      let preL ← getE (parts[3]? >>= parseMap?) "bad pre-filled ml"
      let preR ← getE (parts[4]? >>= parseMap?) "bad pre-filled mr"
      let vals := preL.map (·.2) ++ preR.map (·.2)
      if vals.eraseDups.length != vals.length then throw "precondition: pre-filled maps not injective with disjoint images"
      let ml ← getE ((kv res s!"ml{k}") >>= parseMap?) "bad ml"
      let mr ← getE ((kv res s!"mr{k}") >>= parseMap?) "bad mr"
      let ok ← getE (isUnionW D A B FUEL) "fuel"
      if !ok then f := f ++ [s!"violation step {k} union-language (pre-filled maps)"]
      else if !nfaEq D (nfaUnionDisjoint (nfaMap (lookupFn ml) A) (nfaMap (lookupFn mr) B)) then
        f := f ++ [s!"mismatch step {k} union is not the image under the reported maps"]
      if !(preL.all (fun e => ml.contains e) && preR.all (fun e => mr.contains e)) then
        f := f ++ [s!"violation step {k} union changed an entry of a pre-filled translation map"]
      tags := tags ++ ["unionpre=1"]
      pool' := pool ++ [some D]
    | "uniondisj" =>
      let A ← ent 1
      let B ← ent 2
      let D ← newDump
      if !((nfaStates A).all (fun q => !(nfaStates B).contains q)) then throw "precondition: uniondisj operands share states"
      let ok ← getE (isUnionW D A B FUEL) "fuel"
      if !ok then f := f ++ [s!"violation step {k} uniondisjoint-language"]
      else if !nfaEq D (nfaUnionDisjoint A B) then f := f ++ [s!"mismatch step {k} uniondisjoint-model"]
      pool' := pool ++ [some D]
    | "isect" =>
      let A ← ent 1
      let B ← ent 2
      let D ← newDump
      let ok ← getE (isIsectW D A B FUEL) "fuel"
      if !ok then f := f ++ [s!"violation step {k} isect-language"]
      -- the L2 model (`nfaProd_cert`, `nfaIsect_lang`): the product on the pairs reachable from the start pairs under the
      -- reported numbering, followed by the removal of useless states; the reported map must satisfy the certificate
      -- (start pairs inside, closed under joint transitions, injective) and the result must be exactly that automaton
      match (kv res s!"m{k}") >>= parsePairMap? with
      | some pm =>
        let dom := pm.map (·.1)
        let mf := fun p => (pm.lookup p).getD 0
        if ok && !(Vata.nfaProdCertB A B dom mf) then
          f := f ++ [s!"mismatch step {k} the reported product map is not a closed injective numbering of the reachable pairs: {dom}"]
        else if ok && !nfaEq D (Vata.nfaRemoveUseless (Vata.nfaProdOn A B dom mf)) then
          f := f ++ [s!"mismatch step {k} isect-model: implementation {showNfa D} model {showNfa (Vata.nfaRemoveUseless (Vata.nfaProdOn A B dom mf))}"]
      | none => pure ()
      let e ← getE (emptyW D FUEL) "fuel"
      tags := tags ++ [s!"isectempty={bchar e}"]
      pool' := pool ++ [some D]
    | "rev" =>
      let A ← ent 1
      let D ← newDump
      let ok ← getE (equivW D (nfaReverse A) FUEL) "fuel"
      if !ok then f := f ++ [s!"violation step {k} reverse-language"]
      else if !nfaEq D (nfaReverse A) then f := f ++ [s!"mismatch step {k} reverse-model"]
      pool' := pool ++ [some D]
    | "unreach" | "useless" =>
      let A ← ent 1
      let D ← newDump
      let ok ← getE (equivW D A FUEL) "fuel"
      if !ok then f := f ++ [s!"violation step {k} {op}-language"]
      if !nfaSub D A then f := f ++ [s!"mismatch step {k} {op} result is not a sub-automaton"]
      -- the L2 models (`nfaRemoveUnreachable_lang`, `nfaRemoveUseless_lang/_trim`) keep the state names: exact comparison
      let M := if op == "unreach" then Vata.nfaRemoveUnreachable A else Vata.nfaRemoveUseless A
      if ok && !nfaEq D M then f := f ++ [s!"mismatch step {k} {op}-model: implementation {showNfa D} model {showNfa M}"]
      pool' := pool ++ [some D]
    | "cand" =>
      let A ← ent 1
      let D ← newDump
      if !nfaSub D A then
        let inc ← getE (inclW D A FUEL) "fuel"
        if !inc then f := f ++ [s!"violation step {k} witness-not-sublanguage"]
        else f := f ++ [s!"mismatch step {k} witness-not-a-subautomaton"]
      let eA ← getE (emptyW A FUEL) "fuel"
      let eD ← getE (emptyW D FUEL) "fuel"
      if eD && !eA then f := f ++ [s!"violation step {k} witness-empty-for-nonempty-language"]
      tags := tags ++ [s!"candempty={bchar eA}"]
      pool' := pool ++ [some D]
    | "incl" =>
      let A ← ent 1
      let B ← ent 2
      let v ← getE (kv res s!"v{k}") "missing verdicts"
      let exp ← getE (inclW A B FUEL) "fuel"
      for (c, n) in v.toList.zip ["antichains", "congr-depth", "congr-breadth", "default"] do
        if c != bchar exp then f := f ++ [s!"violation step {k} incl[{n}]={c} reference={bchar exp}"]
      -- the L2 models of the algorithms (`checkNfaInclAC_iff/_total`, `checkNfaInclCongr_iff/_total`): must return and
      -- agree with the implementation's verdict of the same algorithm (and with the reference)
      let models : List (String × Option (Bool × Vata.NfaIncl.Cert)) :=
        [("antichains", Vata.checkNfaInclAC A B 200000), ("congr-depth", Vata.checkNfaInclCongr A B false 200000),
         ("congr-breadth", Vata.checkNfaInclCongr A B true 200000)]
      for ((n, mo), c) in models.zip v.toList do
        match mo with
        | some (b, _) =>
          if bchar b != c then f := f ++ [s!"mismatch step {k} {n}-model verdict {bchar b} implementation {c}"]
          if b != exp then throw s!"internal: certifying {n} model contradicts the reference"
        | none => f := f ++ [s!"mismatch step {k} {n}-model returned none (fuel / certificate)"]
      let eA ← getE (emptyW A FUEL) "fuel"
      tags := tags ++ [s!"incl={bchar exp}", s!"emptyA={bchar eA}"]
    | "inclsim" =>
      -- the two selections that take a simulation relation (`ANTICHAINS_SIM`, `CONGR_DEPTH_SIM`; models and theorems:
      -- `Vata/NfaInclSim.lean`, `C09_antichain_sim_exact`, `C09_congr_sim_exploration_exact`)
      let A ← ent 1
      let B ← ent 2
      let R : Rel ← getE (parts[3]? >>= (fun t => if t == "-" then some [] else
        (t.splitOn ",").mapM (fun e => match e.splitOn "." with
          | [a, b] => do pure ((← a.toNat?), (← b.toNat?))
          | _ => none))) "bad relation"
      if !((nfaStates A).all (fun q => !(nfaStates B).contains q)) then throw "precondition: inclsim operands share states"
      if !isNfaSimPreB (nfaUnionDisjoint A B) R then throw "precondition: relation is not a simulation preorder on the union"
      let v ← getE (kv res s!"vs{k}") "missing sim verdict vector"
      let exp ← getE (inclW A B FUEL) "fuel"
      if v.length != 2 then throw "bad sim verdict vector"
      for (c, n, mo) in [(v.toList[0]!, "antichains+sim", nfaInclACSimRaw A B R (NfaIncl.fuelBoundAC A B + 1)), (v.toList[1]!, "congr-depth+sim", nfaInclCongrSimRaw A B R 100000)] do
        if c == 'T' then f := f ++ [s!"violation step {k} incl[{n}] did not return within its budget"]
        else if c != bchar exp then f := f ++ [s!"violation step {k} incl[{n}]={c} reference={bchar exp}"]
        match mo with
        | some b =>
          if bchar b != c then f := f ++ [s!"mismatch step {k} {n}-model verdict {bchar b} implementation {c}"]
        | none => f := f ++ [s!"mismatch step {k} {n}-model returned none (fuel)"]
      tags := tags ++ [s!"inclsim={bchar exp}", s!"simpairs={if R.length ≤ (nfaStates A).length + (nfaStates B).length then "id" else "more"}"]
    | "inclall" =>
      let A ← ent 1
      let B ← ent 2
      let w ← getE (kv res s!"w{k}") "missing option vector"
      let exp ← getE (inclW A B FUEL) "fuel"
      let impl := Vata.Gen.faDispatch.map (·.word)
      for (c, i) in w.toList.zip (List.range 128) do
        if c == '-' then continue
        if impl.contains i then
          if c == 'N' || c == 'E' || c == 'T' || c == 'C' then
            f := f ++ [s!"violation step {k} implemented option word {i} answered {c}"]
          else if [0, 1, 33, 65, 97].contains i && c != bchar exp then
            f := f ++ [s!"violation step {k} incl[word {i}]={c} reference={bchar exp}"]
          if [65, 97].contains i then
            -- the equivalence functor as coded on (A ⊎ B, B) (`checkNfaInclEquiv`, `C09_equiv_functor_exact/_total`)
            match Vata.Props.C09Sel.model i A B [] (Vata.Props.C09Sel.bound i A B + 1) with
            | some b => if bchar b != c then f := f ++ [s!"mismatch step {k} equivalence-functor model (word {i}) {bchar b} implementation {c}"]
            | none => f := f ++ [s!"mismatch step {k} equivalence-functor model (word {i}) returned none above its proved bound"]
        else if c != 'N' then
          f := f ++ [s!"violation step {k} unimplemented option word {i} answered {c} instead of NotImplementedException"]
      tags := tags ++ ["inclall=1"]
    | "add" =>
      let ix ← argN 1
      let A ← ent 1
      let t ← getE (parts[2]? >>= (fun s => natList? s ',')) "bad add"
      match t with
      | [a, b, c] => pool' := pool.set ix (some { A with trans := A.trans ++ [(a, b, c)] })
      | _ => throw "bad add"
    | "final" =>
      let ix ← argN 1
      let A ← ent 1
      let q ← argN 2
      pool' := pool.set ix (some { A with final := A.final ++ [q] })
    | "start" =>
      let ix ← argN 1
      let A ← ent 1
      let q ← argN 2
      pool' := pool.set ix (some { A with start := A.start ++ [q] })
    | "assign" =>
      let ix ← argN 1
      let B ← ent 2
      pool' := pool.set ix (some B)
    | "move" =>
      let ix ← argN 1
      let A ← ent 1
      pool' := (pool.set ix none) ++ [some A]
    | "kill" =>
      let ix ← argN 1
      pool' := pool.set ix none
    | "rt" =>
      -- C13: dump → Timbuk text → load into a fresh automaton → dump by names shows the same automaton; the start states
      -- read through the API are the start states of the value (so the dump, the only rule observer, is itself observed)
      let A ← ent 1
      let D ← getE ((kv res s!"rt{k}") >>= parseNfa?) "missing reload dump"
      if !nfaEq D A then
        f := f ++ [s!"violation step {k}: dump / load / dump shows {showNfa D} for an automaton whose value is {showNfa A}"]
      let ss ← getE ((kv res s!"ss{k}") >>= (fun t => if t == "-" then some [] else natList? t ',')) "missing start states"
      if !seteq ss A.start then
        f := f ++ [s!"violation step {k}: GetStartStates = {ss} but the automaton's start states are {A.start} (the dump shows start rules the automaton does not have, or hides some)"]
      tags := tags ++ ["rt=1"]
    | _ => throw s!"unknown step {st}"
    -- value semantics: after the step every live entry shows exactly the value the model holds for it
    for i in List.range pool'.length do
      match pool'[i]?.join, (← dumpAt res k i) with
      | some V, some D =>
        if !nfaEq V D then
          f := f ++ [s!"violation step {k} ({op}): entry {i} shows {showNfa D} but its value is {showNfa V} (changed through another object or operation)"]
      | none, none => pure ()
      | some _, none => f := f ++ [s!"violation step {k}: live entry {i} not dumped"]
      | none, some _ => throw "dead entry dumped"
    go rest res (k + 1) pool' f tags

def check (args res : List String) : Except String (List String × String) := do
  let (f, tags) ← go args res 0 [] [] []
  pure (f, " ".intercalate tags)

end NfaHist
