import Vata.Parse
import Vata.BddSim
import Vata.Sanitize
/-!
# Driver side of the `bddsim` kind (property C07): `BDDBUTreeAutCore::ComputeDownwardSimulation(size)`

case    `bddsim <A> <n> <mode> [<B>]`      (see `harness/op_bddsim.inc`; modes `add`, `load`, `useless`, `pipe`)
result  `n=<n used> size=<k> m=<row>/<row>/… U=<automaton before the call> A=<automaton after the call>`

The relation is judged on `U`, the automaton the simulation was computed on (modes `add`/`load`: the case's automaton,
which `U` must equal; `useless`: its `RemoveUselessStates()`; `pipe`: the disjoint union of the sanitised operands).

* `violation` – the output contradicts a theorem about the function (`Vata/Proofs/BddSim.lean`): the relation is not a
  downward simulation on the automaton (`bddDownSim_downSim`; the pruned downward inclusion would be unsound), the size of
  the matrix is not the requested one, the operand changed, the loaded automaton is not the case's automaton; `pipe`: the
  states of the sanitised union are not exactly `0..n-1` (`sanitize_dense`), the relation is not the greatest downward
  simulation (`C07_bddsim_bu_downward_sim_exact`);
* `mismatch`  – the matrix differs from the one the model `Vata.BddSim.bddDownSim` computes on `U` (for `useless` / `pipe`
  also: the table kept "ghost" keys over states without a top-down entry – `bddDownSimOrd_ghost_indep` says other ghost
  keys cannot matter), `U` is not what the models `removeUseless` / `sanitize` give (sizes).
The model is also run with a second, different iteration order and compared with its characterisation
(`bddDownSim_char`): a difference there is an internal error of the check, never a verdict.
-/
open Vata Vata.BddSim

namespace BddSimChk

def getE (o : Option α) (msg : String) : Except String α :=
  match o with
  | some a => pure a
  | none => throw msg

def bchar (b : Bool) : Char := if b then '1' else '0'

def parseRow? (s : String) : Option (List Bool) :=
  s.toList.mapM (fun c => if c == '1' then some true else if c == '0' then some false else none)

def relOfMatrix (m : List (List Bool)) : Rel :=
  ((List.range m.length).zip m).flatMap (fun ir =>
    ((List.range ir.2.length).zip ir.2).filterMap (fun jb => if jb.2 then some (ir.1, jb.1) else none))

def showMatrix (m : List (List Bool)) : String :=
  if m.isEmpty then "-" else "/".intercalate (m.map (fun r => String.ofList (r.map bchar)))

/-- a second admissible iteration order: everything reversed, another pick sequence -/
def altOrder (A : TA) : Order := revOrder A (fun k => 7 * k + 3)

def dedupRules (rs : List Rule) : List Rule := rs.foldl (fun acc r => if acc.contains r then acc else acc ++ [r]) []

def check (args res : List String) : Except String (List String × String) := do
  let A₀ ← getE (args[0]? >>= parseTA?) "bad A"
  let n₀ ← getE (args[1]? >>= String.toNat?) "bad n"
  let mode := args[2]?.getD "?"
  if !(["add", "load", "useless", "pipe"].contains mode) then throw "bad mode"
  let n ← getE ((kv res "n") >>= String.toNat?) "missing n"
  let size ← getE ((kv res "size") >>= String.toNat?) "missing size"
  let ms ← getE (kv res "m") "missing m"
  let m ← getE ((if ms == "-" then [] else ms.splitOn "/").mapM parseRow?) "bad matrix"
  let A ← getE ((kv res "U") >>= parseTA?) "bad dump before the call"
  let A' ← getE ((kv res "A") >>= parseTA?) "bad dump after the call"
  -- the contract of the function: states inside the matrix, 16-bit symbols; Timbuk text: one rank per symbol
  if mode != "pipe" then
    if n != n₀ then throw "harness used another n"
    if !(A₀.states.all (fun q => decide (q < n))) then throw "precondition: state outside 0..n-1"
  if !(A₀.rules.all (fun r => decide (r.sym < 65536))) then throw "precondition: symbol outside 16 bits"
  let ranks2 (X : TA) := X.rules.any (fun r => X.rules.any (fun r' => r.sym == r'.sym && r.kids.length != r'.kids.length))
  let twoRanks := ranks2 A₀
  if mode != "add" && twoRanks then throw "precondition: symbol with two ranks in Timbuk text"
  let mut f : List String := []
  if !nodupRules A.rules then f := f ++ ["violation duplicate rule in the dump"]
  if !(taEq A A' && nodupRules A'.rules) then f := f ++ [s!"violation operand-changed now={showTA A'}"]
  if (mode == "add" || mode == "load") && !(taEq A A₀) then
    f := f ++ [s!"violation the loaded automaton is not the case's automaton: {showTA A}"]
  if mode == "useless" && !(taEq A (removeUseless A₀)) then
    f := f ++ [s!"mismatch RemoveUselessStates differs from the model: {showTA A}"]
  if mode == "pipe" then
    let B₀ ← getE (args[3]? >>= parseTA?) "bad B"
    if ranks2 ⟨A₀.rules ++ B₀.rules, []⟩ then throw "precondition: symbol with two ranks in Timbuk text"
    -- `sanitize_dense`, `sanitize_count`: the states of the union are exactly 0..n-1
    if !(A.states.all (fun q => decide (q < n)) && A.states.length == n) then
      f := f ++ [s!"violation the states of the sanitised union are not exactly 0..{n}-1: {A.states}"]
    let S := sanitize A₀ B₀
    if n != S.2.2 || (dedupRules A.rules).length != (dedupRules (S.1.rules ++ S.2.1.rules)).length then
      f := f ++ [s!"mismatch sanitised union differs in size from the model: n={n} model={S.2.2}"]
  if !(A.states.all (fun q => decide (q < n))) then throw "state outside the matrix"
  if size != n then f := f ++ [s!"violation relation-size={size} requested={n}"]
  if m.length != size || !(m.all (fun r => r.length == size)) then throw "matrix is not size × size"
  let rel := relOfMatrix m
  -- (a) a downward simulation on the automaton
  let badPairs := rel.filter (fun p => !downOk A rel p.1 p.2)
  if !badPairs.isEmpty then
    f := f ++ [s!"violation not-a-downward-simulation: the pairs {badPairs} fail the transfer condition"]
  if mode == "pipe" && !relEq rel (downSimRef A) then
    f := f ++ ["violation the relation on the sanitised union is not the greatest downward simulation"]
  -- the model
  let o := stdOrder A
  let fuel := fuelBound A + 1
  match bddDownSim A n fuel with
  | none => throw "internal: model returned none within its proved bound"
  | some R =>
    -- theorems about the model, re-checked on the instance
    let Q := o.Q
    let char := (downSimRef A).filter (fun p => Q.contains p.1 && Q.contains p.2)
    if !relEq R char then throw "internal: model differs from its characterisation"
    match bddDownSimOrd A n (altOrder A) fuel with
    | none => throw "internal: model (second order) returned none"
    | some R2 => if !relEq R R2 then throw "internal: model depends on the iteration order"
    if !isDownSimB A R then throw "internal: model result is not a downward simulation"
    let mm := matrix R n
    if size == n && mm != m then
      let extra := rel.filter (fun p => !R.contains p)
      let missing := R.filter (fun p => !rel.contains p)
      f := f ++ [s!"mismatch matrix differs from the model: extra={extra} missing={missing} model={showMatrix mm}"]
    -- statistics: which branches the case exercised
    let T := o.T
    let parentOnly := (A.states.filter (fun q => !Q.contains q)).length
    let noRule := (Q.filter (fun q => !(A.rules.any (fun r => r.parent == q)))).length
    let pairsT := T.flatMap (fun t => (T.filter (fun t' => t'.length == t.length && !t.isEmpty)).map (fun t' => (t, t')))
    let processed := pairsT.filter (fun e => !kidsRel R e.1 e.2)
    let wrap := processed.any (fun e => A.rules.any (fun r => r.kids == e.2 && !Q.contains r.parent))
    let init := initSim A Q
    let ir := (initRem A T Q).length
    let equiv := (R.filter (fun p => p.1 < p.2 && R.contains (p.2, p.1))).length
    let strict := (R.filter (fun p => p.1 != p.2 && !R.contains (p.2, p.1))).length
    let tag := s!"mode={mode} n={n} states={A.states.length} slack={bchar (decide (A.states.length < n))} " ++
      s!"parentOnly={parentOnly} noRule={noRule} tuples={T.length} syms={o.Sy.length} multiRank={bchar (ranks2 A)} " ++
      s!"initSim={init.length} initRem={ir} iters={processed.length} later={processed.length - ir} " ++
      s!"cleared={init.length - R.length} wrap={bchar wrap} equivPairs={equiv} strictPairs={strict}"
    pure (f, tag)

end BddSimChk
