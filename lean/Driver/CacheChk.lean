import Vata.Parse
import Vata.CacheModel
/-!
# Driver side of the interning-cache / memo-table histories and of the bottom-up index (`cacheh`): utility classes behind C01, C07, C09

Case and result formats: see `harness/op_cacheh.inc`.

History cases (`H!…`): the history is replayed on `Vata.CM.step` (`Vata/CacheModel.lean`).  The only freedom of the model – which
address the allocator hands out for a new interned object – is taken from the harness' output (`a<k>` of an `L` step), so address
reuse is replayed exactly as it happened.  After every step the answer and the dump of every container are compared.

* `violation` – the output of the real classes contradicts a theorem of `Vata/Proofs/CacheModel.lean`, checked on the OUTPUT alone:
  `interning` (two live handles are pointer-equal iff their values are equal, `use_count` = number of handles),
  `memo_live` (no key of a memo table is a dead address), `memo_sound` (the answer is `f` of the two values),
  `index_exact` (the two secondary indices list exactly the entries of the table), `no_leak` (`empty()` at the end),
  allocator sanity (a new object never gets the address of a live one).
* `mismatch` – the model and the classes differ (dump or answer) without one of the above being refuted.

With the deliberately wrong wirings (`w` = 1, 2 in the header, wrong INSIDE THE HARNESS only) the model is replayed with the same
wrong deleter, so that it stays exact, and the theorem-level checks report the stale entries / stale answers as violations.

Index cases (`B!…`): `bottomUpIndex` / `bottomUpIndex2` of the model on the clusters of the given rules with the symbol translation
reported by the harness; every cell must hold exactly the rules with that state at that position (`mem_look1`, `mem_look2`,
`mem_leaves`).
-/
open Vata Vata.CM

namespace CacheChk

def getE (o : Option α) (msg : String) : Except String α :=
  match o with
  | some a => pure a
  | none => throw msg

def sortN (l : List Nat) : List Nat := l.mergeSort (fun a b => a ≤ b)

def parseSet? (s : String) : Option (List Nat) := if s == "e" then some [] else (natList? s '.').map (fun l => sortN l.eraseDups)
def showSet (s : List Nat) : String := if s.isEmpty then "e" else ".".intercalate (s.map toString)

def lexLt : List Nat → List Nat → Bool
  | [], [] => false
  | [], _ :: _ => true
  | _ :: _, [] => false
  | a :: as, b :: bs => a < b || (a == b && lexLt as bs)

def sortBy (l : List (List Nat × String)) : List String := (l.mergeSort (fun x y => !lexLt y.1 x.1)).map (·.2)

def joinD (l : List String) (sep : String) : String := if l.isEmpty then "-" else sep.intercalate l

def bnum (b : Bool) : String := if b then "1" else "0"

/-! ### dumps of the model, in the format of the harness -/

def dumpSlots (s : Sys (List Nat)) : String :=
  joinD (s.slots.map (fun x => match x with
    | none => "-"
    | some id => match byId s.store id with
      | some (v, rc) => s!"{id}:{rc}:{showSet v}"
      | none => s!"{id}:dangling")) ","

def dumpCache (s : Sys (List Nat)) : String :=
  joinD (sortBy (s.store.map (fun e => ([e.2.1], s!"{e.2.1}:{e.2.2}:{showSet e.1}")))) ","

def dumpBinOp {κ₁ κ₂ β : Type} (op : BinOp κ₁ κ₂ β) (o₁ : κ₁ → List Nat) (s₁ : κ₁ → String) (o₂ : κ₂ → List Nat) (s₂ : κ₂ → String)
    (sv : β → String) : String :=
  let ko (k : κ₁ × κ₂) := o₁ k.1 ++ o₂ k.2
  let ks (k : κ₁ × κ₂) := s₁ k.1 ++ "." ++ s₂ k.2
  let ent (l : List (κ₁ × κ₂)) := ";".intercalate (sortBy (l.map (fun k => (ko k, ks k))))
  joinD (sortBy (op.store.map (fun e => (ko e.1, ks e.1 ++ ">" ++ sv e.2)))) "," ++ "|" ++
  joinD (sortBy (op.map1.map (fun e => (o₁ e.1, s₁ e.1 ++ ":[" ++ ent e.2 ++ "]")))) "/" ++ "|" ++
  joinD (sortBy (op.map2.map (fun e => (o₂ e.1, s₂ e.1 ++ ":[" ++ ent e.2 ++ "]")))) "/"

def dumpLte (s : Sys (List Nat)) : String :=
  dumpBinOp s.lte (fun a => [a]) toString (fun a => [a]) toString bnum

def dumpEv (s : Sys (List Nat)) : String :=
  dumpBinOp s.ev (fun k => [k.1, k.2]) (fun k => s!"{k.1}_{k.2}") (fun a => [a]) toString toString

/-! ### theorem-level checks on the OUTPUT of the real classes -/

structure SlotV where
  id : Nat
  rc : Nat
  val : String

def parseSlot? (s : String) : Option (Option SlotV) :=
  if s == "-" then some none else
  match s.splitOn ":" with
  | [a, b, c] => do pure (some ⟨← a.toNat?, ← b.toNat?, c⟩)
  | _ => none

def parseSlots? (s : String) : Option (List (Option SlotV)) := if s == "-" then some [] else (s.splitOn ",").mapM parseSlot?

def parseCache? (s : String) : Option (List SlotV) :=
  if s == "-" then some [] else (s.splitOn ",").mapM (fun e => match parseSlot? e with | some (some x) => some x | _ => none)

/-- a dumped table: keys of the store as (first, second) strings, and the two indices as key ↦ entries -/
structure TableV where
  keys : List (String × String)
  m1 : List (String × List (String × String))
  m2 : List (String × List (String × String))

def parseKey? (s : String) : Option (String × String) :=
  match s.splitOn "." with
  | [a, b] => some (a, b)
  | _ => none

def parseIdx? (s : String) : Option (List (String × List (String × String))) :=
  if s == "-" then some [] else
  (s.splitOn "/").mapM (fun e => match e.splitOn ":[" with
    | [k, r] =>
      let body := (r.dropEnd 1).toString
      if body.isEmpty then some (k, []) else do pure (k, ← (body.splitOn ";").mapM parseKey?)
    | _ => none)

def parseTable? (s : String) : Option TableV :=
  match s.splitOn "|" with
  | [st, a, b] => do
    let keys ← (if st == "-" then some [] else (st.splitOn ",").mapM (fun e => match e.splitOn ">" with
      | [k, _] => parseKey? k
      | _ => none))
    pure ⟨keys, ← parseIdx? a, ← parseIdx? b⟩
  | _ => none

def sameSet (a b : List (String × String)) : Bool := a.all (fun x => b.contains x) && b.all (fun x => a.contains x)

/-- theorem 3 (`index_exact`) on a dumped table -/
def checkIndexExact (what : String) (k : String) (t : TableV) : List String :=
  let e1 := t.m1.flatMap (·.2)
  let e2 := t.m2.flatMap (·.2)
  (if sameSet e1 t.keys && e1.length == t.keys.length then [] else
    [s!"violation step {k}: first index of {what} does not list exactly the entries of the table (index_exact)"]) ++
  (if sameSet e2 t.keys && e2.length == t.keys.length then [] else
    [s!"violation step {k}: second index of {what} does not list exactly the entries of the table (index_exact)"]) ++
  (if t.m1.all (fun e => e.2.all (fun x => x.1 == e.1)) && t.m2.all (fun e => e.2.all (fun x => x.2 == e.1)) then [] else
    [s!"violation step {k}: an entry of {what} is filed under a key that is not its component (index_exact)"])

/-- theorems 1 and 2a on the dumps after a step -/
def checkState (k : String) (slots : List (Option SlotV)) (cache : List SlotV) (lte ev : TableV) : List String :=
  let live := cache.map (fun e => toString e.id)
  let f1 :=
    -- the store: one object per value, one address per object
    (if (cache.map (·.id)).eraseDups.length == cache.length then [] else [s!"violation step {k}: two live interned objects share an address"]) ++
    (if (cache.map (·.val)).eraseDups.length == cache.length then [] else [s!"violation step {k}: one value interned twice (interning)"])
  let f2 := slots.flatMap (fun x => match x with
    | none => []
    | some h =>
      let n := (slots.filter (fun y => match y with | some h' => h'.id == h.id | none => false)).length
      (match cache.find? (fun e => e.id == h.id) with
       | none => [s!"violation step {k}: handle to address {h.id} but no such object in the cache (interning)"]
       | some e => if e.val == h.val && e.rc == h.rc then [] else [s!"violation step {k}: handle {h.id}:{h.rc}:{h.val} disagrees with the cache entry {e.id}:{e.rc}:{e.val}"]) ++
      (if h.rc == n then [] else [s!"violation step {k}: use_count {h.rc} of address {h.id} but {n} handles (interning)"]))
  let f3 := (slots.filterMap id).flatMap (fun h => (slots.filterMap id).flatMap (fun h' =>
    if (h.id == h'.id) == (h.val == h'.val) then [] else
      [s!"violation step {k}: handles {h.id}:{h.val} and {h'.id}:{h'.val}: pointer equality differs from value equality (interning)"]))
  let f4 := (cache.filter (fun e => !slots.any (fun y => match y with | some h => h.id == e.id | none => false))).map
    (fun e => s!"violation step {k}: object {e.id} is in the cache although no handle refers to it")
  let f5 := (lte.keys.filter (fun key => !(live.contains key.1 && live.contains key.2))).map
    (fun key => s!"violation step {k}: lte memo table holds the entry {key.1}.{key.2} for a dead address (memo_live)")
  let f6 := (ev.keys.filter (fun key => !live.contains key.2)).map
    (fun key => s!"violation step {k}: eval memo table holds the entry {key.1}.{key.2} for a dead address (memo_live)")
  f1 ++ f2 ++ f3.eraseDups ++ f4 ++ f5 ++ f6 ++ checkIndexExact "lte" k lte ++ checkIndexExact "eval" k ev

def mark (br : List Char) (c : Char) : List Char := if br.contains c then br else br ++ [c]

def fieldN (parts : List String) (i : Nat) (st : String) : Except String Nat := do
  getE ((← getE parts[i]? s!"bad step {st}").toNat?) s!"bad number in step {st}"
def fieldSet (parts : List String) (i : Nat) (st : String) : Except String (List Nat) := do
  getE (parseSet? (← getE parts[i]? s!"bad step {st}")) s!"bad set in step {st}"

def wiringOf (w : Nat) : Wiring := if w == 0 then .lib else if w == 1 then .firstTwice else .none

def cmpDump (res : List String) (key what exp : String) : Except String (List String) := do
  let got ← getE (kv res key) s!"missing dump {key}"
  pure (if got == exp then [] else [s!"mismatch {key} ({what}): the class shows {got}, the model {exp}"])

/-- value (as dumped by the harness) of the object a slot points to -/
def slotVal (slots : List (Option SlotV)) (i : Nat) : Option (List Nat) :=
  match slots[i]? with
  | some (some h) => parseSet? h.val
  | _ => none

partial def go (c : Cfg (List Nat)) (steps res : List String) (k : Nat) (s : Sys (List Nat)) (dead : List Nat) (f : List String)
    (br : List Char) : Except String (Sys (List Nat) × List String × List Char) :=
  match steps with
  | [] => pure (s, f, br)
  | st :: rest => do
    let parts := st.splitOn "!"
    let opn ← getE parts[0]? "empty step"
    let mut f := f
    let mut br := br
    let ans := kv res s!"a{k}"
    let op : Op (List Nat) ← (match opn with
      | "L" => do
        let ch ← getE (ans >>= String.toNat?) s!"missing answer a{k}"
        pure (Op.lookup (← fieldN parts 1 st) (← fieldSet parts 2 st) ch)
      | "F" => do pure (Op.find (← fieldN parts 1 st) (← fieldSet parts 2 st))
      | "C" => do pure (Op.copy (← fieldN parts 1 st) (← fieldN parts 2 st))
      | "R" => do pure (Op.release (← fieldN parts 1 st))
      | "T" => do pure (Op.lte (← fieldN parts 1 st) (← fieldN parts 2 st))
      | "M" => do pure (Op.memo (← fieldN parts 1 st) (← fieldN parts 2 st))
      | "E" => do pure (Op.eval ((← fieldN parts 1 st), (← fieldN parts 2 st)) (← fieldN parts 3 st))
      | "I1" => do pure (Op.invFirst (← fieldN parts 1 st))
      | "I2" => do pure (Op.invSecond (← fieldN parts 1 st))
      | "J1" => do pure (Op.evInvFirst ((← fieldN parts 1 st), (← fieldN parts 2 st)))
      | "J2" => do pure (Op.evInvSecond (← fieldN parts 1 st))
      | "CL" => pure Op.clearLte
      | "CE" => pure Op.clearEv
      | "Q" => pure Op.nop
      | _ => throw s!"unknown step {st}" : Except String (Op (List Nat)))
    -- branch statistics (before the step)
    match op with
    | .lookup _ v ch =>
      if (aget s.store v).isSome then br := mark br 'S'             -- value already interned: shared
      else
        br := mark br 'N'
        if dead.contains ch then br := mark br 'U'                 -- address of a dead object reused
        if (ids s.store).contains ch then
          return (s, f ++ [s!"violation step {k}: lookup of a new value returned address {ch}, which is the address of a live object"], br)
    | .find _ v => br := mark br (if (aget s.store v).isSome then 'F' else 'f')
    | .lte i j =>
      match slotId s i, slotId s j with
      | some a, some b =>
        if a == b then br := mark br 'q'                            -- pointer-equal: the table is not consulted
        else br := mark br (if (aget s.lte.store (a, b)).isSome then 'H' else 'm')
      | _, _ => pure ()
    | .memo i j =>
      match slotId s i, slotId s j with
      | some a, some b =>
        if a == b then br := mark br 'Q'                            -- an entry (a, a)
        br := mark br (if (aget s.lte.store (a, b)).isSome then 'H' else 'm')
      | _, _ => pure ()
    | .eval key i =>
      match slotId s i with
      | some b => br := mark br (if (aget s.ev.store (key, b)).isSome then 'G' else 'g')
      | none => pure ()
    | .copy i j => if i == j then br := mark br 'c'
    | _ => pure ()
    let (s', a) ← getE (step c s op) s!"precondition: step {k} ({st}) is outside the contract (null handle / no such variable)"
    if (ids s'.store).length < (ids s.store).length then br := mark br 'D'     -- an object died
    if !s'.lte.map1.all (fun e => !e.2.isEmpty) || !s'.lte.map2.all (fun e => !e.2.isEmpty) then br := mark br 'z'   -- an emptied index set stays
    let dead' := (dead ++ (ids s.store).filter (fun i => !(ids s'.store).contains i)).filter (fun i => !(ids s'.store).contains i)
    -- the answer
    let expAns : Option String := match a with
      | .unit => none
      | .ptr none => some "N"
      | .ptr (some p) => some (toString p)
      | .bool b => some (bnum b)
      | .nat n => some (toString n)
    match expAns, ans with
    | some e, some g =>
      if e != g then
        match op with
        | .lookup .. => f := f ++ [s!"violation step {k} ({st}): value already interned at address {e} but lookup returned address {g} (interning)"]
        | _ => f := f ++ [s!"mismatch step {k} ({st}) answered {g}, the model {e}"]
    | some _, none => throw s!"missing answer a{k}"
    | none, _ => pure ()
    -- the dumps against the model
    f := f ++ (← cmpDump res s!"{k}.s" "handles" (dumpSlots s'))
    f := f ++ (← cmpDump res s!"{k}.c" "Cache::store_" (dumpCache s'))
    f := f ++ (← cmpDump res s!"{k}.l" "lte table and indices" (dumpLte s'))
    f := f ++ (← cmpDump res s!"{k}.e" "eval table and indices" (dumpEv s'))
    -- the theorems against the output
    let slots ← getE ((kv res s!"{k}.s") >>= parseSlots?) s!"bad dump {k}.s"
    let cache ← getE ((kv res s!"{k}.c") >>= parseCache?) s!"bad dump {k}.c"
    let lt ← getE ((kv res s!"{k}.l") >>= parseTable?) s!"bad dump {k}.l"
    let et ← getE ((kv res s!"{k}.e") >>= parseTable?) s!"bad dump {k}.e"
    f := f ++ checkState (toString k) slots cache lt et
    match op, ans with
    | .memo i j, some g | .lte i j, some g =>
      match slotVal slots i, slotVal slots j with
      | some x, some y =>
        if g != bnum (subsetB x y) then
          f := f ++ [s!"violation step {k} ({st}): memoised comparison answered {g} but {showSet x} ⊆ {showSet y} is {bnum (subsetB x y)} (memo_sound: stale answer)"]
      | _, _ => throw s!"bad slot dump at step {k}"
    | .eval key i, some g =>
      match slotVal slots i with
      | some y =>
        if g != toString (evalG key y) then
          f := f ++ [s!"violation step {k} ({st}): memoised evaluation answered {g} but g({key.1},{key.2},{showSet y}) = {evalG key y} (memo_sound: stale answer)"]
      | none => throw s!"bad slot dump at step {k}"
    | _, _ => pure ()
    go c rest res (k + 1) s' dead' f br

def checkHist (hdr : List String) (steps res : List String) : Except String (List String × String) := do
  let ty ← getE hdr[1]? "bad header"
  let m ← getE (hdr[2]? >>= String.toNat?) "bad header"
  let w ← getE (hdr[3]? >>= String.toNat?) "bad header"
  let c := setCfg (wiringOf w)
  let (s, f, br) ← go c steps res 0 (Sys.init (List Nat) m) [] [] []
  -- the end: every variable is reset, slot 0 first
  let mut sE := s
  for i in List.range m do
    match step c sE (.release i) with
    | some (s', _) => sE := s'
    | none => throw "internal: release at the end"
  let mut f := f
  f := f ++ (← cmpDump res "end.c" "Cache::store_ at the end" (dumpCache sE))
  f := f ++ (← cmpDump res "end.l" "lte table at the end" (dumpLte sE))
  f := f ++ (← cmpDump res "end.e" "eval table at the end" (dumpEv sE))
  let cache ← getE ((kv res "end.c") >>= parseCache?) "bad dump end.c"
  let lt ← getE ((kv res "end.l") >>= parseTable?) "bad dump end.l"
  let et ← getE ((kv res "end.e") >>= parseTable?) "bad dump end.e"
  f := f ++ checkState "end" (List.replicate m none) cache lt et
  if kv res "empty" != some "1" then f := f ++ ["violation Cache::empty() is false after the last handle was released (no_leak)"]
  let brs := String.ofList (br.mergeSort (fun a b => a ≤ b))
  pure (f, s!"cache hist T={ty} w={w} steps={steps.length} br={brs}")

/-! ### the bottom-up index -/

def parseRules? (s : String) : Option (List Rule) := if s == "-" then some [] else (splitC s ';').mapM parseRule?

/-- the clusters of a rule list: one group per (parent, symbol), tuples without repetition (the automaton keeps a SET of tuples) -/
def groupsOf (rs : List Rule) : List BU.Group :=
  let keys := (rs.map (fun r => (r.parent, r.sym))).eraseDups
  keys.map (fun k => ⟨k.1, k.2, ((rs.filter (fun r => r.parent == k.1 && r.sym == k.2)).map (·.kids)).eraseDups⟩)

def showRuleT (r : Rule) : String := s!"{r.sym}:{",".intercalate (r.kids.map toString)}>{r.parent}"

def sortS (l : List String) : List String := l.mergeSort (fun a b => !(decide (b < a)))

def showTL (l : List Rule) : String := "[" ++ ";".intercalate (sortS (l.map showRuleT)) ++ "]"

def dumpLeaves (lv : List (Nat × BU.TList)) : String :=
  joinD (sortBy (lv.map (fun e => ([e.1], s!"{e.1}={showTL e.2}")))) "/"

def dumpIdx1 (I : BU.Idx1) : String :=
  joinD (sortBy (I.flatMap (fun qs => qs.2.flatMap (fun as => (List.range as.2.length).map (fun i =>
    ([qs.1, as.1, i], s!"{qs.1}.{as.1}.{i}={showTL (as.2.getD i [])}")))))) "/"

def dumpIdx2 (I : BU.Idx2) : String :=
  joinD (sortBy (I.flatMap (fun as => (List.range as.2.length).flatMap (fun i =>
    let row := as.2.getD i []
    (List.range row.length).map (fun q => ([as.1, i, q], s!"{as.1}.{i}.{q}={showTL (row.getD q [])}")))))) "/"

def dumpN2 (I : BU.Idx2) : String := joinD (sortBy (I.map (fun as => ([as.1], s!"{as.1}>{as.2.length}")))) ","

/-- a dumped cell list `coords=[rules]/…` -/
def parseCells? (s : String) : Option (List (List Nat × List String)) :=
  if s == "-" then some [] else
  (s.splitOn "/").mapM (fun e => match e.splitOn "=[" with
    | [k, r] => do
      let key ← natList? k '.'
      let body := (r.dropEnd 1).toString
      pure (key, if body.isEmpty then [] else body.splitOn ";")
    | _ => none)

def checkIndex (hdr : List String) (res : List String) : Except String (List String × String) := do
  let A ← getE (hdr[1]? >>= parseRules?) "bad rules A"
  let B ← getE (hdr[2]? >>= parseRules?) "bad rules B"
  let mp ← getE ((kv res "map") >>= parseMap?) "bad map"
  let gA := groupsOf A
  let gB := groupsOf B
  -- the contract of the index: ranked use of the symbols inside a cluster
  if !(BU.rankedB gA && BU.rankedB gB) then throw "precondition: a symbol is used with two ranks inside a cluster"
  let mut f : List String := []
  -- the translator: defined on every symbol, injective, onto 0..n-1
  let syms := ((A ++ B).map (·.sym)).eraseDups
  if !(syms.all (fun a => (mp.lookup a).isSome)) || mp.length != syms.length then
    f := f ++ ["violation the symbol translator is not defined exactly on the symbols of the two automata"]
  let vals := mp.map (·.2)
  if vals.eraseDups.length != vals.length || !(vals.all (· < vals.length)) then
    f := f ++ [s!"violation the symbol translator is not a bijection onto 0..{vals.length - 1}"]
  let tr : Nat → Nat := fun a => (mp.lookup a).getD a
  let (I1, L1) := BU.bottomUpIndex tr gA
  let (I2, L2) := BU.bottomUpIndex2 tr gB
  -- theorem 5 on the output: every cell holds exactly the rules with that state at that position
  let rA := (BU.rulesOf tr gA)
  let rB := (BU.rulesOf tr gB)
  let cellChk (what : String) (cells : List (List Nat × List String)) (spec : List Nat → List Rule) : List String :=
    cells.filterMap (fun c => if c.2 == sortS ((spec c.1).map showRuleT) then none else
      some s!"violation {what} cell {c.1} holds {c.2} but the rules with that state at that position are {sortS ((spec c.1).map showRuleT)} (mem_look)")
  let c1 ← getE ((kv res "i1") >>= parseCells?) "bad i1"
  let c2 ← getE ((kv res "i2") >>= parseCells?) "bad i2"
  let l1 ← getE ((kv res "l1") >>= parseCells?) "bad l1"
  let l2 ← getE ((kv res "l2") >>= parseCells?) "bad l2"
  f := f ++ cellChk "bottomUpIndex" c1 (fun k => match k with
    | [q, a, i] => rA.filter (fun r => r.sym == a && r.kids[i]? == some q)
    | _ => [])
  f := f ++ cellChk "bottomUpIndex2" c2 (fun k => match k with
    | [a, i, q] => rB.filter (fun r => r.sym == a && r.kids[i]? == some q)
    | _ => [])
  f := f ++ cellChk "leaves(smaller)" l1 (fun k => match k with
    | [a] => rA.filter (fun r => r.sym == a && r.kids.isEmpty)
    | _ => [])
  f := f ++ cellChk "leaves(bigger)" l2 (fun k => match k with
    | [a] => rB.filter (fun r => r.sym == a && r.kids.isEmpty)
    | _ => [])
  -- … and no rule is missing: every (rule, position) has its cell
  let has (cells : List (List Nat × List String)) (key : List Nat) (r : Rule) : Bool :=
    cells.any (fun c => c.1 == key && c.2.contains (showRuleT r))
  for r in rA do
    if r.kids.isEmpty then
      if !has l1 [r.sym] r then f := f ++ [s!"violation leaf rule {showRuleT r} missing from leaves(smaller) (mem_leaves)"]
    else
      for (q, i) in r.kids.zip (List.range r.kids.length) do
        if !has c1 [q, r.sym, i] r then f := f ++ [s!"violation rule {showRuleT r} missing from bottomUpIndex[{q}][{r.sym}][{i}] (mem_look1)"]
  for r in rB do
    if r.kids.isEmpty then
      if !has l2 [r.sym] r then f := f ++ [s!"violation leaf rule {showRuleT r} missing from leaves(bigger) (mem_leaves)"]
    else
      for (q, i) in r.kids.zip (List.range r.kids.length) do
        if !has c2 [r.sym, i, q] r then f := f ++ [s!"violation rule {showRuleT r} missing from bottomUpIndex2[{r.sym}][{i}][{q}] (mem_look2)"]
  -- the model, cell by cell (shape of the vectors included)
  f := f ++ (← cmpDump res "l1" "leaves of the smaller automaton" (dumpLeaves L1))
  f := f ++ (← cmpDump res "i1" "bottomUpIndex" (dumpIdx1 I1))
  f := f ++ (← cmpDump res "l2" "leaves of the bigger automaton" (dumpLeaves L2))
  f := f ++ (← cmpDump res "i2" "bottomUpIndex2" (dumpIdx2 I2))
  f := f ++ (← cmpDump res "n2" "bottomUpIndex2: positions per symbol" (dumpN2 I2))
  let maxAr := ((A ++ B).map (·.kids.length)).foldl max 0
  let shared := (A.map (·.sym)).any (fun a => (B.map (·.sym)).contains a)
  pure (f, s!"cache index rulesA={A.length} rulesB={B.length} maxArity={maxAr} sharedSym={bnum shared} emptyA={bnum A.isEmpty} emptyB={bnum B.isEmpty}")

def check (args res : List String) : Except String (List String × String) := do
  let hdr := (← getE args[0]? "missing header").splitOn "!"
  match hdr[0]? with
  | some "H" => checkHist hdr (args.drop 1) res
  | some "B" => checkIndex hdr res
  | _ => throw "bad header"

end CacheChk
