import Vata.Parse
import Vata.Generated.Tables
import Vata.InclUp
import Vata.InclUpSim
import Vata.InclDown
import Vata.Compl
import Vata.IsectModel
import Vata.IsectBU
import Vata.UnionModel
import Vata.Candidate
import Vata.ReduceModel
import Vata.SimPipeline
import Driver.NfaHist
import Driver.TaHist
import Driver.MtHist
import Driver.BddChk
import Driver.ParseChk
import Driver.MetaChk
import Driver.BddLoadChk
import Driver.NfaStartChk
import Driver.LtsUtilChk
import Driver.GlueChk
import Driver.CliArgsChk
import Driver.CacheChk
import Driver.LtsEngineChk
import Driver.LtsCChk
import Driver.BinRelChk
import Driver.BddSimChk
import Driver.OrdVecChk
import Driver.AchainChk
import Vata.Proofs.LtsSim
import Vata.Properties.C01
import Vata.TrimCoded
import Vata.CliPipeline
import Vata.NfaCliPipeline
import Vata.RenameCoded
import Vata.InclDownStack
import Vata.Proofs.InclDownStackStepsTop
import Vata.UnionIsectMaps
import Vata.UnionIsectMapsBU
import Vata.ReduceCoded
/-!
# vdriver – the model side of the correspondence check

Input: pairs of lines
  `C <id> <kind> <args...>`      the case as it was given to the harness
  `R <id> <result tokens...>`    what the real library answered
Output per pair: `<id> ok [tags]` | `<id> violation <predicate> …` | `<id> mismatch <comparison> …` | `<id> error <msg>`.

`violation` = a proved L1 checker refutes the property predicate on the implementation's output.
`mismatch`  = the implementation's output differs from the L2 model's (or an exact certificate comparison fails)
              without a refuted predicate.
`error`     = internal (unparsable line, fuel exhausted); never a verdict.
-/
open Vata

def FUEL : Nat := 1000000

abbrev Findings := List String

def getE (o : Option α) (msg : String) : Except String α :=
  match o with
  | some a => pure a
  | none => throw msg

def kvE (toks : List String) (key : String) : Except String String := getE (kv toks key) s!"missing {key}"
def taE (toks : List String) (key : String) : Except String TA := do
  getE (parseTA? (← kvE toks key)) s!"bad TA {key}"

def bchar (b : Bool) : Char := if b then '1' else '0'

/-- the operand re-dumped by the harness after the call must be the operand -/
def sameOperand (name : String) (A A' : TA) : Findings :=
  if taEq A A' && nodupRules A'.rules then [] else [s!"violation operand-changed {name} now={showTA A'}"]

def inclE (A B : TA) : Except String Bool := getE (inclM A B FUEL) "fuel(incl)"
def equivE (A B : TA) : Except String Bool := getE (equivM A B FUEL) "fuel(equiv)"
def emptyE (A : TA) : Except String Bool := getE (emptyM A FUEL) "fuel(empty)"

def dedupRules (rs : List Rule) : List Rule := rs.foldl (fun acc r => if acc.contains r then acc else acc ++ [r]) []

def selNames : List String :=
  ["up", "up+sim", "down-nonrec", "down-nonrec+sim", "down-rec", "down-rec+sim", "down-rec-opt", "down-rec-opt+sim", "default"]

/-- option words (see `InclParam`) implemented by the explicit encoding: the table regenerated from /repo's dispatcher
(`Vata.Gen.explDispatch`, theorems in `Vata/Properties/Dispatch.lean`); the `inclall` cases validate it at run time -/
def implExpl : List Nat := Vata.Gen.explDispatch.map (·.word)

def checkIncl (args res : List String) : Except String (Findings × String) := do
  let A ← getE (args[0]? >>= parseTA?) "bad A"
  let B ← getE (args[1]? >>= parseTA?) "bad B"
  let v ← kvE res "v"
  let exp ← inclE A B
  let A' ← taE res "A"
  let B' ← taE res "B"
  let mut f : Findings := sameOperand "A" A A' ++ sameOperand "B" B B'
  let chars := v.toList
  if chars.length != selNames.length then throw "bad verdict vector"
  let mut over := 0
  for (c, n) in chars.zip selNames do
    if c == 'T' then over := over + 1   -- budget overrun of a downward selection (exponential by design): not judged
    else if c != bchar exp then
      f := f ++ [s!"violation incl[{n}]={c} reference={bchar exp}"]
  -- the L2 model of the upward antichain algorithm (certifying; `inclUp_iff`, `checkInclUp_total`): must return, agree
  -- with the implementation's upward verdict and with the reference
  -- fuel above the proved bound (`checkInclUp_complete`): `none` is then impossible for the model as proved
  match checkInclUp A B (InclUp.fuelBound (removeUseless A) (removeUseless B) + 1) with
  | some (b, _) =>
    if bchar b != chars[0]! then f := f ++ [s!"mismatch upward-model verdict {bchar b} implementation {chars[0]!}"]
    if b != exp then throw "internal: certifying upward model contradicts the reference"
  | none => f := f ++ ["mismatch upward-model returned none (fuel / certificate)"]
  -- the L2 model of the upward algorithm pruned by the upward simulation of the prepared union (macro-state minimisation,
  -- skip by checkIntersection, subsumption modulo the relation; `checkInclUpSim_iff/_total`): same obligations
  match checkInclUpSim A B 200000 with
  | some (b, _) =>
    if bchar b != chars[1]! then f := f ++ [s!"mismatch upward+simulation-model verdict {bchar b} implementation {chars[1]!}"]
    if b != exp then throw "internal: certifying upward+simulation model contradicts the reference"
  | none => f := f ++ ["mismatch upward+simulation-model returned none (fuel / certificate)"]
  -- the L2 models of the downward algorithms (`checkInclDownRec_iff/_total`, `checkInclDownNonrec_iff/_total`): on small
  -- operands, and where the implementation answered within its budget, they must return and agree with it
  -- (the downward algorithms are exponential by design – the models too: only small operands)
  if A.states.length + B.states.length ≤ 6 && (dedupRules A.rules).length + (dedupRules B.rules).length ≤ 12 then
    -- all six downward selections, through the very function `C01Sel.model` that `C01_every_selection_exact_total` is about
    -- (the `+sim` ones with the relation the model computes itself on the prepared union, as `cli/operations.hh` does)
    for (name, ix, sel) in [("down-nonrec", 2, Vata.Props.C01Sel.downNonrecNoSim), ("down-nonrec+sim", 3, .downNonrecSim),
        ("down-rec", 4, .downRecNoSim), ("down-rec+sim", 5, .downRecSim), ("down-rec-opt", 6, .downRecOptNoSim),
        ("down-rec-opt+sim", 7, .downRecOptSim)] do
      let c := chars[ix]!
      if c == 'T' then continue
      match sel.model A B 100000 with
      | some (b, _) =>
        if bchar b != c then f := f ++ [s!"mismatch {name}-model verdict {bchar b} implementation {c}"]
        if b != exp then throw s!"internal: certifying {name} model contradicts the reference"
      | none => f := f ++ [s!"mismatch {name}-model returned none (fuel / certificate)"]
  -- the non-recursive algorithm's CALL EMULATOR as coded (explicit stack of frames, one program counter per C++ label:
  -- `Vata/InclDownStack.lean`; `C01_stack_machine_refines_recursion`, `C01_nonrec_stack_exact`): the machine's verdict on the
  -- prepared operands must be the implementation's; `none` = step budget exhausted (only an existential bound is proved)
  let mut stk := "-"
  if A.states.length + B.states.length ≤ 6 && (dedupRules A.rules).length + (dedupRules B.rules).length ≤ 12 && chars[2]! != 'T' then
    -- step budget = the proved bound `stepBound` (`C01_nonrec_stack_total`): `none` is then impossible for the machine as proved
    match inclDownNonrecStack (sanitize A B).1 (sanitize A B).2.1 (Vata.stepBound (sanitize A B).1 (sanitize A B).2.1) with
    | some (b, _) =>
      stk := "1"
      if bchar b != chars[2]! then f := f ++ [s!"mismatch down-nonrec stack-machine verdict {bchar b} implementation {chars[2]!}"]
      if b != exp then throw "internal: stack machine contradicts the reference"
    | none => f := f ++ ["mismatch down-nonrec stack machine returned none at its proved step bound"]
  let ne ← emptyE A
  let tag := s!"incl={bchar exp} emptyA={bchar ne} overrun={over} stackmachine={stk}"
  pure (f, tag)

def checkInclAll (args res : List String) : Except String (Findings × String) := do
  let A ← getE (args[0]? >>= parseTA?) "bad A"
  let B ← getE (args[1]? >>= parseTA?) "bad B"
  let w ← kvE res "w"
  let exp ← inclE A B
  let chars := w.toList
  if chars.length != 128 then throw "bad option vector"
  let mut f : Findings := []
  for (c, i) in chars.zip (List.range 128) do
    if implExpl.contains i then
      if c != 'T' && c != bchar exp then f := f ++ [s!"violation incl[word {i}]={c} reference={bchar exp}"]
    else
      if c != 'N' then f := f ++ [s!"violation unimplemented option word {i} answered {c} instead of NotImplementedException"]
  pure (f, s!"incl={bchar exp}")

def lookupFn (m : List (Nat × Nat)) : Nat → Nat := fun q => (m.lookup q).getD q

def checkUnion (args res : List String) (pre : Bool) : Except String (Findings × String) := do
  let A ← getE (args[0]? >>= parseTA?) "bad A"
  let B ← getE (args[1]? >>= parseTA?) "bad B"
  let U ← taE res "U"
  let U2 ← taE res "U2"
  let ml ← getE ((kv res "ml") >>= parseMap?) "bad ml"
  let mr ← getE ((kv res "mr") >>= parseMap?) "bad mr"
  let A' ← taE res "A"
  let B' ← taE res "B"
  let mut f : Findings := sameOperand "A" A A' ++ sameOperand "B" B B'
  let ok1 ← getE (isUnionM U A B FUEL) "fuel(union)"
  if !ok1 then f := f ++ ["violation union-language (maps given)"]
  let ok2 ← getE (isUnionM U2 A B FUEL) "fuel(union)"
  if !ok2 then f := f ++ ["violation union-language (maps absent)"]
  -- the maps name, for every state of the result, the operand state it stands for
  let img := (A.states.filterMap (fun q => ml.lookup q)) ++ (B.states.filterMap (fun q => mr.lookup q))
  if !(U.states.all (fun q => img.contains q)) then f := f ++ ["violation union-map does not cover the result states"]
  -- every operand state is translated
  if !(A.states.all (fun q => (ml.lookup q).isSome) && B.states.all (fun q => (mr.lookup q).isSome)) then
    f := f ++ ["violation union-map not total on operand states"]
  -- exact certificate: the result is the image of the operands under the reported maps
  let M := unionWith (lookupFn ml) (lookupFn mr) A B
  if f.isEmpty && !(taEq U M) then f := f ++ [s!"mismatch union-image model={showTA M}"]
  if !nodupRules U.rules then f := f ++ ["violation duplicate rule in iteration of the result"]
  -- the CLI's dictionary helper names exactly the translated operand states ("q<k>_1" / "q<k>_2"), skipping pruned ones
  let names ← kvE res "names"
  let got := if names == "-" then [] else names.splitOn ","
  let expN := (A.states.filterMap (fun q => (ml.lookup q).map (fun s => s!"q{q}_1>{s}"))) ++
    (B.states.filterMap (fun q => (mr.lookup q).map (fun s => s!"q{q}_2>{s}")))
  if !(got.all (fun x => expN.contains x) && expN.all (fun x => got.contains x)) then
    f := f ++ [s!"violation CreateUnionStringToStateMap names {got} expected {expN}"]
  -- the L2 model of the two weak translators sharing one counter (`unionModel_maps_ok`, `unionModel_lang`): whatever the
  -- visiting order, the numbers handed out are exactly cnt, cnt+1, … with cnt = 1 + the largest pre-filled value
  let preL ← (if pre then getE (args[2]? >>= parseMap?) "bad pre-filled ml" else pure [])
  let preR ← (if pre then getE (args[3]? >>= parseMap?) "bad pre-filled mr" else pure [])
  let cnt := unionCnt preL preR
  let freshL := (ml.filter (fun e => A.states.contains e.1 && (preL.lookup e.1).isNone)).map (·.2)
  let freshR := (mr.filter (fun e => B.states.contains e.1 && (preR.lookup e.1).isNone)).map (·.2)
  let fresh := freshL ++ freshR
  if f.isEmpty && !((List.range fresh.length).all (fun i => fresh.contains (cnt + i))) then
    f := f ++ [s!"mismatch union fresh numbers {fresh} are not {cnt}..{cnt + fresh.length - 1} (model of the shared counter)"]
  if !(preL.all (fun e => ml.contains e) && preR.all (fun e => mr.contains e)) then
    f := f ++ ["violation union changed an entry of a pre-filled translation map"]
  let pre' := if pre then "pre" else "fresh"
  pure (f, s!"{pre'}")

def disjointB (l₁ l₂ : List Nat) : Bool := l₁.all (fun x => !l₂.contains x)

def checkUnionDisj (args res : List String) : Except String (Findings × String) := do
  let A ← getE (args[0]? >>= parseTA?) "bad A"
  let B ← getE (args[1]? >>= parseTA?) "bad B"
  if !disjointB A.states B.states then throw "precondition: operands not state-disjoint"
  let U ← taE res "U"
  let A' ← taE res "A"
  let B' ← taE res "B"
  let mut f : Findings := sameOperand "A" A A' ++ sameOperand "B" B B'
  let ok1 ← getE (isUnionM U A B FUEL) "fuel(union)"
  if !ok1 then f := f ++ ["violation uniondisjoint-language"]
  if f.isEmpty && !(taEq U (unionDisjoint A B)) then f := f ++ ["mismatch uniondisjoint-model"]
  pure (f, "")

def checkIsect (args res : List String) (bu : Bool) : Except String (Findings × String) := do
  let A ← getE (args[0]? >>= parseTA?) "bad A"
  let B ← getE (args[1]? >>= parseTA?) "bad B"
  let P ← taE res "P"
  let P2 ← taE res "P2"
  let m ← getE ((kv res "m") >>= parsePairMap?) "bad m"
  let A' ← taE res "A"
  let B' ← taE res "B"
  let mut f : Findings := sameOperand "A" A A' ++ sameOperand "B" B B'
  let ok1 ← getE (isIsectM P A B FUEL) "fuel(isect)"
  if !ok1 then f := f ++ ["violation isect-language (map given)"]
  let ok2 ← getE (isIsectM P2 A B FUEL) "fuel(isect)"
  if !ok2 then f := f ++ ["violation isect-language (map absent)"]
  -- every state of the result is the image of a pair of operand states
  let QA := A.states
  let QB := B.states
  let img := (m.filter (fun e => QA.contains e.1.1 && QB.contains e.1.2)).map (·.2)
  if !(P.states.all (fun q => img.contains q)) then f := f ++ ["violation isect-map does not cover the result states"]
  -- injective
  let vals := m.map (·.2)
  if vals.length != (dedupL vals).length then f := f ++ ["violation isect-map not injective"]
  -- certificate: P is the product on the domain of the map (top-down variant only: the bottom-up one prunes rules)
  let D := m.map (·.1)
  let mf : Nat × Nat → Nat := fun pr => ((m.lookup pr).getD 0)
  let M := prodOn A B D mf
  if f.isEmpty then
    if bu then
      if !(rulesSub P.rules M.rules && subB P.final M.final) then f := f ++ ["mismatch isectbu-not-a-subproduct"]
      -- the L2 model of the bottom-up product (`isectBU_lang`, `isectBURef_isSome`): the set of bottom-up reachable pairs
      -- and the rules over it are determined by the operands, the numbering is not
      match isectBURef A B with
      | some (PM, mm) =>
        if mm.length != m.length || (dedupRules PM.rules).length != (dedupRules P.rules).length then
          f := f ++ [s!"mismatch isectBU-model sizes: model {mm.length} pairs / {(dedupRules PM.rules).length} rules, implementation {m.length} / {(dedupRules P.rules).length}"]
      | none => f := f ++ ["mismatch isectBU-model returned none"]
    else
      if !(taEq P M) then f := f ++ [s!"mismatch isect-product model={showTA M}"]
      -- the L2 model of the work-list (`isectTD`, fresh numbers in discovery order): the discovered domain is determined
      -- by the operands, so the numbers of states and rules must agree although the numbering need not
      match isectTDRef A B with
      | some (PM, mm) =>
        if mm.length != m.length || (dedupRules PM.rules).length != (dedupRules P.rules).length then
          f := f ++ [s!"mismatch isectTD-model sizes: model {mm.length} pairs / {(dedupRules PM.rules).length} rules, implementation {m.length} / {(dedupRules P.rules).length}"]
      | none => f := f ++ ["mismatch isectTD-model returned none"]
  let names ← kvE res "names"
  let got := if names == "-" then [] else names.splitOn ","
  let expN := m.map (fun e => s!"[q{e.1.1}_1|q{e.1.2}_2]>{e.2}")
  if !(got.all (fun x => expN.contains x) && expN.all (fun x => got.contains x)) then
    f := f ++ [s!"violation CreateProductStringToStateMap names {got} expected {expN}"]
  let e ← emptyE P
  pure (f, s!"empty={bchar e}")

/-- `mapsx`: `Union` with ONE map object for both translators, `Intersection` / `IntersectionBU` with a PRE-FILLED product map
(outside the documented contracts: findings here are broken correspondences with `Vata/UnionIsectMaps.lean`, never property
violations).  The comparisons are the order-independent characterisations proved for the models: `C02_union_same_map_glues`
(the result is the image of `A.rules ++ B.rules` under the ONE reported map, which extends the given one and stays injective),
`C02_isect_prefilled_is_explored_product` (the result is the product on the explored pairs under the reported map),
`C02_isect_prefilled_lang` (exact under `pmapOkB` and `prefillOkB`), `C02_union_same_map_lang` (exact for disjoint states). -/
def checkMapsX (args res : List String) : Except String (Findings × String) := do
  let mode ← getE args[0]? "missing mode"
  let A ← getE (args[1]? >>= parseTA?) "bad A"
  let B ← getE (args[2]? >>= parseTA?) "bad B"
  let A' ← taE res "A"
  let B' ← taE res "B"
  let mut f : Findings := sameOperand "A" A A' ++ sameOperand "B" B B'
  if mode == "alias" then
    let m0 ← getE (args[3]? >>= parseMap?) "bad m0"
    let U ← taE res "U"
    let m ← getE ((kv res "m") >>= parseMap?) "bad m"
    let inj0 := (m0.map (·.2)).eraseDups.length == m0.length
    if !inj0 then throw "precondition: pre-filled map not injective"
    if !(m0.all (fun e => m.contains e)) then f := f ++ ["mismatch alias-union changed an entry of the given map"]
    if (m.map (·.2)).eraseDups.length != m.length then f := f ++ ["mismatch alias-union map not injective"]
    if !((A.states ++ B.states).all (fun q => (m.lookup q).isSome)) then f := f ++ ["mismatch alias-union map not total"]
    if !taEq U (reindex (applyMap m) (unionDisjoint A B)) then f := f ++ ["mismatch alias-union is not the image under the ONE reported map"]
    -- the model run (list order): same number of fresh entries, same image up to the numbering
    let (Um, mm) := unionSameMap A B m0
    if mm.length != m.length || Um.states.length != U.states.length || (dedupRules Um.rules).length != (dedupRules U.rules).length then
      f := f ++ [s!"mismatch alias-union sizes differ from the model: model={showTA Um}"]
    let disj := A.states.all (fun q => !B.states.contains q)
    if disj then
      if !(← getE (isUnionM U A B FUEL) "fuel(union)") then f := f ++ ["violation union-language (one map object, state-disjoint operands)"]
    pure (f, s!"mapsx=alias disjoint={bchar disj} prefilled={m0.length}")
  else
    let m0 ← getE (args[3]? >>= parsePairMap?) "bad pm0"
    let P ← taE res "P"
    let m ← getE ((kv res "m") >>= parsePairMap?) "bad m"
    let ok0 := pmapOkB m0
    let pf := prefillOkB A B m0
    if !(m0.all (fun e => m.contains e)) then f := f ++ ["mismatch prefilled-isect changed an entry of the given map"]
    if mode == "td" then
      if ok0 then
        let M := prodOn A B (exploredPairs A B m0 m) (lookupF m)
        if !taEq P M then f := f ++ [s!"mismatch prefilled-isect is not the product on the explored pairs: model={showTA M}"]
      match isectTDFrom A B m0 (isectFromFuel A B) with
      | some (Pm, mm) =>
        if mm.length != m.length || Pm.states.length != P.states.length then f := f ++ [s!"mismatch prefilled-isect sizes differ from the model: model={showTA Pm}"]
        if !(← equivE Pm P) then
          -- with colliding numbers the language depends on the order in which the hash containers hand out `size()`
          if ok0 then f := f ++ ["mismatch prefilled-isect language differs from the model"]
      | none => throw "internal: isectTDFrom out of fuel above its proved bound"
      if ok0 && pf then
        if !(← getE (isIsectM P A B FUEL) "fuel(isect)") then f := f ++ ["mismatch prefilled-isect language (inside pmapOkB ∧ prefillOkB: C02_isect_prefilled_lang)"]
    else
      -- `isectBUFromRef` is total for EVERY entry map (`C02_isectBU_prefilled_total`) and exact for `pmapOkB` maps (`C02_isectBU_prefilled_lang`)
      match isectBUFromRef A B m0 with
      | some (Pm, mm) =>
        if ok0 && !(← equivE Pm P) then f := f ++ [s!"mismatch prefilled-isectbu language differs from the model: model={showTA Pm}"]
        if ok0 && (mm.length != m.length || Pm.states.length != P.states.length) then f := f ++ [s!"mismatch prefilled-isectbu sizes differ from the model: model={showTA Pm}"]
      | none => throw "internal: isectBUFromRef returned none (proved impossible)"
      if ok0 then
        if !(← getE (isIsectM P A B FUEL) "fuel(isect)") then
          f := f ++ [if m0.isEmpty then "violation isectbu-language" else "mismatch prefilled-isectbu language (inside pmapOkB: C02_isectBU_prefilled_lang)"]
    pure (f, s!"mapsx={mode} mapok={bchar ok0} prefillok={bchar pf} prefilled={m0.length}")

/-- `ownalpha`: an automaton loaded from text into an automaton with its OWN alphabet; the result of every operation, dumped and read back by
symbol NAME, must denote what the operation promises (C13: "for every automaton …, dumping it and loading the text again yields the same
rules"; C19: "A is equivalent to its dumped-and-reloaded form").  `EXC` = the dump throws, `BADNAME` = it prints a symbol name the input
never had – both are failing inputs. -/
def checkOwnAlpha (args res : List String) : Except String (Findings × String) := do
  let A ← getE (args[0]? >>= parseTA?) "bad A"
  let mut f : Findings := []
  for key in ["A0", "copy", "useless", "unreach", "union", "isect", "isectbu", "reduce", "cand"] do
    let v ← kvE res key
    if v == "EXC" then f := f ++ [s!"violation the dump of {key}(A) throws when A carries its own alphabet"]
    else if v == "BADNAME" then f := f ++ [s!"violation the dump of {key}(A) prints symbol names that A never had (result interpreted over another alphabet)"]
    else
      let R ← getE (parseTA? v) s!"bad {key}"
      if key == "cand" then
        if !(← inclE R A) then f := f ++ ["violation witness (own alphabet) not a sub-language"]
        if (← emptyE R) && !(← emptyE A) then f := f ++ ["violation witness (own alphabet) empty for a non-empty language"]
      else if !(← equivE R A) then f := f ++ [s!"violation {key}(A) dumped with its own alphabet and read back by name does not denote L(A)"]
  pure (f, s!"ownalpha=1 emptyA={bchar (← emptyE A)}")

def checkTrim (args res : List String) : Except String (Findings × String) := do
  let A ← getE (args[0]? >>= parseTA?) "bad A"
  let R1 ← taE res "unreach"
  let R2 ← taE res "useless"
  let e ← kvE res "empty"
  let A' ← taE res "A"
  let mut f : Findings := sameOperand "A" A A'
  if !(← equivE R1 A) then f := f ++ ["violation unreach-language"]
  if !allReachableB R1 then f := f ++ ["violation unreach-leaves-unreachable-state"]
  if !(← equivE R2 A) then f := f ++ ["violation useless-language"]
  if !allUsefulB R2 then f := f ++ ["violation useless-leaves-useless-state-or-rule"]
  let ee ← emptyE A
  if e != (bchar ee).toString then f := f ++ [s!"violation IsLangEmpty={e} reference={bchar ee}"]
  if ee != isEmptyRef A then throw "internal: emptiness references disagree"
  if f.isEmpty then
    if !taEq R1 (removeUnreachable A) then f := f ++ [s!"mismatch unreach-model model={showTA (removeUnreachable A)}"]
    if !taEq R2 (removeUseless A) then f := f ++ [s!"mismatch useless-model model={showTA (removeUseless A)}"]
    -- the work-lists AS CODED (`Vata/TrimCoded.lean`: `reachableStates` / `reachableTransitions` / the global `remaining` counter and
    -- its shortcut branch, the top-down work-list with the "nothing removed" shortcut; `C03_coded_*`)
    let R1c := TrimCoded.unreachCoded A
    let R2c := TrimCoded.uselessCoded A
    if !taEq R1 R1c then f := f ++ [s!"mismatch unreach-coded-model model={showTA R1c}"]
    if !taEq R2 R2c then f := f ++ [s!"mismatch useless-coded-model model={showTA R2c}"]
    if e != (bchar (TrimCoded.isLangEmptyCoded A)).toString then f := f ++ ["mismatch IsLangEmpty-coded-model"]
  if !nodupRules R1.rules || !nodupRules R2.rules then f := f ++ ["violation duplicate rule in iteration of the result"]
  let sc := if (TrimCoded.finalSt TrimCoded.decOne A).remaining == 0 then 1 else 0
  pure (f, s!"empty={bchar ee} dropped1={A.rules.length - R1.rules.length} dropped2={A.rules.length - R2.rules.length} remaining0={sc}")

def checkCand (args res : List String) : Except String (Findings × String) := do
  let A ← getE (args[0]? >>= parseTA?) "bad A"
  let R ← taE res "R"
  let A' ← taE res "A"
  let mut f : Findings := sameOperand "A" A A'
  if !(rulesSub R.rules A.rules && subB R.final A.final) then
    if !(← inclE R A) then f := f ++ ["violation witness-not-sublanguage"]
    else f := f ++ ["mismatch witness-not-a-subautomaton"]
  let eA ← emptyE A
  let eR ← emptyE R
  if eR && !eA then f := f ++ ["violation witness-empty-for-nonempty-language"]
  -- the contract proved for the L2 model (`candidateOkB_candidate`, `candidateOkB_sound`) must hold for the implementation too
  if f.isEmpty && !candidateOkB A R then f := f ++ ["mismatch candidate contract (sub-automaton with equal emptiness) fails"]
  if !candidateOkB A (candidate A) then throw "internal: model violates its own contract"
  pure (f, s!"empty={bchar eA}")

def checkReduce (args res : List String) : Except String (Findings × String) := do
  let A ← getE (args[0]? >>= parseTA?) "bad A"
  let R ← taE res "R"
  let A' ← taE res "A"
  let mut f : Findings := sameOperand "A" A A'
  if !(← equivE R A) then f := f ++ ["violation reduce-language"]
  if R.states.length > A.states.length then f := f ++ ["violation reduce-more-states"]
  if (dedupRules R.rules).length > (dedupRules A.rules).length then f := f ++ ["violation reduce-more-rules"]
  if !(subB R.states A.states) then f := f ++ ["violation reduce-state-not-image-of-a-state"]
  if !nodupRules R.rules then f := f ++ ["violation duplicate rule in iteration of the result"]
  -- the L2 model of Reduce as coded (simulation matrix, RestrictToSymmetric, GetQuotientProjection, collapse, trimming):
  -- its sizes do not depend on the visiting order (`reduceModel_size_order_independent`), so they must be the implementation's
  -- ... and the class-level pipeline (`reduceAsCoded_eq_reduceModel`, `reduceAsCoded_lang`, `reduceAsCoded_total`) must return
  match Vata.SimPipe.reduceAsCoded A with
  | some M' =>
    if f.isEmpty && (M'.states.length != R.states.length || (dedupRules M'.rules).length != (dedupRules R.rules).length) then
      f := f ++ [s!"mismatch reduce pipeline model sizes: model {M'.states.length} states / {(dedupRules M'.rules).length} rules, implementation {R.states.length} / {(dedupRules R.rules).length}"]
  | none => f := f ++ ["mismatch reduce pipeline model returned none"]
  -- `Reduce` END TO END on the store (`Vata/ReduceCoded.lean`: simulation pipeline → matrix class → `CollapseStates` as the loops over the
  -- three-level store with the throwing `at` → `RemoveUnreachableStates` with its work-list and shortcut; `C05_fully_coded_*`)
  match ReduceCoded.reduceFullyCodedTA A with
  | some Mc =>
    if f.isEmpty && (Mc.states.length != R.states.length || (dedupRules Mc.rules).length != (dedupRules R.rules).length) then
      f := f ++ [s!"mismatch fully coded Reduce sizes: model {Mc.states.length} states / {(dedupRules Mc.rules).length} rules, implementation {R.states.length} / {(dedupRules R.rules).length}"]
  | none => f := f ++ ["mismatch fully coded Reduce model threw / returned none (proved impossible: C05_fully_coded_total)"]
  let M := reduceModel A A.states
  if f.isEmpty && (M.states.length != R.states.length || (dedupRules M.rules).length != (dedupRules R.rules).length) then
    f := f ++ [s!"mismatch reduce-model sizes: model {M.states.length} states / {(dedupRules M.rules).length} rules, implementation {R.states.length} / {(dedupRules R.rules).length}"]
  pure (f, s!"states={A.states.length}->{R.states.length}")

def checkSim (args res : List String) (up : Bool) : Except String (Findings × String) := do
  let A ← getE (args[0]? >>= parseTA?) "bad A"
  let n ← getE (args[1]? >>= String.toNat?) "bad n"
  let Q := A.states
  if !(Q.all (· < n)) || Q.length != n then throw "precondition: states are not exactly 0..n-1"
  if up && !allUsefulB A then throw "precondition: upward simulation needs an automaton without useless states"
  let A' ← taE res "A"
  let mut f : Findings := sameOperand "A" A A'
  let rel ← getE ((kv res "rel") >>= parseRel?) "bad rel"
  let ref := if up then upSimRef A else downSimRef A
  if !(if up then isUpSimB A ref else isDownSimB A ref) then throw "internal: reference is not a simulation"
  let dir := if up then "upward" else "downward"
  if !relEq rel ref then
    let extra := rel.filter (fun p => !ref.contains p)
    let missing := ref.filter (fun p => !rel.contains p)
    f := f ++ [s!"violation {dir}-simulation differs from the greatest one: extra={extra} missing={missing}"]
  let between := ref.length > Q.length && ref.length < Q.length * Q.length
  -- the end-to-end model of `ComputeSimulation` as coded (fresh numbering, TranslateDownward / TranslateUpward, the ENGINE
  -- model, `buildResult` on the matrix class, `StateDiscontBinaryRelation` read back through its dictionary;
  -- `computeSimDown_eq/_total`, `computeSimUp_eq/_total`): must return and produce exactly the implementation's relation
  match (if up then Vata.SimPipe.computeSimUp A n else Vata.SimPipe.computeSimDown A n) with
  | some R =>
    if f.isEmpty && !relEq rel R then
      f := f ++ [s!"mismatch {dir}-simulation pipeline model differs from the implementation: only model={R.filter (fun p => !rel.contains p)} only implementation={rel.filter (fun p => !R.contains p)}"]
  | none => f := f ++ [s!"mismatch {dir}-simulation pipeline model returned none"]
  pure (f, s!"dir={dir} between={bchar between}")

def checkCompl (args res : List String) : Except String (Findings × String) := do
  let A ← getE (args[0]? >>= parseTA?) "bad A"
  let ranks ← getE (args[1]? >>= (fun s => if s == "-" then some [] else natList? s ',')) "bad alphabet"
  let Sg := (List.range ranks.length).zip ranks
  let C ← taE res "C"
  let A' ← taE res "A"
  let mut f : Findings := sameOperand "A" A A'
  let ok ← getE (isComplM C A Sg FUEL) "fuel(compl)"
  if !ok then f := f ++ ["violation complement-language"]
  -- the second call, after the alphabet has grown by one nullary symbol (same automaton, same alphabet object, same process)
  match kv res "C2" >>= parseTA? with
  | some C2 =>
    let Sg2 := Sg ++ [(ranks.length, 0)]
    if !(← getE (isComplM C2 A Sg2 FUEL) "fuel(compl)") then f := f ++ ["violation complement-language (second call, after the alphabet has grown)"]
  | none => pure ()
  let eA ← emptyE A
  let eC ← emptyE C
  -- the L2 model of the macro-state construction (`complTD_spec`, `complTD_total`): the set of macro-states and rules is
  -- determined by the operands, the numbering is not: sizes of the trimmed results must agree
  match Compl.complTD A Sg (2 ^ A.states.length + 2) with
  | some M =>
    if f.isEmpty && (M.states.length != C.states.length || (dedupRules M.rules).length != (dedupRules C.rules).length) then
      f := f ++ [s!"mismatch complTD-model sizes: model {M.states.length} states / {(dedupRules M.rules).length} rules, implementation {C.states.length} / {(dedupRules C.rules).length}"]
  | none => f := f ++ ["mismatch complTD-model returned none"]
  pure (f, s!"emptyA={bchar eA} emptyC={bchar eC}")

def checkRename (args res : List String) : Except String (Findings × String) := do
  let A ← getE (args[0]? >>= parseTA?) "bad A"
  let sm ← getE (args[1]? >>= parseMap?) "bad state map"
  let ym ← getE (args[2]? >>= parseMap?) "bad symbol map"
  let D ← getE (args[3]? >>= parseTA?) "bad D"
  let A' ← taE res "A"
  let D' ← taE res "D"
  let mut f : Findings := sameOperand "A" A A' ++ sameOperand "D" D D'
  let h := lookupFn sm
  let img := reindex h A
  let chk (key what : String) (M : TA) : Except String Findings := do
    let R ← taE res key
    pure ((if taEq R M then [] else [s!"violation {what} is not the image automaton: got={showTA R} image={showTA M}"]) ++
      (if nodupRules R.rules then [] else [s!"violation duplicate rule in iteration of {what}"]))
  f := f ++ (← chk "fun" "ReindexStates(functor)" img)
  f := f ++ (← chk "funnf" "ReindexStates(functor,no final)" ⟨img.rules, []⟩)
  f := f ++ (← chk "dst" "ReindexStates(dst,functor)" ⟨D.rules ++ img.rules, D.final ++ img.final⟩)
  f := f ++ (← chk "weak" "ReindexStates(translator)" img)
  f := f ++ (← chk "coll" "CollapseStates" img)
  f := f ++ (← chk "sym" "TranslateSymbols" (translateSymbols (lookupFn ym) A))
  -- fresh numbering through an initially empty weak translator: the result is the image under the reported map,
  -- which is injective and total on the states of A
  let fm ← getE ((kv res "freshmap") >>= parseMap?) "bad freshmap"
  f := f ++ (← chk "fresh" "ReindexStates(fresh translator)" (reindex (lookupFn fm) A))
  if !(A.states.all (fun q => (fm.lookup q).isSome)) then f := f ++ ["violation fresh translator not total on the states"]
  let vals := fm.map (·.2)
  if vals.length != (dedupL vals).length then f := f ++ ["violation fresh translator not injective"]
  -- consequences (theorems reindex_mono / reindex_inj_lang): decided directly as a cross-check of the theorems' use
  let R ← taE res "coll"
  if !(← inclE A R) then f := f ++ ["violation collapse-loses-language"]
  let inj := (dedupL (A.states.map h)).length == A.states.length
  if inj then
    if !(← equivE A R) then f := f ++ ["violation injective-renaming-changes-language"]
  -- the loops AS CODED on the three-level store (`Vata/RenameCoded.lean`; `C14_coded_reindex_image`, `C14_coded_translate_symbols_merge`,
  -- `C14_coded_strict_throws`, `C14_coded_weak_extends`): results as rule sets, the throwing functor, the fresh translator's counter
  let cf := RenameCoded.reindexTotalTA A h
  if !taEq (← taE res "fun") cf then f := f ++ [s!"mismatch ReindexStates coded model: {showTA cf}"]
  let cs := RenameCoded.translateSymbolsTA A (lookupFn ym)
  if !taEq (← taE res "sym") cs then f := f ++ [s!"mismatch TranslateSymbols coded model: {showTA cs}"]
  let (cw, cm, cc) := RenameCoded.reindexWeakTA A [] 0
  if !taEq (reindex (lookupFn fm) A) (reindex (lookupFn cm) A) && cm.length != fm.length then f := f ++ ["mismatch fresh translator: the coded model translates another number of states"]
  if cc != fm.length || cw.states.length != (← taE res "fresh").states.length then f := f ++ [s!"mismatch fresh translator: counter {cc} after the coded run, {fm.length} entries reported"]
  let mut thr := "-"
  match args[4]? >>= String.toNat?, kv res "thrown" with
  | some miss, some t =>
    -- the functor throws on `miss`: the call throws iff `miss` is looked up, i.e. is a state of `A` (rules or final set)
    let m' := (A.states.filter (· != miss)).map (fun q => (q, h q))
    match RenameCoded.reindexStrictTA A m' with
    | .error k =>
      thr := "1"
      if t != toString k then f := f ++ [s!"mismatch throwing functor: the coded model throws on {k}, the implementation reports {t}"]
    | .ok _ =>
      thr := "0"
      if t != "-" then f := f ++ [s!"mismatch throwing functor: the implementation threw on {t}, the coded model does not throw"]
  | _, _ => pure ()
  pure (f, s!"inj={bchar inj} thrown={thr}")

def checkLts (args res : List String) : Except String (Findings × String) := do
  let n ← getE (args[0]? >>= String.toNat?) "bad n"
  let edges ← getE (args[1]? >>= (fun s => if s == "-" then some [] else (splitC s ';').mapM (fun e =>
    match e.splitOn "," with
    | [a, b, c] => do pure ((← a.toNat?), (← b.toNat?), (← c.toNat?))
    | _ => none))) "bad edges"
  let outSize ← getE (args[4]? >>= String.toNat?) "bad output size"
  let overload ← getE (args[5]? >>= String.toNat?) "bad overload"
  let L : Vata.L.LTS := ⟨n, edges⟩
  if !(edges.all (fun e => e.1 < n && e.2.2 < n)) then throw "precondition: edge outside 0..n-1"
  -- initial relation
  let I ← (if overload == 0 then do
      let blocks ← getE (args[2]? >>= (fun s => (splitC s '/').mapM (fun b => natList? b ','))) "bad partition"
      let brel ← getE (args[3]? >>= parseRel?) "bad block relation"
      -- preconditions: blocks non-empty, a partition of 0..n-1, relation reflexive and transitive on the blocks
      let all := blocks.flatMap id
      if blocks.any (·.isEmpty) || all.length != n || !((List.range n).all (fun q => all.contains q)) then
        throw "precondition: not a partition of the states into non-empty blocks"
      let nb := blocks.length
      if !((List.range nb).all (fun i => brel.contains (i, i))) then throw "precondition: block relation not reflexive"
      if !(brel.all (fun p => brel.all (fun p' => p.2 != p'.1 || brel.contains (p.1, p'.2)))) then
        throw "precondition: block relation not transitive"
      let blockOf (q : Nat) : Nat := (blocks.findIdx? (fun b => b.contains q)).getD 0
      pure ((Vata.L.fullRel n).filter (fun p => brel.contains (blockOf p.1, blockOf p.2)))
    else pure (Vata.L.fullRel n) : Except String Vata.L.Rel)
  let k := if overload == 2 then n else outSize
  -- the naive reference needs minutes beyond ~40 states; there the proved engine model is the oracle (`engine_result_eq`:
  -- its output IS `ltsSimOut` under exactly the preconditions checked above, `engine_total`: it returns)
  let ref ← (if n ≤ 40 then pure (Vata.L.ltsSimOut L I k) else do
      let m := (if overload == 0 then
          match (args[2]? >>= (fun s => (splitC s '/').mapM (fun b => natList? b ','))), (args[3]? >>= parseRel?) with
          | some blocks, some brel => Vata.LE.computeSimulation L blocks brel outSize
          | _, _ => none
        else if overload == 1 then Vata.LE.computeSimulation1 L outSize else Vata.LE.computeSimulation0 L)
      getE m "engine model returned none on a large system" : Except String Vata.L.Rel)
  if n ≤ 40 && !Vata.L.isLtsSimB L (Vata.L.ltsSimRef L I) then throw "internal: reference is not a simulation"
  let size ← getE ((kv res "size") >>= String.toNat?) "missing size"
  let rel ← getE ((kv res "rel") >>= parseRel?) "bad rel"
  let mut f : Findings := []
  let expSize := if k == 0 then 0 else k
  if size != expSize then f := f ++ [s!"violation lts-result-size={size} requested={k}"]
  if !relEq rel ref then
    let extra := rel.filter (fun p => !ref.contains p)
    let missing := ref.filter (fun p => !rel.contains p)
    f := f ++ [s!"violation lts-simulation differs from the greatest simulation inside the initial preorder: extra={extra} missing={missing}"]
  let between := ref.length > k && ref.length < k * k
  -- the model of the partition–relation engine as coded (`engine_result_eq`, `engine_total`): must return and produce
  -- exactly the relation the real class produced
  let (fe, te) ← LtsEngineChk.check args res
  f := f ++ fe.map (fun x => if x.startsWith "violation " then "mismatch " ++ (x.drop 10).toString else x)
  pure (f, s!"overload={overload} between={bchar between} big={bchar (n > 12)} {te}")

/-- `cliop <repr> <op> <A> [<B>|<ranks>]`: one command of the real `vata` binary (cli/vata.cc, cli/operations.hh: loading through state
    dictionaries, `-p` / `-s` pruning, the union / product dictionaries of util.cc, dumping by names) judged by the proved deciders.
    The result automaton was parsed back from the printed Timbuk text by the Python side (`R=`), or `out=E|N|C|T`. -/
def unhex? (s : String) : Option String :=
  let rec go : List Char → List Char → Option (List Char)
    | [], acc => some acc.reverse
    | [_], _ => none
    | a :: b :: rest, acc =>
      let d (c : Char) : Option Nat := if c.isDigit then some (c.toNat - 48) else if 'a' ≤ c && c ≤ 'f' then some (c.toNat - 87) else none
      match d a, d b with
      | some x, some y => go rest (Char.ofNat (16 * x + y) :: acc)
      | _, _ => none
  (go s.toList []).map String.ofList

/-- name-for-name comparison of what `vata union | isect` printed with the model of the command line
(`Vata/CliPipeline.lean`: load with fresh state dictionaries and one alphabet → `Union` / `Intersection` → dictionary of the result with the
repaired product names → dump; `C02_cli_union_lang`, `C02_cli_isect_lang`, `C02_cli_product_names_injective`; word automata:
`Vata/NfaCliPipeline.lean`, `C10_cli_union_lang`, `C10_cli_isect_lang`).  Both texts are parsed by the model parser and compared as sets of
final-state names and of rules over names; when a product name needed a prime (which of two colliding states gets it depends on the hash
order) only the counts are compared. -/
def cliTextCompare (repr op : String) (res : List String) : Except String (Findings × String) := do
  match (kv res "txa") >>= unhex?, (kv res "txb") >>= unhex?, (kv res "txo") >>= unhex? with
  | some ta, some tb, some to_ =>
    let model := match repr, op with
      | "expl", "union" => some (Vata.CliPipe.cliUnionText ta tb)
      | "expl", "isect" => some (Vata.CliPipe.cliIsectText ta tb)
      | "expl_fa", "union" => some (Vata.NfaCli.cliNfaUnionText ta tb)
      | "expl_fa", "isect" => some (Vata.NfaCli.cliNfaIsectText ta tb)
      | _, _ => none
    match model with
    | none => pure ([], "")
    | some (.error e) => pure ([s!"mismatch model of vata {repr} {op} fails ({e}) where the binary printed an automaton"], " clitext=err")
    | some (.ok tm) =>
      match parseTimbuk tm, parseTimbuk to_ with
      | .ok dm, .ok di =>
        let sameSet {α} [BEq α] (a b : List α) : Bool := a.all (fun x => b.contains x) && b.all (fun x => a.contains x)
        let primed := (dm.final ++ dm.trans.map (·.2.2) ++ di.final ++ di.trans.map (·.2.2)).any (fun n => n.endsWith "'")
        if primed then
          if dm.final.eraseDups.length != di.final.eraseDups.length || dm.trans.eraseDups.length != di.trans.eraseDups.length then
            pure ([s!"mismatch vata {repr} {op}: printed automaton has other sizes than the model's (primed names)"], " clitext=primed")
          else pure ([], " clitext=primed")
        else if !(sameSet dm.final di.final && sameSet dm.trans di.trans) then
          pure ([s!"mismatch vata {repr} {op}: the printed text differs from the model's, name for name: model finals {dm.final} rules {dm.trans.length}, binary finals {di.final} rules {di.trans.length}"], " clitext=1")
        else pure ([], " clitext=1")
      | _, _ => pure ([s!"mismatch vata {repr} {op}: the model parser rejects the printed text or the model's text"], " clitext=err")
  | _, _, _ => pure ([], "")

def checkCliOp (args res : List String) : Except String (Findings × String) := do
  let repr ← getE args[0]? "bad repr"
  let op0 ← getE args[1]? "bad op"
  let A ← getE (args[2]? >>= parseTA?) "bad A"
  let tag := s!"cli={repr}/{op0}"
  -- `unions` / `unionp` / `isects` / `isectp`: the two-operand commands with `-s` / `-p` (both operands are pruned first: same language)
  let op := if ["unions", "unionp"].contains op0 then "union" else if ["isects", "isectp"].contains op0 then "isect" else op0
  match kv res "out" with
  | some "N" => return ([], tag ++ " notimpl=1")
  | some "T" => return ([], tag ++ " timeout=1")
  | some o => return ([s!"violation vata {repr} {op} ended with {o} (crash / error / unparsable output) on well-formed input"], tag)
  | none => pure ()
  let mut f : Findings := []
  match op with
  | "simdown" | "simup" =>
    let up := op == "simup"
    if up && !allUsefulB A then throw "precondition: upward simulation needs an automaton without useless states"
    let rel ← getE ((kv res "rel") >>= parseRel?) "bad rel"
    let ref := if up then upSimRef A else downSimRef A
    if !relEq rel ref then
      let extra := rel.filter (fun p => !ref.contains p)
      let missing := ref.filter (fun p => !rel.contains p)
      f := f ++ [s!"violation vata {repr} sim ({op}) differs from the greatest simulation: extra={extra} missing={missing}"]
    return (f, tag ++ s!" between={bchar (ref.length > A.states.length && ref.length < A.states.length * A.states.length)}")
  | _ => pure ()
  let R ← taE res "R"
  let eA ← emptyE A
  match op with
  | "load" =>
    if !(← equivE R A) then f := f ++ [s!"violation vata {repr} load changes the language"]
    if repr == "expl" && !taEq R A then f := f ++ [s!"violation vata {repr} load|dump does not show what was loaded"]
  | "loadp" =>
    if !(← equivE R A) then f := f ++ [s!"violation vata {repr} -p load changes the language"]
    -- only the explicit tree encoding promises top-down reachability (C03); the other encodings prune in their own direction
    if repr == "expl" && !allReachableB R then f := f ++ [s!"violation vata {repr} -p load leaves an unreachable state"]
  | "loads" =>
    if !(← equivE R A) then f := f ++ [s!"violation vata {repr} -s load changes the language"]
    if repr != "expl_fa" && !allUsefulB R then f := f ++ [s!"violation vata {repr} -s load leaves a useless state or rule"]
  | "witness" =>
    if !(← inclE R A) then f := f ++ [s!"violation vata {repr} witness not a sub-language"]
    if (← emptyE R) && !eA then f := f ++ [s!"violation vata {repr} witness empty for a non-empty language"]
  | "red" =>
    if !(← equivE R A) then f := f ++ [s!"violation vata {repr} red changes the language"]
    if R.states.length > A.states.length then f := f ++ ["violation vata red: more states"]
    if (dedupRules R.rules).length > (dedupRules A.rules).length then f := f ++ ["violation vata red: more rules"]
    if !(subB R.states A.states) then f := f ++ ["violation vata red: state that is not the image of a state"]
  | "cmpl" =>
    let ranks ← getE (args[3]? >>= (fun s => if s == "-" then some [] else natList? s ',')) "bad alphabet"
    let Sg := (List.range ranks.length).zip ranks
    let ok ← getE (isComplM R A Sg FUEL) "fuel(compl)"
    if !ok then f := f ++ [s!"violation vata {repr} cmpl: not the complement over the alphabet of the file"]
  | "union" =>
    let B ← getE (args[3]? >>= parseTA?) "bad B"
    if !(← getE (isUnionM R A B FUEL) "fuel(union)") then f := f ++ [s!"violation vata {repr} union: language is not the union"]
  | "isect" =>
    let B ← getE (args[3]? >>= parseTA?) "bad B"
    if !(← getE (isIsectM R A B FUEL) "fuel(isect)") then f := f ++ [s!"violation vata {repr} isect: language is not the intersection"]
  | _ => throw s!"unknown cli op {op}"
  let mut tag := tag
  if op0 == "union" || op0 == "isect" then
    let (f2, t2) ← cliTextCompare repr op0 res
    f := f ++ f2; tag := tag ++ t2
  pure (f, tag ++ s!" emptyA={bchar eA} emptyR={bchar (← emptyE R)}")

/-- utility classes under the algorithms (sorted vectors, antichain containers, relations …): their models are part of the
    modelled code, not of a property statement – any difference between class and model is a broken correspondence
    (`mismatch`), never by itself a refutation of the property under which the case was run -/
def utilKind (what : String) (r : Except String (List String × String)) : Except String (Findings × String) := do
  let (f, tag) ← r
  pure (f.map (fun x => if x.startsWith "violation " then s!"mismatch {what}: " ++ (x.drop 10).toString else s!"mismatch {what}: " ++ x), "util " ++ tag)

def dispatch (kind : String) (args res : List String) : Except String (Findings × String) :=
  match kind with
  | "incl" => checkIncl args res
  | "inclall" => checkInclAll args res
  | "union" => checkUnion args res false
  | "unionpre" => checkUnion args res true
  | "uniondisj" => checkUnionDisj args res
  | "isect" => checkIsect args res false
  | "isectbu" => checkIsect args res true
  | "mapsx" => checkMapsX args res
  | "trim" => checkTrim args res
  | "cand" => checkCand args res
  | "reduce" => checkReduce args res
  | "simdown" => checkSim args res false
  | "simup" => checkSim args res true
  | "compl" => checkCompl args res
  | "rename" => checkRename args res
  | "nfah" => NfaHist.check args res
  | "lts" => checkLts args res
  | "tah" => TaHist.check args res
  | "mth" => MtHist.check false args res
  | "parse" => ParseChk.check args res
  | "parse2" => ParseChk.check2 args res
  | "ltsc" => utilKind "ExplicitLTS container" (LtsCChk.check args res)
  | "ownalpha" => checkOwnAlpha args res
  | "meta" => MetaChk.check args res
  | "bddincl" => BddChk.checkIncl args res
  | "bddinclall" => BddChk.checkInclAll args res
  | "bddh" => BddChk.checkHist args res
  | "bddtd" => BddChk.checkToTd args res
  | "mthrc" => MtHist.check true args res
  | "ordvec" => utilKind "OrdVector" (OrdVecChk.check args res)
  | "achain" => utilKind "antichain containers" (AchainChk.check args res)
  | "bddsim" => utilKind "bottom-up BDD downward simulation" (BddSimChk.check args res)
  | "binrel" => utilKind "BinaryRelation" (BinRelChk.check args res)
  | "cacheh" => utilKind "Util::Cache / CachedBinaryOp" (CacheChk.check args res)
  | "glue" => utilKind "symbol assignments / dictionaries / translators" (GlueChk.check args res)
  | "cliargs" => utilKind "command-line parsing and option handling" (CliArgsChk.check args res)
  | "ltsutil" => utilKind "helper classes of the simulation engine" (LtsUtilChk.check args res)
  | "nfas" => NfaStartChk.check args res
  | "bddpre" => do
    -- unrestricted BDD histories: judged only INSIDE the exact sharing precondition (model prediction of every dump)
    let (f, tag) ← BddShareChk.check args res
    if (tag.splitOn "exact=out").length > 1 then pure ([], "util outside-precondition " ++ tag)
    else utilKind "BDD table sharing" (pure (f, tag))
  | "bddload" => utilKind "Timbuk layer of the BDD encodings" (BddLoadChk.check args res)
  | "cliop" => checkCliOp args res
  | "apisweep" =>
    -- API sweep of C20: nothing functional is judged (a sanitizer report / crash never reaches this point); the tag is
    -- the outcome vector (R returned, N NotImplementedException, E other std::exception)
    pure ([], " ".intercalate res)
  | _ => throw s!"unknown kind {kind}"

def toks (line : String) : List String := (line.trimAscii.toString.splitOn " ").filter (· != "")

partial def loop (h : IO.FS.Stream) (cur : Option (String × String × List String)) : IO Unit := do
  let line ← h.getLine
  if line.isEmpty then return ()
  match toks line with
  | "C" :: id :: kind :: args => loop h (some (id, kind, args))
  | "R" :: id :: res =>
    match cur with
    | some (cid, kind, args) =>
      if cid != id then IO.println s!"{id} error result without matching case"
      else
        match res with
        | "EXC" :: what => IO.println s!"{id} violation exception {" ".intercalate what}"
        | ["TIMEOUT"] => IO.println s!"{id} violation timeout"
        | "CRASH" :: what => IO.println s!"{id} violation crash {" ".intercalate what}"
        | _ =>
          match dispatch kind args res with
          | .ok ([], tag) => IO.println s!"{id} ok {tag}"
          | .ok (f, _) => IO.println s!"{id} {" ;; ".intercalate f}"
          | .error e => IO.println s!"{id} error {e}"
      loop h none
    | none => IO.println s!"{id} error result without case"; loop h none
  | _ => loop h cur

def main : IO Unit := do loop (← IO.getStdin) none
