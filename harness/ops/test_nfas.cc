// test_nfas: stand-alone runner of harness/op_nfas.inc.
// stdin:  lines  C <id> nfas <step> ...        stdout: the line itself followed by  R <id> <result tokens>
// build:  g++ -std=c++14 -O1 -g -fsanitize=address,undefined -fno-sanitize-recover=all -DNDEBUG \
//             -I/repo/include -I/repo/src harness/test_nfas.cc -L/repo/_build/src -lvata -o test_nfas
#include <cstdio>
#include <cstdlib>
#include <iostream>
#include <sstream>
#include <stdexcept>
#include <string>
#include <typeinfo>
#include <vector>

using std::string;
using std::vector;
using namespace std;

static vector<string> split(const string& s, char d)
{
	vector<string> out;
	if (s.empty()) return out;
	string cur;
	for (char c : s) {
		if (c == d) { out.push_back(cur); cur.clear(); }
		else cur.push_back(c);
	}
	out.push_back(cur);
	return out;
}

static size_t toN(const string& s)
{
	if (s.empty()) throw std::invalid_argument("empty number");
	size_t pos = 0;
	unsigned long long v = std::stoull(s, &pos);
	if (pos != s.size()) throw std::invalid_argument("bad number " + s);
	return static_cast<size_t>(v);
}

#include "op_nfas.inc"

int main()
{
	nfasRegisterAlphabet();     // as vharness.cc does at start-up (initFaAlphabet)
	string line;
	while (std::getline(std::cin, line)) {
		if (line.empty() || line[0] == '#') continue;
		std::istringstream is(line);
		string c, id, kind, tok;
		is >> c >> id >> kind;
		if (c != "C") continue;
		vector<string> args;
		while (is >> tok) args.push_back(tok);
		string res;
		try {
			if (kind != "nfas") res = "BADKIND";
			else res = opNfas(args);
		}
		catch (const std::exception& e) { res = string("EXC ") + typeid(e).name(); }
		std::cout << line << "\n" << "R " << id << " " << res << std::endl;
	}
	return 0;
}
