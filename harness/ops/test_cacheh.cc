// stand-alone harness for the kind `cacheh`: reads `C <id> cacheh <args...>` lines, prints the line and `R <id> <result...>`
// build:  g++ -std=c++14 -O1 -g -fsanitize=address,undefined -fno-sanitize-recover=all -DNDEBUG -I/repo/include -I/repo/src \
//             harness/test_cacheh.cc /repo/_build/src/libvata.a -o harness/test_cacheh
// (a directory with a modified COPY of util/cache.hh / util/cached_binary_op.hh / util/expl_bu_index.hh may be put in front
//  of /repo/src with -I to test mutants:  -I<copy> where <copy>/util/cache.hh exists)
//
// Address reuse: ASan keeps freed blocks in a quarantine, so an address is practically never handed out again inside a
// short history.  The options below switch the quarantine off for THIS test program only (use-after-free of a block
// that was not yet reallocated is still detected: it stays poisoned), which makes the allocator reuse the node of a
// dead interned object for the next node of the same size class – the situation the classes under test exist for.
// Build with -DCACHEH_KEEP_QUARANTINE to keep ASan's default.
#include <iostream>
#include <sstream>
#include <stdexcept>
#include <string>
#include <typeinfo>
#include <vector>

using std::string;
using std::vector;

#ifndef CACHEH_KEEP_QUARANTINE
extern "C" const char* __asan_default_options() { return "quarantine_size_mb=0:thread_local_quarantine_size_kb=0:detect_leaks=1"; }
#endif

static vector<string> split(const string& s, char d)
{
	vector<string> out;
	if (s.empty()) return out;
	string cur;
	for (char c : s) {
		if (c == d) { out.push_back(cur); cur.clear(); }
		else cur.push_back(c);
	}
	out.push_back(cur);
	return out;
}

static size_t toN(const string& s)
{
	if (s.empty()) throw std::invalid_argument("empty number");
	size_t pos = 0;
	unsigned long long v = std::stoull(s, &pos);
	if (pos != s.size()) throw std::invalid_argument("bad number " + s);
	return static_cast<size_t>(v);
}

#include "op_cacheh.inc"

int main()
{
	string line;
	while (std::getline(std::cin, line)) {
		if (line.empty() || line[0] == '#') continue;
		std::istringstream is(line);
		string c, id, kind, tok;
		is >> c >> id >> kind;
		if (c != "C") continue;
		vector<string> args;
		while (is >> tok) args.push_back(tok);
		string res;
		try {
			if (kind != "cacheh") res = "BADKIND";
			else res = opCacheh(args);
		}
		catch (const std::exception& e) { res = string("EXC ") + typeid(e).name() + " " + e.what(); }
		std::cout << line << "\n" << "R " << id << " " << res << std::endl;
	}
	return 0;
}
