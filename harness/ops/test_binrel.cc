// Stand-alone test driver for harness/op_binrel.inc (kind `binrel`).
// stdin:  lines `C <id> binrel <step> <step> ...`
// stdout: the case line again, then `R <id> <result tokens...>`  (the two-line protocol `vdriver` reads)
// build:  g++ -std=c++14 -O1 -g -fsanitize=address,undefined -fno-sanitize-recover=all -DNDEBUG
//             -I/repo/include -I/repo/src harness/test_binrel.cc -o /tmp/test_binrel
// (set BINREL_HEADER to compile against a modified COPY of binary_relation.hh)
#ifdef BINREL_HEADER
#include BINREL_HEADER
#else
#include <vata/util/binary_relation.hh>
#endif

#include <algorithm>
#include <iostream>
#include <map>
#include <memory>
#include <set>
#include <sstream>
#include <string>
#include <typeinfo>
#include <unordered_map>
#include <vector>

using std::string;
using std::vector;

static vector<string> split(const string& s, char d)
{
	vector<string> out;
	if (s.empty()) return out;
	string cur;
	for (char c : s) {
		if (c == d) { out.push_back(cur); cur.clear(); }
		else cur.push_back(c);
	}
	out.push_back(cur);
	return out;
}

static size_t toN(const string& s)
{
	if (s.empty()) throw std::invalid_argument("empty number");
	size_t pos = 0;
	unsigned long long v = std::stoull(s, &pos);
	if (pos != s.size()) throw std::invalid_argument("bad number " + s);
	return static_cast<size_t>(v);
}

#include "op_binrel.inc"

int main()
{
	string line;
	while (std::getline(std::cin, line)) {
		if (line.empty() || line[0] == '#') continue;
		std::istringstream is(line);
		string c, id, kind, tok;
		is >> c >> id >> kind;
		if (c != "C") continue;
		vector<string> args;
		while (is >> tok) args.push_back(tok);
		string res;
		try {
			if (kind != "binrel") throw std::invalid_argument("unknown kind");
			res = opBinrel(args);
		}
		catch (const std::exception& e) { res = string("EXC ") + typeid(e).name(); }
		std::cout << line << "\n" << "R " << id << " " << res << std::endl;
	}
	return 0;
}
