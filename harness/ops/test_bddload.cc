// Stand-alone test driver of the `bddload` kind: reads `C <id> bddload <args…>` lines, prints each followed by
// `R <id> <result…>` (the two-line protocol of vdriver).
//
//   g++ -std=c++14 -O1 -g -fsanitize=address,undefined -fno-sanitize-recover=all -DNDEBUG -I/repo/include -I/repo/src \
//       harness/test_bddload.cc -L/repo/_build/src -lvata -o /tmp/test_bddload
//
// `test_bddload fork` runs every case in a child process: a crash (signal, failed assertion) becomes `R <id> CRASH <what>`.
//
// Everything the kind exercises apart from AddTransition (src/bdd_*_tree_aut_core.cc) and the Timbuk parser / serializer is
// header code (loadable_aut.hh, bdd_*_tree_aut_core.hh, aut_base.hh, sym_var_asgn.hh, the MTBDD package), so it runs
// instrumented.  To test an edited copy of a header put its directory in front: `-I<dir with the copy> -I/repo/include -I/repo/src`
// (an edited include/vata/… header goes to <dir>/vata/…; sym_var_asgn.cc / the *_core.cc files can be put in front of the library).
// harness/bddload_mutants/mut{1,2,3,5}.patch are four such edits (patch a copy of /repo/src/bdd_{bu,td}_tree_aut_core.hh in <dir>;
// mut3 changes addArityToSymbol, which AddTransition in bdd_td_tree_aut_core.cc calls: copy that .cc into <dir> too and put it
// in front of the library).  On 700 generated cases: mut1 (the explicit bottom-up dump collects every non-empty leaf) 220
// violations of the round trip, mut3 (2 bits of the arity) 28 violations of the arity reader, mut2 (children numbered before the
// parent) 14 and mut5 (symbols longer than 16 characters accepted) 6 mismatches; the unchanged headers none.
#include <iostream>
#include <sstream>
#include <string>
#include <vector>
#include <stdexcept>
#include <csignal>
#include <cstring>
#include <unistd.h>
#include <sys/wait.h>

using std::string;
using std::vector;

static vector<string> split(const string& s, char d)
{
	vector<string> out;
	if (s.empty()) return out;
	string cur;
	for (char c : s) {
		if (c == d) { out.push_back(cur); cur.clear(); }
		else cur.push_back(c);
	}
	out.push_back(cur);
	return out;
}

static size_t toN(const string& s)
{
	if (s.empty()) throw std::invalid_argument("empty number");
	size_t pos = 0;
	unsigned long long v = std::stoull(s, &pos);
	if (pos != s.size()) throw std::invalid_argument("bad number " + s);
	return static_cast<size_t>(v);
}

#include "op_bddload.inc"

static string runOne(const string& kind, const vector<string>& args)
{
	if (kind != "bddload") return "EXC unknown_kind";
	try { return opBddload(args); }
	catch (const std::exception& e) { return string("EXC ") + e.what(); }
}

// the case in a child process; the result line comes back through a pipe
static string runForked(const string& kind, const vector<string>& args)
{
	int fd[2];
	if (pipe(fd) != 0) return "CRASH pipe";
	std::cout.flush();
	pid_t pid = fork();
	if (pid == 0) {
		close(fd[0]);
		alarm(120);
		string r = runOne(kind, args);
		size_t off = 0;
		while (off < r.size()) {
			ssize_t w = write(fd[1], r.data() + off, r.size() - off);
			if (w <= 0) break;
			off += static_cast<size_t>(w);
		}
		_exit(0);
	}
	close(fd[1]);
	string r;
	char buf[4096];
	ssize_t k;
	while ((k = read(fd[0], buf, sizeof buf)) > 0) r.append(buf, static_cast<size_t>(k));
	close(fd[0]);
	int st = 0;
	waitpid(pid, &st, 0);
	if (WIFSIGNALED(st)) return WTERMSIG(st) == SIGALRM ? string("TIMEOUT") : "CRASH signal_" + std::to_string(WTERMSIG(st));
	if (!WIFEXITED(st) || WEXITSTATUS(st) != 0) return "CRASH exit_" + std::to_string(WIFEXITED(st) ? WEXITSTATUS(st) : -1);
	return r;
}

int main(int argc, char** argv)
{
	bool forked = argc > 1 && std::strcmp(argv[1], "fork") == 0;
	std::ios::sync_with_stdio(true);
	string line;
	while (std::getline(std::cin, line)) {
		if (line.empty() || line[0] == '#') continue;
		std::istringstream is(line);
		string c, id, kind, tok;
		is >> c >> id >> kind;
		if (c != "C") continue;
		vector<string> args;
		while (is >> tok) args.push_back(tok);
		string res = forked ? runForked(kind, args) : runOne(kind, args);
		std::cout << line << "\n" << "R " << id << " " << res << std::endl;
	}
	return 0;
}
