// test_cliargs: stand-alone runner of harness/op_cliargs.inc.
// stdin:  lines  C <id> cliargs <tok> ...        stdout: the line itself followed by  R <id> <result tokens>
// build:  g++ -std=c++14 -O1 -g -fsanitize=address,undefined -fno-sanitize-recover=all -DNDEBUG \
//             -I/repo/include -I/repo/src harness/test_cliargs.cc -L/repo/_build/src -lvata -o test_cliargs
//         (the CLI sources come from `cli/` on the include path if present, else from /repo/cli; a mutated copy of them:
//          add -DCLIARGS_PARSE_ARGS_CC='"/x/parse_args.cc"' -DCLIARGS_VATA_CC='"/x/vata.cc"' – harness/cliargs_mutants/*.patch
//          are the three edits used for the sensitivity demonstration)
// run:    python3 tools/gen_cliargs.py 5000 1 | ./test_cliargs | .lake/build/bin/vdriver
#include <cstdio>
#include <cstdlib>
#include <iostream>
#include <sstream>
#include <stdexcept>
#include <string>
#include <typeinfo>
#include <vector>

using std::string;
using std::vector;
using namespace std;

static vector<string> split(const string& s, char d)
{
	vector<string> out;
	if (s.empty()) return out;
	string cur;
	for (char c : s) {
		if (c == d) { out.push_back(cur); cur.clear(); }
		else cur.push_back(c);
	}
	out.push_back(cur);
	return out;
}

static size_t toN(const string& s)
{
	if (s.empty()) throw std::invalid_argument("empty number");
	size_t pos = 0;
	unsigned long long v = std::stoull(s, &pos);
	if (pos != s.size()) throw std::invalid_argument("bad number " + s);
	return static_cast<size_t>(v);
}

#include "op_cliargs.inc"

int main()
{
	(void)&split; (void)&toN;
	string line;
	while (std::getline(std::cin, line)) {
		if (line.empty() || line[0] == '#') continue;
		std::istringstream is(line);
		string c, id, kind, tok;
		is >> c >> id >> kind;
		if (c != "C") continue;
		vector<string> args;
		while (is >> tok) args.push_back(tok);
		string res;
		try {
			if (kind != "cliargs") res = "BADKIND";
			else res = opCliargs(args);
		}
		catch (const std::exception& e) { res = string("EXC ") + typeid(e).name(); }
		std::cout << line << "\n" << "R " << id << " " << res << std::endl;
	}
	return 0;
}
