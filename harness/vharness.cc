// vharness: in-process driver of the real libvata classes for the correspondence checks of /verif.
//
// Reads one case per line from stdin ("<id> <kind> <args...>"), executes it on the real library and prints one
// result line "<id> <result tokens...>" (flushed).  A case that throws prints "<id> EXC <class>".  A per-case
// watchdog (alarm) prints "<id> TIMEOUT" and terminates the process; the orchestrator restarts the harness after
// the offending case.  A sanitizer abort terminates the process too; the case without a result line is the culprit.
//
// Text formats (all numeric):
//   TA   : rules '|' finals           rules = rule;rule;...   rule = sym:k1,k2>parent    finals = q,q,...
//   map  : a>b,a>b,...                pairmap: a.b>c,...
//   NFA  : trans '|' starts '|' finals  trans = src,sym,dst;...
#include <vata/explicit_tree_aut.hh>
#include <vata/bdd_bu_tree_aut.hh>
#include <vata/bdd_td_tree_aut.hh>
#include <vata/explicit_finite_aut.hh>
#include <vata/explicit_lts.hh>
#include <vata/parsing/timbuk_parser.hh>
#include <vata/serialization/timbuk_serializer.hh>
#include <vata/util/binary_relation.hh>
#include <vata/util/util.hh>
#include <vata/sym_var_asgn.hh>
#include "mtbdd/apply1func.hh"
#include "mtbdd/apply2func.hh"
#include "mtbdd/apply3func.hh"
#include "mtbdd/ondriks_mtbdd.hh"

#include <algorithm>
#include <csignal>
#include <cstdio>
#include <cstdlib>
#include <iostream>
#include <map>
#include <set>
#include <sstream>
#include <string>
#include <typeinfo>
#include <unistd.h>
#include <sys/personality.h>
#include <sys/select.h>
#include <sys/prctl.h>
#include <sys/wait.h>
#include <functional>
#include <vector>
#include <fstream>
#include <random>

using namespace VATA;
using std::string;
using std::vector;
using StateType = AutBase::StateType;
using TA = ExplicitTreeAut;

static string g_curId;
static int g_timeout = 10;
static int g_selTimeout = 2;   // budget of one forked call (algorithms that are exponential by design)

static void onAlarm(int)
{
	// async-signal-safe enough for our purpose: write and _exit
	string s = g_curId + " TIMEOUT\n";
	ssize_t r = write(1, s.c_str(), s.size());
	(void)r;
	_exit(3);
}

// ---------------------------------------------------------------- parsing helpers
static vector<string> split(const string& s, char d)
{
	vector<string> out;
	if (s.empty()) return out;
	string cur;
	for (char c : s) {
		if (c == d) { out.push_back(cur); cur.clear(); }
		else cur.push_back(c);
	}
	out.push_back(cur);
	return out;
}

static size_t toN(const string& s)
{
	if (s.empty()) throw std::invalid_argument("empty number");
	size_t pos = 0;
	unsigned long long v = std::stoull(s, &pos);
	if (pos != s.size()) throw std::invalid_argument("bad number " + s);
	return static_cast<size_t>(v);
}

struct RuleT { size_t sym; vector<size_t> kids; size_t parent; };
struct TAT { vector<RuleT> rules; vector<size_t> finals; };

static TAT parseTA(const string& tok)
{
	TAT t;
	size_t bar = tok.find('|');
	if (bar == string::npos) throw std::invalid_argument("TA token without |");
	for (const string& r : split(tok.substr(0, bar), ';')) {
		size_t c = r.find(':'), g = r.find('>');
		RuleT rt;
		rt.sym = toN(r.substr(0, c));
		for (const string& k : split(r.substr(c + 1, g - c - 1), ',')) rt.kids.push_back(toN(k));
		rt.parent = toN(r.substr(g + 1));
		t.rules.push_back(rt);
	}
	for (const string& f : split(tok.substr(bar + 1), ',')) t.finals.push_back(toN(f));
	return t;
}

static TA buildTA(const TAT& t)
{
	TA a;
	for (const RuleT& r : t.rules) a.AddTransition(r.kids, r.sym, r.parent);
	for (size_t f : t.finals) a.SetStateFinal(f);
	return a;
}

static string dumpTA(const TA& a)
{
	vector<string> rs;
	for (const TA::Transition& tr : a) {
		std::ostringstream os;
		os << tr.GetSymbol() << ":";
		for (size_t i = 0; i < tr.GetChildren().size(); ++i) { if (i) os << ","; os << tr.GetChildren()[i]; }
		os << ">" << tr.GetParent();
		rs.push_back(os.str());
	}
	// keep the order and multiplicity the iterator yields (duplicates are a finding for C12); sort for canonicity
	std::sort(rs.begin(), rs.end());
	std::ostringstream os;
	for (size_t i = 0; i < rs.size(); ++i) { if (i) os << ";"; os << rs[i]; }
	os << "|";
	vector<size_t> fs(a.GetFinalStates().begin(), a.GetFinalStates().end());
	std::sort(fs.begin(), fs.end());
	for (size_t i = 0; i < fs.size(); ++i) { if (i) os << ","; os << fs[i]; }
	return os.str();
}

static AutBase::StateToStateMap parseMap(const string& tok)
{
	AutBase::StateToStateMap m;
	if (tok == "-") return m;
	for (const string& e : split(tok, ',')) {
		size_t g = e.find('>');
		m[toN(e.substr(0, g))] = toN(e.substr(g + 1));
	}
	return m;
}

template <class M>
static string dumpMap(const M& m)
{
	vector<std::pair<size_t, size_t>> v(m.begin(), m.end());
	std::sort(v.begin(), v.end());
	std::ostringstream os;
	if (v.empty()) os << "-";
	for (size_t i = 0; i < v.size(); ++i) { if (i) os << ","; os << v[i].first << ">" << v[i].second; }
	return os.str();
}

static string dumpPairMap(const AutBase::ProductTranslMap& m)
{
	vector<std::pair<std::pair<size_t, size_t>, size_t>> v(m.begin(), m.end());
	std::sort(v.begin(), v.end());
	std::ostringstream os;
	if (v.empty()) os << "-";
	for (size_t i = 0; i < v.size(); ++i) {
		if (i) os << ",";
		os << v[i].first.first << "." << v[i].first.second << ">" << v[i].second;
	}
	return os.str();
}

// ---------------------------------------------------------------- explicit tree automata
static char inclOne(const TA& a, const TA& b, bool down, bool rec, bool opt, bool sim)
{
	try {
		InclParam ip;
		ip.SetAlgorithm(InclParam::e_algorithm::antichains);
		ip.SetDirection(down ? InclParam::e_direction::downward : InclParam::e_direction::upward);
		ip.SetUseRecursion(rec);
		ip.SetUseDownwardCacheImpl(opt);
		ip.SetUseSimulation(sim);
		if (!sim) {
			return TA::CheckInclusion(a, b, ip) ? '1' : '0';
		}
		// the protocol of cli/operations.hh
		TA smaller(a), bigger(b);
		StateType states = AutBase::SanitizeAutsForInclusion(smaller, bigger);
		TA unionAut = TA::UnionDisjointStates(smaller, bigger);
		SimParam sp;
		sp.SetRelation(down ? SimParam::e_sim_relation::TA_DOWNWARD : SimParam::e_sim_relation::TA_UPWARD);
		sp.SetNumStates(states);
		AutBase::StateDiscontBinaryRelation simRel = unionAut.ComputeSimulation(sp);
		ip.SetSimulation(&simRel);
		return TA::CheckInclusion(smaller, bigger, ip) ? '1' : '0';
	}
	catch (const NotImplementedException&) { return 'N'; }
	catch (const std::exception&) { return 'E'; }
}

// runs f in a forked child with a time budget: its result, 'T' (budget overrun, child killed) or 'C' (child died)
static char forked(const std::function<char()>& f, int secs)
{
	int fd[2];
	if (pipe(fd) != 0) return 'C';
	fflush(stdout);
	unsigned rem = alarm(0);       // the case watchdog does not run while a budgeted child does
	pid_t pid = fork();
	if (pid == 0) {
		close(fd[0]);
		prctl(PR_SET_PDEATHSIG, SIGKILL);
		signal(SIGALRM, SIG_DFL);
		alarm(secs + 2);           // backstop: the child never outlives its budget
		char c = f();
		ssize_t r = write(fd[1], &c, 1);
		(void)r;
		_exit(0);
	}
	close(fd[1]);
	fd_set rs;
	FD_ZERO(&rs);
	FD_SET(fd[0], &rs);
	struct timeval tv;
	tv.tv_sec = secs;
	tv.tv_usec = 0;
	char c = 'T';
	int r = select(fd[0] + 1, &rs, nullptr, nullptr, &tv);
	if (r > 0) { if (read(fd[0], &c, 1) != 1) c = 'C'; }
	else kill(pid, SIGKILL);
	close(fd[0]);
	int st;
	waitpid(pid, &st, 0);
	alarm(rem);
	return c;
}

// runs the calls in ONE forked child (a fork of the sanitised process is expensive), each under its own budget: the child
// writes one character per finished call; when a call overruns, the child is killed ('T') and a new child continues
// with the remaining calls
static string forkedSeq(const vector<std::function<char()>>& fs, int secsEach)
{
	string out;
	size_t next = 0;
	while (next < fs.size()) {
		int fd[2];
		if (pipe(fd) != 0) { out += string(fs.size() - next, 'C'); break; }
		fflush(stdout);
		unsigned rem = alarm(0);
		pid_t pid = fork();
		if (pid == 0) {
			close(fd[0]);
			prctl(PR_SET_PDEATHSIG, SIGKILL);
			signal(SIGALRM, SIG_DFL);
			for (size_t i = next; i < fs.size(); ++i) {
				alarm(secsEach + 2);
				char c = fs[i]();
				ssize_t r = write(fd[1], &c, 1);
				(void)r;
			}
			_exit(0);
		}
		close(fd[1]);
		bool restart = false;
		while (next < fs.size()) {
			fd_set rs;
			FD_ZERO(&rs);
			FD_SET(fd[0], &rs);
			struct timeval tv;
			tv.tv_sec = secsEach;
			tv.tv_usec = 0;
			int r = select(fd[0] + 1, &rs, nullptr, nullptr, &tv);
			char c;
			if (r > 0) {
				ssize_t n = read(fd[0], &c, 1);
				if (n == 1) { out += c; ++next; continue; }
				out += 'C'; ++next;        // the child died in this call
				restart = true;
				break;
			}
			kill(pid, SIGKILL);
			out += 'T'; ++next;
			restart = true;
			break;
		}
		(void)restart;
		close(fd[0]);
		kill(pid, SIGKILL);
		int st;
		waitpid(pid, &st, 0);
		alarm(rem);
	}
	return out;
}

static string opIncl(const vector<string>& a)
{
	TA A = buildTA(parseTA(a.at(0))), B = buildTA(parseTA(a.at(1)));
	string v;
	v += inclOne(A, B, false, false, false, false);
	v += inclOne(A, B, false, false, false, true);
	// the downward algorithms are exponential by design: each runs under its own budget ('T' = not judged)
	{
		vector<std::function<char()>> calls;
		for (int k = 0; k < 6; ++k) {
			bool rec = k >= 2, opt = k >= 4, sim = k & 1;
			calls.push_back([&A, &B, rec, opt, sim]() { return inclOne(A, B, true, rec, opt, sim); });
		}
		v += forkedSeq(calls, g_selTimeout);
	}
	// default overload (no parameters)
	char d;
	try { d = TA::CheckInclusion(A, B) ? '1' : '0'; } catch (const std::exception&) { d = 'E'; }
	v += d;
	return "v=" + v + " A=" + dumpTA(A) + " B=" + dumpTA(B);
}

// all 128 option words on one pair: '0'/'1' verdict, 'N' NotImplementedException, 'E' other exception
static string opInclAll(const vector<string>& a)
{
	TA A = buildTA(parseTA(a.at(0))), B = buildTA(parseTA(a.at(1)));
	string v;
	for (unsigned w = 0; w < 128; ++w) {
		InclParam ip;
		ip.SetAlgorithm((w & 1) ? InclParam::e_algorithm::congruences : InclParam::e_algorithm::antichains);
		ip.SetDirection((w & 2) ? InclParam::e_direction::downward : InclParam::e_direction::upward);
		ip.SetUseDownwardCacheImpl(w & 4);
		ip.SetUseRecursion(w & 8);
		ip.SetUseSimulation(w & 16);
		ip.SetSearchOrder((w & 32) ? InclParam::e_search_order::breadth : InclParam::e_search_order::depth);
		ip.SetEquivalence(w & 64);
		auto call = [&]() -> char {
			try {
				TA smaller(A), bigger(B);
				AutBase::StateDiscontBinaryRelation simRel;
				if (w & 16) {
					StateType states = AutBase::SanitizeAutsForInclusion(smaller, bigger);
					TA unionAut = TA::UnionDisjointStates(smaller, bigger);
					SimParam sp;
					sp.SetRelation((w & 2) ? SimParam::e_sim_relation::TA_DOWNWARD : SimParam::e_sim_relation::TA_UPWARD);
					sp.SetNumStates(states);
					simRel = unionAut.ComputeSimulation(sp);
					ip.SetSimulation(&simRel);
				}
				return TA::CheckInclusion(smaller, bigger, ip) ? '1' : '0';
			}
			catch (const NotImplementedException&) { return 'N'; }
			catch (const std::exception&) { return 'E'; }
		};
		char c = (w & 2) ? forked(call, g_selTimeout) : call();
		v += c;
	}
	return "w=" + v;
}


static string joinSortedEarly(vector<string> v)
{
	std::sort(v.begin(), v.end());
	std::ostringstream os;
	for (size_t i = 0; i < v.size(); ++i) { if (i) os << ","; os << v[i]; }
	if (v.empty()) os << "-";
	return os.str();
}

// the dictionary helpers of util.cc that the CLI uses to name result states (C02): dictionaries "q<k>" <-> k for the
// operand states plus one entry for a state that does not occur in the automaton (pruned)
static AutBase::StateDict dictOf(const TA& a)
{
	AutBase::StateDict d;
	for (size_t q : a.GetUsedStates()) d.insert(std::make_pair("q" + std::to_string(q), q));
	d.insert(std::make_pair("q777777", static_cast<size_t>(777777)));
	return d;
}

static string dumpNameDict(const AutBase::StateDict& d)
{
	vector<string> v;
	for (auto& p : d) v.push_back(p.first + ">" + std::to_string(p.second));
	return joinSortedEarly(v);
}

static string opUnion(const vector<string>& a, bool pre)
{
	TA A = buildTA(parseTA(a.at(0))), B = buildTA(parseTA(a.at(1)));
	AutBase::StateToStateMap ml, mr;
	if (pre) { ml = parseMap(a.at(2)); mr = parseMap(a.at(3)); }
	TA U = TA::Union(A, B, &ml, &mr);
	TA U2 = TA::Union(A, B);   // maps absent
	string names = dumpNameDict(Util::CreateUnionStringToStateMap(dictOf(A), dictOf(B), &ml, &mr));
	return "U=" + dumpTA(U) + " ml=" + dumpMap(ml) + " mr=" + dumpMap(mr) + " names=" + names + " U2=" + dumpTA(U2) +
		" A=" + dumpTA(A) + " B=" + dumpTA(B);
}

static string opUnionDisj(const vector<string>& a)
{
	TA A = buildTA(parseTA(a.at(0))), B = buildTA(parseTA(a.at(1)));
	TA U = TA::UnionDisjointStates(A, B);
	return "U=" + dumpTA(U) + " A=" + dumpTA(A) + " B=" + dumpTA(B);
}

static string opIsect(const vector<string>& a, bool bu)
{
	TA A = buildTA(parseTA(a.at(0))), B = buildTA(parseTA(a.at(1)));
	AutBase::ProductTranslMap m;
	TA P = bu ? TA::IntersectionBU(A, B, &m) : TA::Intersection(A, B, &m);
	TA P2 = bu ? TA::IntersectionBU(A, B) : TA::Intersection(A, B);
	string names = dumpNameDict(Util::CreateProductStringToStateMap(dictOf(A), dictOf(B), m));
	return "P=" + dumpTA(P) + " m=" + dumpPairMap(m) + " names=" + names + " P2=" + dumpTA(P2) + " A=" + dumpTA(A) + " B=" + dumpTA(B);
}

static AutBase::ProductTranslMap parsePairMapTok(const string& tok)
{
	AutBase::ProductTranslMap m;
	if (tok == "-") return m;
	for (const string& e : split(tok, ',')) {
		size_t g = e.find('>'), d = e.find('.');
		m[std::make_pair(toN(e.substr(0, d)), toN(e.substr(d + 1, g - d - 1)))] = toN(e.substr(g + 1));
	}
	return m;
}

// mapsx alias <A> <B> <m0>        : Union(A, B, &m, &m) – ONE map object for both translators
// mapsx td|bu <A> <B> <pm0>       : Intersection / IntersectionBU with a PRE-FILLED product map
// (outside the documented contracts – the maps of Union are two dictionaries, the product map is an out-parameter; the case
//  kind compares the library with the models of Vata/UnionIsectMaps.lean, it judges no property)
static string opMapsX(const vector<string>& a)
{
	TA A = buildTA(parseTA(a.at(1))), B = buildTA(parseTA(a.at(2)));
	if (a.at(0) == "alias") {
		AutBase::StateToStateMap m = parseMap(a.at(3));
		TA U = TA::Union(A, B, &m, &m);
		return "U=" + dumpTA(U) + " m=" + dumpMap(m) + " A=" + dumpTA(A) + " B=" + dumpTA(B);
	}
	AutBase::ProductTranslMap m = parsePairMapTok(a.at(3));
	TA P = a.at(0) == "bu" ? TA::IntersectionBU(A, B, &m) : TA::Intersection(A, B, &m);
	return "P=" + dumpTA(P) + " m=" + dumpPairMap(m) + " A=" + dumpTA(A) + " B=" + dumpTA(B);
}

static string opTrim(const vector<string>& a)
{
	TA A = buildTA(parseTA(a.at(0)));
	TA R1 = A.RemoveUnreachableStates();
	TA R2 = A.RemoveUselessStates();
	bool e = A.IsLangEmpty();
	return "unreach=" + dumpTA(R1) + " useless=" + dumpTA(R2) + " empty=" + (e ? "1" : "0") + " A=" + dumpTA(A);
}

static string opCand(const vector<string>& a)
{
	TA A = buildTA(parseTA(a.at(0)));
	TA R = A.GetCandidateTree();
	return "R=" + dumpTA(R) + " A=" + dumpTA(A);
}

static string opReduce(const vector<string>& a)
{
	TA A = buildTA(parseTA(a.at(0)));
	TA R = A.Reduce();
	return "R=" + dumpTA(R) + " A=" + dumpTA(A);
}

static string dumpRel(const AutBase::StateDiscontBinaryRelation& rel, const std::set<size_t>& states)
{
	std::ostringstream os;
	bool first = true;
	for (size_t q : states) for (size_t r : states) {
		if (rel.get(q, r)) { if (!first) os << ","; os << q << "." << r; first = false; }
	}
	if (first) os << "-";
	return os.str();
}

static std::set<size_t> statesOf(const TAT& t)
{
	std::set<size_t> s;
	for (const RuleT& r : t.rules) { s.insert(r.parent); for (size_t k : r.kids) s.insert(k); }
	for (size_t f : t.finals) s.insert(f);
	return s;
}

// simdown|simup <A> <n> : A numbered 0..n-1
static string opSim(const vector<string>& a, bool up)
{
	TAT t = parseTA(a.at(0));
	size_t n = toN(a.at(1));
	TA A = buildTA(t);
	std::set<size_t> used;
	for (size_t q : A.GetUsedStates()) used.insert(q);
	SimParam sp;
	sp.SetRelation(up ? SimParam::e_sim_relation::TA_UPWARD : SimParam::e_sim_relation::TA_DOWNWARD);
	sp.SetNumStates(n);
	string out = "rel=" + dumpRel(A.ComputeSimulation(sp), used);
	return out + " A=" + dumpTA(A);
}

// compl <A> <alphabet = rank,rank,...> : symbol i has rank alphabet[i]
static string opCompl(const vector<string>& a)
{
	TAT t = parseTA(a.at(0));
	vector<size_t> ranks;
	if (a.at(1) != "-") for (const string& s : split(a.at(1), ',')) ranks.push_back(toN(s));
	TA::AlphabetType alph(new TA::OnTheFlyAlphabet);
	{
		auto transl = alph->GetSymbolTransl();
		for (size_t i = 0; i < ranks.size(); ++i) {
			size_t code = (*transl)(TA::StringRank("s" + std::to_string(i), ranks[i]));
			if (code != i) throw std::runtime_error("alphabet numbering");
		}
	}
	TA A;
	A.SetAlphabet(alph);
	for (const RuleT& r : t.rules) A.AddTransition(r.kids, r.sym, r.parent);
	for (size_t f : t.finals) A.SetStateFinal(f);
	TA C = A.Complement();
	string out = "C=" + dumpTA(C);
	// the alphabet GROWS (another automaton registers a new nullary symbol in the same alphabet object) and the same automaton is
	// complemented again in the same process: the complement is now over the larger alphabet
	{
		auto transl = alph->GetSymbolTransl();
		size_t code = (*transl)(TA::StringRank("s" + std::to_string(ranks.size()), 0));
		if (code != ranks.size()) throw std::runtime_error("alphabet numbering (extension)");
	}
	TA C2 = A.Complement();
	return out + " C2=" + dumpTA(C2) + " A=" + dumpTA(A);
}

struct MapReindex : public AbstractReindexF
{
	std::map<size_t, size_t> m;
	// states without an entry are mapped to themselves (the model's `lookupFn` does the same)
	virtual StateType operator[](const StateType& s) override { auto it = m.find(s); return it == m.end() ? s : it->second; }
	virtual StateType at(const StateType& s) const override { auto it = m.find(s); return it == m.end() ? s : it->second; }
};

struct MapSym : public TA::AbstractSymbolTranslateF
{
	std::map<size_t, size_t> m;
	virtual TA::SymbolType operator()(const TA::SymbolType& s) override { auto it = m.find(s); return it == m.end() ? s : it->second; }
};

// rename <A> <statemap> <symmap> <D>
static string opRename(const vector<string>& a)
{
	TAT t = parseTA(a.at(0));
	TA A = buildTA(t);
	AutBase::StateToStateMap sm = parseMap(a.at(1));
	AutBase::StateToStateMap ym = parseMap(a.at(2));
	TA D = buildTA(parseTA(a.at(3)));
	string out;
	{	// functor version
		MapReindex f; for (auto& p : sm) f.m[p.first] = p.second;
		TA R = A.ReindexStates(f);
		out += "fun=" + dumpTA(R);
		TA R2 = A.ReindexStates(f, false);
		out += " funnf=" + dumpTA(R2);
		TA dst(D);
		A.ReindexStates(dst, f);
		out += " dst=" + dumpTA(dst) + " D=" + dumpTA(D);
	}
	{	// weak translator pre-filled with the map (total on used states)
		AutBase::StateToStateMap m2(sm);
		size_t cnt = 1000;
		AutBase::StateToStateTranslWeak tw(m2, [&cnt](const StateType&){ return cnt++; });
		TA R = A.ReindexStates(tw);
		out += " weak=" + dumpTA(R);
	}
	{	// weak translator, empty map: fresh dense numbers; report the map
		AutBase::StateToStateMap m3;
		size_t cnt = 0;
		AutBase::StateToStateTranslWeak tw(m3, [&cnt](const StateType&){ return cnt++; });
		TA R = A.ReindexStates(tw);
		out += " fresh=" + dumpTA(R) + " freshmap=" + dumpMap(m3);
	}
	{
		TA R = A.CollapseStates(sm);
		out += " coll=" + dumpTA(R);
	}
	{
		MapSym g; for (auto& p : ym) g.m[p.first] = p.second;
		TA R = A.TranslateSymbols(g);
		out += " sym=" + dumpTA(R);
	}
	{	// a functor that THROWS on one state (the model: a strict translator over the map without that key): does the call
		// throw, and for which key?  The destination is not touched afterwards (its state after an exception is an
		// observation of DESIGN.md §8, not part of the property)
		struct ThrowReindex : public AbstractReindexF {
			std::map<size_t, size_t> m; size_t miss;
			StateType go(const StateType& s) const { if (s == miss) throw std::out_of_range(std::to_string(s)); auto it = m.find(s); return it == m.end() ? s : it->second; }
			virtual StateType operator[](const StateType& s) override { return go(s); }
			virtual StateType at(const StateType& s) const override { return go(s); }
		};
		if (a.size() > 4) {
			ThrowReindex f; for (auto& p : sm) f.m[p.first] = p.second; f.miss = toN(a.at(4));
			string thrown = "-";
			try { TA R = A.ReindexStates(f); (void)R; }
			catch (const std::out_of_range& e) { thrown = e.what(); }
			out += " thrown=" + thrown;
		}
	}
	return out + " A=" + dumpTA(A);
}


static InclParam mkParam(unsigned w)
{
	InclParam ip;
	ip.SetAlgorithm((w & 1) ? InclParam::e_algorithm::congruences : InclParam::e_algorithm::antichains);
	ip.SetDirection((w & 2) ? InclParam::e_direction::downward : InclParam::e_direction::upward);
	ip.SetUseDownwardCacheImpl(w & 4);
	ip.SetUseRecursion(w & 8);
	ip.SetUseSimulation(w & 16);
	ip.SetSearchOrder((w & 32) ? InclParam::e_search_order::breadth : InclParam::e_search_order::depth);
	ip.SetEquivalence(w & 64);
	return ip;
}


// ---------------------------------------------------------------- word automata (histories)
using FA = ExplicitFiniteAut;

struct CaptureSerializer : public Serialization::AbstrSerializer
{
	AutDescription last;
	virtual std::string Serialize(const AutDescription& desc) override { last = desc; return ""; }
};

static const int NFA_SYMS = 8;
#ifndef VH_NO_NFAS
static void nfasRegisterAlphabet();
#else
static void nfasRegisterAlphabet() {}
#endif
static void initFaAlphabet()
{
	static bool done = false;
	if (done) return;
	FA tmp;
	auto transl = tmp.GetAlphabet()->GetSymbolTransl();
	for (int i = 0; i < NFA_SYMS; ++i) {
		size_t c = (*transl)("a" + std::to_string(i));
		if (c != static_cast<size_t>(i)) throw std::runtime_error("NFA alphabet numbering");
	}
	nfasRegisterAlphabet();       // x0..x3 and x of the start-symbol histories (kind nfas) right behind a0..a7
	done = true;
}

struct NfaT { vector<vector<size_t>> trans; vector<size_t> starts, finals; };

static NfaT parseNfa(const string& tok)
{
	NfaT n;
	vector<string> parts;
	{	// split keeping empty fields
		string cur;
		for (char c : tok) { if (c == '|') { parts.push_back(cur); cur.clear(); } else cur.push_back(c); }
		parts.push_back(cur);
	}
	if (parts.size() != 3) throw std::invalid_argument("NFA token");
	for (const string& e : split(parts[0], ';')) {
		vector<string> f = split(e, ',');
		n.trans.push_back({toN(f.at(0)), toN(f.at(1)), toN(f.at(2))});
	}
	for (const string& q : split(parts[1], ',')) n.starts.push_back(toN(q));
	for (const string& q : split(parts[2], ',')) n.finals.push_back(toN(q));
	return n;
}

static FA buildNfa(const NfaT& n)
{
	initFaAlphabet();
	FA a;
	for (auto& t : n.trans) a.AddTransition(t[0], t[1], t[2]);
	for (size_t q : n.starts) a.SetStateStart(q, 0);
	for (size_t q : n.finals) a.SetStateFinal(q);
	return a;
}

// canonical text of an NFA read through its only observer, the dump
// dump -> Timbuk text (real serializer) -> load into a fresh automaton of the same encoding (real parser, fresh dictionary) ->
// dump by names: the description the reloaded automaton shows under the original state names (C13)
template <class Aut>
static Util::AutDescription reloadedDesc(const Aut& a)
{
	CaptureSerializer cs1, cs2;
	a.DumpToString(cs1);
	Util::AutDescription d = cs1.last;
	for (auto& t : d.transitions) d.symbols.insert(std::make_pair(t.second, static_cast<int>(t.first.size())));
	Serialization::TimbukSerializer ser;
	string text = ser.Serialize(d);
	Parsing::TimbukParser parser;
	Aut b;
	AutBase::StateDict dict;
	b.LoadFromString(parser, text, dict);
	b.DumpToString(cs2, dict);
	return cs2.last;
}

static string fmtNfaDesc(const Util::AutDescription& desc);
static string dumpNfa(const FA& a)
{
	CaptureSerializer cs;
	a.DumpToString(cs);
	return fmtNfaDesc(cs.last);
}

static string fmtNfaDesc(const Util::AutDescription& desc)
{
	struct { const Util::AutDescription& last; } cs = {desc};
	vector<string> tr;
	std::set<size_t> starts;
	for (auto& t : cs.last.transitions) {
		if (t.first.empty()) { starts.insert(toN(t.third)); continue; }
		if (t.first.size() != 1 || t.second.size() < 2 || t.second[0] != 'a') throw std::runtime_error("unexpected NFA dump");
		tr.push_back(t.first[0] + "," + t.second.substr(1) + "," + t.third);
	}
	std::sort(tr.begin(), tr.end(), [](const string& x, const string& y) {
		return split(x, ',') < split(y, ',') ; });
	std::ostringstream os;
	for (size_t i = 0; i < tr.size(); ++i) { if (i) os << ";"; os << tr[i]; }
	os << "|";
	bool first = true;
	for (size_t q : starts) { if (!first) os << ","; os << q; first = false; }
	os << "|";
	std::set<size_t> fs;
	for (auto& f : cs.last.finalStates) fs.insert(toN(f));
	first = true;
	for (size_t q : fs) { if (!first) os << ","; os << q; first = false; }
	return os.str();
}

static char faInclOne(const FA& a, const FA& b, int alg)
{
	try {
		if (alg == 3) return FA::CheckInclusion(a, b) ? '1' : '0';
		InclParam ip;
		ip.SetAlgorithm(alg == 0 ? InclParam::e_algorithm::antichains : InclParam::e_algorithm::congruences);
		ip.SetSearchOrder(alg == 2 ? InclParam::e_search_order::breadth : InclParam::e_search_order::depth);
		ip.SetUseSimulation(false);
		return FA::CheckInclusion(a, b, ip) ? '1' : '0';
	}
	catch (const NotImplementedException&) { return 'N'; }
	catch (const std::exception&) { return 'E'; }
}

// nfah <step> <step> ... ; after every step every live entry is dumped
static string opNfaHist(const vector<string>& steps)
{
	initFaAlphabet();
	vector<std::unique_ptr<FA>> pool;
	std::ostringstream out;
	for (size_t k = 0; k < steps.size(); ++k) {
		vector<string> f = split(steps[k], ':');
		const string& op = f.at(0);
		auto ent = [&](size_t i) -> FA& { size_t ix = toN(f.at(i)); if (ix >= pool.size() || !pool[ix]) throw std::invalid_argument("dead entry"); return *pool[ix]; };
		if (op == "def") { pool.emplace_back(new FA(buildNfa(parseNfa(steps[k].substr(4))))); }
		else if (op == "copy") { pool.emplace_back(new FA(ent(1))); }
		else if (op == "union") {
			AutBase::StateToStateMap ml, mr;
			pool.emplace_back(new FA(FA::Union(ent(1), ent(2), &ml, &mr)));
			out << " ml" << k << "=" << dumpMap(ml) << " mr" << k << "=" << dumpMap(mr);
		}
		else if (op == "unionpre") {
			// caller-supplied, pre-filled translation maps (injective, disjoint images)
			AutBase::StateToStateMap ml = parseMap(f.at(3)), mr = parseMap(f.at(4));
			pool.emplace_back(new FA(FA::Union(ent(1), ent(2), &ml, &mr)));
			out << " ml" << k << "=" << dumpMap(ml) << " mr" << k << "=" << dumpMap(mr);
		}
		else if (op == "uniondisj") { pool.emplace_back(new FA(FA::UnionDisjointStates(ent(1), ent(2)))); }
		else if (op == "isect") {
			AutBase::ProductTranslMap m;
			pool.emplace_back(new FA(FA::Intersection(ent(1), ent(2), &m)));
			out << " m" << k << "=" << dumpPairMap(m);
		}
		else if (op == "rev") { pool.emplace_back(new FA(ent(1).Reverse())); }
		else if (op == "unreach") { pool.emplace_back(new FA(ent(1).RemoveUnreachableStates())); }
		else if (op == "useless") { pool.emplace_back(new FA(ent(1).RemoveUselessStates())); }
		else if (op == "cand") { pool.emplace_back(new FA(ent(1).GetCandidateTree())); }
		else if (op == "incl") {
			FA& a = ent(1); FA& b = ent(2);
			vector<std::function<char()>> calls;
			for (int alg = 0; alg < 4; ++alg) calls.push_back([&a, &b, alg]() { return faInclOne(a, b, alg); });
			out << " v" << k << "=" << forkedSeq(calls, 5);
		}
		else if (op == "inclsim") {
			// inclsim:i:j:rel – the two selections that take a simulation (ANTICHAINS_SIM = word 16 on (a, b); CONGR_DEPTH_SIM = word 17 on
			// (a ⊎ b, b), the call `cli/operations.hh` makes); operands state-disjoint, rel = pairs p.q (q simulates p) over their states
			FA& a = ent(1); FA& b = ent(2);
			vector<std::pair<size_t, size_t>> ps;
			size_t n = 0;
			if (f.at(3) != "-") for (const string& e : split(f[3], ',')) {
				size_t d = e.find('.');
				ps.push_back(std::make_pair(toN(e.substr(0, d)), toN(e.substr(d + 1))));
				n = std::max(n, std::max(ps.back().first, ps.back().second) + 1);
			}
			VATA::Util::BinaryRelation br(n, false);
			for (auto& pq : ps) br.set(pq.first, pq.second, true);
			AutBase::StateDiscontBinaryRelation::DictType dict;
			for (size_t q = 0; q < n; ++q) dict.insert(std::make_pair(q, q));
			AutBase::StateDiscontBinaryRelation sim(br, dict);
			vector<std::function<char()>> calls;
			calls.push_back([&]() -> char {
				try { InclParam ip = mkParam(16); ip.SetSimulation(&sim); return FA::CheckInclusion(a, b, ip) ? '1' : '0'; }
				catch (const NotImplementedException&) { return 'N'; } catch (const std::exception&) { return 'E'; } });
			calls.push_back([&]() -> char {
				try { InclParam ip = mkParam(17); ip.SetSimulation(&sim); FA u = FA::UnionDisjointStates(a, b); return FA::CheckInclusion(u, b, ip) ? '1' : '0'; }
				catch (const NotImplementedException&) { return 'N'; } catch (const std::exception&) { return 'E'; } });
			out << " vs" << k << "=" << forkedSeq(calls, 5);
		}
		else if (op == "inclall") {
			// all 128 option words; words with the simulation bit are not driven ('-': the library cannot compute an NFA simulation)
			FA& a = ent(1); FA& b = ent(2);
			string v;
			for (unsigned w = 0; w < 128; ++w) {
				if (w & 16) { v += '-'; continue; }
				v += forked([&]() -> char {
					try { return FA::CheckInclusion(a, b, mkParam(w)) ? '1' : '0'; }
					catch (const NotImplementedException&) { return 'N'; }
					catch (const std::exception&) { return 'E'; }
				}, 5);
			}
			out << " w" << k << "=" << v;
		}
		else if (op == "add") { vector<string> t = split(f.at(2), ','); ent(1).AddTransition(toN(t.at(0)), toN(t.at(1)), toN(t.at(2))); }
		else if (op == "final") { ent(1).SetStateFinal(toN(f.at(2))); }
		else if (op == "start") { ent(1).SetStateStart(toN(f.at(2)), 0); }
		else if (op == "assign") { ent(1) = ent(2); }
		else if (op == "move") { pool.emplace_back(new FA(std::move(ent(1)))); pool[toN(f.at(1))].reset(); }
		else if (op == "kill") { pool[toN(f.at(1))].reset(); }
		else if (op == "rt") {
			// dump -> text -> load -> dump by names, and the start / final states read through the API (not the dump)
			FA& a = ent(1);
			out << " rt" << k << "=" << fmtNfaDesc(reloadedDesc(a));
			std::set<size_t> ss(a.GetStartStates().begin(), a.GetStartStates().end());
			out << " ss" << k << "=";
			bool first = true;
			for (size_t q : ss) { if (!first) out << ","; out << q; first = false; }
			if (ss.empty()) out << "-";
		}
		else throw std::invalid_argument("unknown step " + op);
		out << " S" << k;
		for (size_t i = 0; i < pool.size(); ++i) if (pool[i]) out << " " << k << "." << i << "=" << dumpNfa(*pool[i]);
	}
	return out.str().substr(1);
}



// ---------------------------------------------------------------- explicit tree automata: histories (C11, C12)
static string ruleStr(const TA::Transition& tr)
{
	std::ostringstream os;
	os << tr.GetSymbol() << ":";
	for (size_t i = 0; i < tr.GetChildren().size(); ++i) { if (i) os << ","; os << tr.GetChildren()[i]; }
	os << ">" << tr.GetParent();
	return os.str();
}

static string joinSorted(vector<string> v, const char* sep)
{
	std::sort(v.begin(), v.end());
	std::ostringstream os;
	for (size_t i = 0; i < v.size(); ++i) { if (i) os << sep; os << v[i]; }
	if (v.empty()) os << "-";
	return os.str();
}

static RuleT parseRuleTok(const string& r)
{
	size_t c = r.find(':'), g = r.find('>');
	RuleT rt;
	rt.sym = toN(r.substr(0, c));
	for (const string& k : split(r.substr(c + 1, g - c - 1), ',')) rt.kids.push_back(toN(k));
	rt.parent = toN(r.substr(g + 1));
	return rt;
}

// all read-only views of one automaton through the public wrappers
static string viewsTA(const TA& a, const string& tag, bool withTe = true)
{
	std::ostringstream os;
	vector<string> acc;
	{
		auto at = a.GetAcceptTrans();
		for (auto it = at.begin(); it != at.end(); ++it) acc.push_back(ruleStr(*it));
	}
	os << " acc" << tag << "=" << joinSorted(acc, ";");
	std::set<size_t> used;
	for (size_t q : a.GetUsedStates()) used.insert(q);
	os << " used" << tag << "=";
	{ bool f = true; for (size_t q : used) { if (!f) os << ","; os << q; f = false; } if (f) os << "-"; }
	// AreTransitionsEmpty() is non-const and UNSHARES the rule table (uniqueClusterMap): histories that are about sharing
	// (C11) switch it off with the leading step `opt!note` and call it only through explicit `te!i` steps
	if (withTe) os << " te" << tag << "=" << (const_cast<TA&>(a).AreTransitionsEmpty() ? 1 : 0);
	else os << " te" << tag << "=-";
	// indexing by every used state and by two states that may not occur
	std::set<size_t> probe(used);
	probe.insert(0); probe.insert(97);
	os << " down" << tag << "=";
	bool firstq = true;
	for (size_t q : probe) {
		vector<string> rs;
		auto d = a[q];
		for (auto it = d.begin(); it != d.end(); ++it) rs.push_back(ruleStr(*it));
		bool e = d.empty();
		if (!firstq) os << "/";
		firstq = false;
		os << q << "@" << (e ? 1 : 0) << "@" << joinSorted(rs, ";");
	}
	// ContainsTransition on every rule the iteration yields
	bool allc = true;
	for (const TA::Transition& tr : a) if (!a.ContainsTransition(tr)) allc = false;
	os << " selfc" << tag << "=" << (allc ? 1 : 0);
	return os.str();
}

static string timbukOf(const TAT& t);
static size_t numAfter(const string& s, char c);
// tah <step> ... ; after every step every live entry is dumped; views of the touched entry
static string opTaHist(const vector<string>& steps)
{
	vector<std::unique_ptr<TA>> pool;
	std::ostringstream out;
	bool withTe = true;
	for (size_t k = 0; k < steps.size(); ++k) {
		vector<string> f = split(steps[k], '!');
		const string& op = f.at(0);
		auto ix = [&](size_t i) -> size_t { size_t x = toN(f.at(i)); if (x >= pool.size() || !pool[x]) throw std::invalid_argument("dead entry"); return x; };
		auto ent = [&](size_t i) -> TA& { return *pool[ix(i)]; };
		size_t touched = static_cast<size_t>(-1);
		if (op == "opt") { if (f.at(1) == "note") withTe = false; }
		else if (op == "te") { out << " tev" << k << "=" << (ent(1).AreTransitionsEmpty() ? 1 : 0); }
		else if (op == "new") { pool.emplace_back(new TA()); touched = pool.size() - 1; }
		else if (op == "def") { pool.emplace_back(new TA(buildTA(parseTA(f.at(1))))); touched = pool.size() - 1; }
		else if (op == "copy") { pool.emplace_back(new TA(ent(1))); touched = pool.size() - 1; }
		else if (op == "copynt") { pool.emplace_back(new TA(ent(1), false, true)); touched = pool.size() - 1; }
		else if (op == "copynf") { pool.emplace_back(new TA(ent(1), true, false)); touched = pool.size() - 1; }
		else if (op == "assign") { ent(1) = ent(2); touched = ix(1); }
		else if (op == "selfassign") { TA& a = ent(1); a = *&a; touched = ix(1); }
		else if (op == "move") { size_t i = ix(1); pool.emplace_back(new TA(std::move(*pool[i]))); pool[i].reset(); touched = pool.size() - 1; }
		else if (op == "moveassign") { size_t i = ix(1), j = ix(2); if (i != j) { *pool[i] = std::move(*pool[j]); pool[j].reset(); } touched = i; }
		else if (op == "kill") { pool[ix(1)].reset(); }
		else if (op == "add") { RuleT r = parseRuleTok(f.at(2)); ent(1).AddTransition(r.kids, r.sym, r.parent); touched = ix(1); }
		else if (op == "addt") { RuleT r = parseRuleTok(f.at(2)); ent(1).AddTransition(TA::Transition(r.parent, r.sym, r.kids)); touched = ix(1); }
		else if (op == "final") { ent(1).SetStateFinal(toN(f.at(2))); touched = ix(1); }
		else if (op == "finals") { std::set<StateType> qs; for (const string& q : split(f.at(2), ',')) qs.insert(toN(q)); ent(1).SetStatesFinal(qs); touched = ix(1); }
		else if (op == "erasefinal") { ent(1).EraseFinalStates(); touched = ix(1); }
		else if (op == "clear") { ent(1).Clear(); touched = ix(1); }
		else if (op == "loadinto") {
			// LoadFromString into an EXISTING automaton (which may share its rule table): the loaded states get numbers from a
			// fresh dictionary, the symbols from the automaton's alphabet – both translations are printed for the driver
			TAT t = parseTA(f.at(2));
			Parsing::TimbukParser parser;
			AutBase::StateDict d;
			TA& a = ent(1);
			a.LoadFromString(parser, timbukOf(t), d);
			out << " ld" << k << "=";
			{ bool first = true; for (auto& p : d) { if (!first) out << ","; out << numAfter(p.first, 'q') << ">" << p.second; first = false; } if (first) out << "-"; }
			std::map<size_t, size_t> rank;
			for (const RuleT& r : t.rules) rank[r.sym] = r.kids.size();
			auto transl = a.GetAlphabet()->GetSymbolTransl();
			out << " sy" << k << "=";
			{ bool first = true; for (auto& p : rank) { if (!first) out << ","; out << p.first << ">" << (*transl)(TA::StringRank("s" + std::to_string(p.first), p.second)); first = false; } if (first) out << "-"; }
			touched = ix(1);
		}
		else if (op == "unreach") { pool.emplace_back(new TA(ent(1).RemoveUnreachableStates())); touched = pool.size() - 1; }
		else if (op == "useless") { pool.emplace_back(new TA(ent(1).RemoveUselessStates())); touched = pool.size() - 1; }
		else if (op == "cand") { pool.emplace_back(new TA(ent(1).GetCandidateTree())); touched = pool.size() - 1; }
		else if (op == "reduce") { pool.emplace_back(new TA(ent(1).Reduce())); touched = pool.size() - 1; }
		else if (op == "union") { pool.emplace_back(new TA(TA::Union(ent(1), ent(2)))); touched = pool.size() - 1; }
		else if (op == "uniondisj") { pool.emplace_back(new TA(TA::UnionDisjointStates(ent(1), ent(2)))); touched = pool.size() - 1; }
		else if (op == "isect") { pool.emplace_back(new TA(TA::Intersection(ent(1), ent(2)))); touched = pool.size() - 1; }
		else if (op == "isectbu") { pool.emplace_back(new TA(TA::IntersectionBU(ent(1), ent(2)))); touched = pool.size() - 1; }
		else if (op == "reindex") {
			MapReindex fn; for (auto& p : parseMap(f.at(2))) fn.m[p.first] = p.second;
			pool.emplace_back(new TA(ent(1).ReindexStates(fn))); touched = pool.size() - 1;
		}
		else if (op == "reindexinto") {
			MapReindex fn; for (auto& p : parseMap(f.at(3))) fn.m[p.first] = p.second;
			ent(1).ReindexStates(ent(2), fn); touched = ix(2);
		}
		else if (op == "probe") {
			// ContainsTransition on given rules (both overloads), IsStateFinal on given states
			TA& a = ent(1);
			string bits;
			for (const string& r : split(f.at(2), ';')) {
				RuleT rt = parseRuleTok(r);
				bool b1 = a.ContainsTransition(rt.kids, rt.sym, rt.parent);
				bool b2 = a.ContainsTransition(TA::Transition(rt.parent, rt.sym, rt.kids));
				bits += (b1 == b2) ? (b1 ? '1' : '0') : 'X';
			}
			out << " cont" << k << "=" << bits;
			string fb;
			for (const string& q : split(f.at(3), ',')) fb += a.IsStateFinal(toN(q)) ? '1' : '0';
			out << " isf" << k << "=" << (fb.empty() ? "-" : fb);
			touched = ix(1);
		}
		else throw std::invalid_argument("unknown step " + op);
		out << " S" << k;
		for (size_t i = 0; i < pool.size(); ++i) if (pool[i]) out << " " << k << "." << i << "=" << dumpTA(*pool[i]);
		if (touched != static_cast<size_t>(-1) && pool[touched]) out << " t" << k << "=" << touched << viewsTA(*pool[touched], std::to_string(k), withTe);
	}
	return out.str().substr(1);
}


// ---------------------------------------------------------------- MTBDD histories (C17, C18)
using MT = MTBDDPkg::OndriksMTBDD<int>;
static const size_t MT_NV = 4;       // variables used by generated cubes; values are read on all 2^MT_NQ assignments
static const size_t MT_NQ = 6;       // (renaming / extension may shift variables upwards)

static int mtOp1(int op, int x) { switch (op) { case 0: return x * x % 7; case 1: return 9 - x; case 2: return x % 2; default: return 3; } }
static int mtOp2(int op, int x, int y) { switch (op) { case 0: return x + y; case 1: return x * y % 11; case 2: return std::max(x, y); case 3: return std::min(x, y); default: return x; } }
static int mtOp3(int op, int x, int y, int z) { switch (op) { case 0: return (x % 2 == 0) ? y : z; case 1: return x + 2 * y + 3 * z; case 2: return std::max(x, std::min(y, z)); default: return y; } }

GCC_DIAG_OFF(effc++)
struct MtF1 : public MTBDDPkg::Apply1Functor<MtF1, int, int> { int op; explicit MtF1(int o) : op(o) {} int ApplyOperation(const int& x) { return mtOp1(op, x); } };
struct MtF2 : public MTBDDPkg::Apply2Functor<MtF2, int, int, int> { int op; explicit MtF2(int o) : op(o) {} int ApplyOperation(const int& x, const int& y) { return mtOp2(op, x, y); } };
struct MtF3 : public MTBDDPkg::Apply3Functor<MtF3, int, int, int, int> { int op; explicit MtF3(int o) : op(o) {} int ApplyOperation(const int& x, const int& y, const int& z) { return mtOp3(op, x, y, z); } };
GCC_DIAG_ON(effc++)

static string mtSizes()
{
#ifdef VATA_VERIF
	return std::to_string(MT::VerifLeafCacheSize()) + "," + std::to_string(MT::VerifInternalCacheSize());
#else
	return "?,?";
#endif
}

static string opMtHist(const vector<string>& steps)
{
	std::ostringstream out;
	out << "base=" << mtSizes();
	{
		vector<std::unique_ptr<MT>> pool;
		// the apply functors are OBJECTS with a per-call memo table; user code (and the BDD automata) keep one functor and run it
		// over many diagrams, so every history keeps one functor per leaf operation alive across its steps
		std::map<int, std::unique_ptr<MtF1>> keep1;
		std::map<int, std::unique_ptr<MtF2>> keep2;
		std::map<int, std::unique_ptr<MtF3>> keep3;
		auto fn1 = [&](int o) -> MtF1& { auto& p = keep1[o]; if (!p) p.reset(new MtF1(o)); return *p; };
		auto fn2 = [&](int o) -> MtF2& { auto& p = keep2[o]; if (!p) p.reset(new MtF2(o)); return *p; };
		auto fn3 = [&](int o) -> MtF3& { auto& p = keep3[o]; if (!p) p.reset(new MtF3(o)); return *p; };
		for (size_t k = 0; k < steps.size(); ++k) {
			vector<string> f = split(steps[k], '!');
			const string& op = f.at(0);
			auto ix = [&](size_t i) -> size_t { size_t x = toN(f.at(i)); if (x >= pool.size() || !pool[x]) throw std::invalid_argument("dead entry"); return x; };
			auto ent = [&](size_t i) -> MT& { return *pool[ix(i)]; };
			if (op == "con") { pool.emplace_back(new MT(SymbolicVarAsgn(f.at(1)), static_cast<int>(toN(f.at(2))), static_cast<int>(toN(f.at(3))))); }
			else if (op == "leaf") { pool.emplace_back(new MT(static_cast<int>(toN(f.at(1))))); }
			else if (op == "copy") { pool.emplace_back(new MT(ent(1))); }
			else if (op == "assign") { ent(1) = ent(2); }
			else if (op == "selfassign") { MT& a = ent(1); a = *&a; }
			else if (op == "kill") { pool[ix(1)].reset(); }
			else if (op == "burst") {
				// n simultaneous copies of one diagram, destroyed again (the reference counters must hold that many)
				size_t n = toN(f.at(2));
				vector<MT> tmp;
				tmp.reserve(n);
				for (size_t c = 0; c < n; ++c) tmp.push_back(ent(1));
			}
			else if (op == "ap1") { MtF1& fn = fn1(static_cast<int>(toN(f.at(2)))); pool.emplace_back(new MT(fn(ent(1)))); }
			else if (op == "ap2") { MtF2& fn = fn2(static_cast<int>(toN(f.at(3)))); pool.emplace_back(new MT(fn(ent(1), ent(2)))); }
			else if (op == "ap2to") { MtF2& fn = fn2(static_cast<int>(toN(f.at(3)))); ent(1) = fn(ent(1), ent(2)); }
			else if (op == "ap3") { MtF3& fn = fn3(static_cast<int>(toN(f.at(4)))); pool.emplace_back(new MT(fn(ent(1), ent(2), ent(3)))); }
			else if (op == "proj") {
				size_t mask = toN(f.at(2));
				MtF2 fn(static_cast<int>(toN(f.at(3))));
				pool.emplace_back(new MT(ent(1).Project([mask](size_t var) { return ((mask >> var) & 1) != 0; }, fn)));
			}
			else if (op == "ren") { size_t off = toN(f.at(2)); pool.emplace_back(new MT(ent(1).Rename([off](size_t var) { return var + off; }))); }
			else if (op == "ext") { pool.emplace_back(new MT(ent(1).ExtendWith(SymbolicVarAsgn(f.at(2)), toN(f.at(3))))); }
			else if (op == "pre") { pool.emplace_back(new MT(ent(1).GetMtbddForPrefix(SymbolicVarAsgn(f.at(2)), toN(f.at(3))))); }
			else if (op == "paths") {
				vector<string> ps;
				for (auto& pr : ent(1).GetPaths()) ps.push_back(pr.first.ToString() + "=" + std::to_string(pr.second));
				out << " paths" << k << "=" << joinSorted(ps, ";");
			}
			else if (op == "getv") { out << " getv" << k << "=" << ent(1).GetValue(SymbolicVarAsgn(f.at(2))); }
			else throw std::invalid_argument("unknown step " + op);
			out << " S" << k << " sz" << k << "=" << mtSizes();
			// values of every live diagram on all total assignments; equality matrix
			vector<size_t> live;
			for (size_t i = 0; i < pool.size(); ++i) if (pool[i]) live.push_back(i);
			for (size_t i : live) {
				out << " " << k << "." << i << "=";
				for (size_t a = 0; a < (static_cast<size_t>(1) << MT_NQ); ++a) {
					if (a) out << ",";
					out << pool[i]->GetValue(SymbolicVarAsgn(MT_NQ, a));
				}
			}
			out << " eq" << k << "=";
			for (size_t i : live) for (size_t j : live) out << ((*pool[i] == *pool[j]) ? '1' : '0');
			if (live.empty()) out << "-";
		}
	}
	out << " end=" << mtSizes();
	return out.str();
}


// ---------------------------------------------------------------- BDD encodings (C07, C08)
using BU = BDDBottomUpTreeAut;
using TD = BDDTopDownTreeAut;

// Timbuk text of a TA token: symbols "s<k>" (rank = number of children), states "q<k>"
static string timbukOf(const TAT& t)
{
	std::map<size_t, size_t> rank;
	std::set<size_t> states;
	for (const RuleT& r : t.rules) {
		auto it = rank.find(r.sym);
		if (it != rank.end() && it->second != r.kids.size()) throw std::invalid_argument("symbol with two ranks");
		rank[r.sym] = r.kids.size();
		states.insert(r.parent);
		for (size_t k : r.kids) states.insert(k);
	}
	for (size_t f : t.finals) states.insert(f);
	std::ostringstream os;
	os << "Ops";
	for (auto& p : rank) os << " s" << p.first << ":" << p.second;
	os << "\nAutomaton anonymous\nStates";
	for (size_t q : states) os << " q" << q;
	os << "\nFinal States";
	for (size_t f : t.finals) os << " q" << f;
	os << "\nTransitions\n";
	for (const RuleT& r : t.rules) {
		os << "s" << r.sym;
		if (!r.kids.empty()) {
			os << "(";
			for (size_t i = 0; i < r.kids.size(); ++i) { if (i) os << ","; os << "q" << r.kids[i]; }
			os << ")";
		}
		os << " -> q" << r.parent << "\n";
	}
	return os.str();
}

template <class Aut>
static Aut loadBdd(const TAT& t, AutBase::StateDict& dict)
{
	Parsing::TimbukParser parser;
	Aut a;
	a.LoadFromString(parser, timbukOf(t), dict);
	return a;
}

static size_t numAfter(const string& s, char c)
{
	if (s.size() < 2 || s[0] != c) throw std::runtime_error("unexpected name in dump: " + s);
	return toN(s.substr(1));
}

// numeric dump of a BDD automaton (state names are numbers when no dictionary is given)
static string fmtBddDesc(const Util::AutDescription& desc);
template <class Aut>
static string dumpBdd(const Aut& a)
{
	CaptureSerializer cs;
	a.DumpToString(cs);
	return fmtBddDesc(cs.last);
}

static string fmtBddDesc(const Util::AutDescription& desc)
{
	struct { const Util::AutDescription& last; } cs = {desc};
	vector<string> rs;
	for (auto& t : cs.last.transitions) {
		std::ostringstream os;
		os << numAfter(t.second, 's') << ":";
		for (size_t i = 0; i < t.first.size(); ++i) { if (i) os << ","; os << toN(t.first[i]); }
		os << ">" << toN(t.third);
		rs.push_back(os.str());
	}
	std::sort(rs.begin(), rs.end());
	std::ostringstream os;
	for (size_t i = 0; i < rs.size(); ++i) { if (i) os << ";"; os << rs[i]; }
	os << "|";
	std::set<size_t> fs;
	for (auto& f : cs.last.finalStates) fs.insert(toN(f));
	bool first = true;
	for (size_t q : fs) { if (!first) os << ","; os << q; first = false; }
	return os.str();
}

template <class F>
static char guardedVerdict(F f)
{
	return forked([&]() -> char {
		try { return f() ? '1' : '0'; }
		catch (const NotImplementedException&) { return 'N'; }
		catch (const std::exception&) { return 'E'; }
	}, g_selTimeout);
}

// bddincl <A> <B> : every implemented selection of both encodings
template <class F>
static std::function<char()> verdictFn(F f)
{
	return [f]() -> char {
		try { return f() ? '1' : '0'; }
		catch (const NotImplementedException&) { return 'N'; }
		catch (const std::exception&) { return 'E'; }
	};
}

static string opBddIncl(const vector<string>& a)
{
	TAT ta = parseTA(a.at(0)), tb = parseTA(a.at(1));
	string v;
	// top-down on raw operands (each loaded with its own dictionary: overlapping numbers); bottom-up; top-down with the
	// simulation the bottom-up path computes for the sanitised operands – all in one child, each call under its own budget
	AutBase::StateDict d1, d2, d3, d4;
	TD At = loadBdd<TD>(ta, d1), Bt = loadBdd<TD>(tb, d2);
	BU A = loadBdd<BU>(ta, d3), B = loadBdd<BU>(tb, d4);
	vector<std::function<char()>> calls;
	calls.push_back(verdictFn([&]() { return TD::CheckInclusion(At, Bt, mkParam(2 | 8)); }));          // down rec
	calls.push_back(verdictFn([&]() { return TD::CheckInclusion(At, Bt, mkParam(2 | 8 | 4)); }));      // down rec opt
	calls.push_back([]() { return '-'; });                                                              // (no default overload)
	calls.push_back(verdictFn([&]() { return BU::CheckInclusion(A, B, mkParam(0)); }));                // up
	calls.push_back(verdictFn([&]() { return BU::CheckInclusion(A, B, mkParam(2 | 8 | 16)); }));       // down rec + sim
	calls.push_back(verdictFn([&]() { return BU::CheckInclusion(A, B); }));                            // default overload
	for (unsigned opt = 0; opt < 2; ++opt) {
		calls.push_back(verdictFn([&A, &B, opt]() {
			BU s(A), b(B);
			StateType states = AutBase::SanitizeAutsForInclusion(s, b);
			BU u = BU::UnionDisjointStates(s, b);
			SimParam sp;
			sp.SetRelation(SimParam::e_sim_relation::TA_DOWNWARD);
			sp.SetNumStates(states);
			AutBase::StateDiscontBinaryRelation sim = u.ComputeSimulation(sp);
			TD std_ = s.GetTopDownAut(), btd = b.GetTopDownAut();
			InclParam ip = mkParam(2 | 8 | 16 | (opt ? 4 : 0));
			ip.SetSimulation(&sim);
			return TD::CheckInclusion(std_, btd, ip);
		}));
	}
	v = forkedSeq(calls, g_selTimeout);
	return "v=" + v;
}

// bddinclall <A> <B> : all 128 option words on both encodings ('N' = NotImplementedException)
static string opBddInclAll(const vector<string>& a)
{
	TAT ta = parseTA(a.at(0)), tb = parseTA(a.at(1));
	AutBase::StateDict d1, d2, d3, d4;
	TD At = loadBdd<TD>(ta, d1), Bt = loadBdd<TD>(tb, d2);
	BU Ab = loadBdd<BU>(ta, d3), Bb = loadBdd<BU>(tb, d4);
	string vt, vb;
	for (unsigned w = 0; w < 128; ++w) {
		// a valid relation is attached whenever the simulation bit is set (the code dereferences it unchecked)
		auto withSim = [&](InclParam& ip, AutBase::StateDiscontBinaryRelation& sim, BU& s, BU& b) {
			StateType states = AutBase::SanitizeAutsForInclusion(s, b);
			if (w & 2) {	// downward: the downward simulation of the union
				BU u = BU::UnionDisjointStates(s, b);
				SimParam sp;
				sp.SetRelation(SimParam::e_sim_relation::TA_DOWNWARD);
				sp.SetNumStates(states);
				sim = u.ComputeSimulation(sp);
			}
			else {	// upward: the library cannot compute an upward simulation on this encoding; identity is one
				Util::BinaryRelation id(states, false);
				AutBase::StateToStateMap dict;
				for (size_t i = 0; i < states; ++i) { id.set(i, i, true); dict[i] = i; }
				sim = AutBase::StateDiscontBinaryRelation(id, dict);
			}
			ip.SetSimulation(&sim);
		};
		vt += guardedVerdict([&]() {
			InclParam ip = mkParam(w);
			if (w & 16) {
				BU s(Ab), b(Bb);
				AutBase::StateDiscontBinaryRelation sim;
				withSim(ip, sim, s, b);
				TD std_ = s.GetTopDownAut(), btd = b.GetTopDownAut();
				return TD::CheckInclusion(std_, btd, ip);
			}
			return TD::CheckInclusion(At, Bt, ip);
		});
		vb += guardedVerdict([&]() {
			InclParam ip = mkParam(w);
			if (w & 16) {
				BU s(Ab), b(Bb);
				AutBase::StateDiscontBinaryRelation sim;
				withSim(ip, sim, s, b);
				return BU::CheckInclusion(s, b, ip);
			}
			return BU::CheckInclusion(Ab, Bb, ip);
		});
	}
	return "td=" + vt + " bu=" + vb;
}

// bddh <enc> <step> ... : histories over one encoding (enc = bu | td); all loads share one state dictionary
template <class Aut>
static string bddHist(const vector<string>& steps)
{
	vector<std::unique_ptr<Aut>> pool;
	std::ostringstream out;
	for (size_t k = 1; k < steps.size(); ++k) {
		vector<string> f = split(steps[k], '!');
		const string& op = f.at(0);
		auto ix = [&](size_t i) -> size_t { size_t x = toN(f.at(i)); if (x >= pool.size() || !pool[x]) throw std::invalid_argument("dead entry"); return x; };
		auto ent = [&](size_t i) -> Aut& { return *pool[ix(i)]; };
		if (op == "def" || op == "defo") {
			AutBase::StateDict d;
			Aut a = loadBdd<Aut>(parseTA(f.at(1)), d);
			if (op == "def") {	// disjoint numbers for every definition: 100*k, 100*k+1, ...
				AutBase::StateToStateMap m;
				size_t cnt = 100 * k;
				AutBase::StateToStateTranslWeak tw(m, [&cnt](const StateType&) { return cnt++; });
				a = a.ReindexStates(tw);
			}
			pool.emplace_back(new Aut(a));
		}
		else if (op == "copy") { pool.emplace_back(new Aut(ent(1))); }
		else if (op == "assign") { ent(1) = ent(2); }
		else if (op == "kill") { pool[ix(1)].reset(); }
		else if (op == "rt") { out << " rt" << k << "=" << fmtBddDesc(reloadedDesc(ent(1))); }
		else if (op == "loadinto") {	// LoadFromString into an existing automaton (AddTransition on a possibly shared table)
			Parsing::TimbukParser parser;
			AutBase::StateDict d;
			ent(1).LoadFromString(parser, timbukOf(parseTA(f.at(2))), d);
		}
		else if (op == "final") { ent(1).SetStateFinal(toN(f.at(2))); }
		else if (op == "union") {
			AutBase::StateToStateMap ml, mr;
			pool.emplace_back(new Aut(Aut::Union(ent(1), ent(2), &ml, &mr)));
			out << " ml" << k << "=" << dumpMap(ml) << " mr" << k << "=" << dumpMap(mr);
		}
		else if (op == "unionpre") {
			// caller-supplied PRE-FILLED translation maps (injective, disjoint images)
			AutBase::StateToStateMap ml = parseMap(f.at(3)), mr = parseMap(f.at(4));
			pool.emplace_back(new Aut(Aut::Union(ent(1), ent(2), &ml, &mr)));
			out << " ml" << k << "=" << dumpMap(ml) << " mr" << k << "=" << dumpMap(mr);
		}
		else if (op == "uniondisj") { pool.emplace_back(new Aut(Aut::UnionDisjointStates(ent(1), ent(2)))); }
		else if (op == "isect") {
			AutBase::ProductTranslMap m;
			pool.emplace_back(new Aut(Aut::Intersection(ent(1), ent(2), &m)));
			out << " m" << k << "=" << dumpPairMap(m);
		}
		else if (op == "unreach") { pool.emplace_back(new Aut(ent(1).RemoveUnreachableStates())); }
		else if (op == "useless") { pool.emplace_back(new Aut(ent(1).RemoveUselessStates())); }
		else throw std::invalid_argument("unknown step " + op);
		out << " S" << k;
		for (size_t i = 0; i < pool.size(); ++i) if (pool[i]) out << " " << k << "." << i << "=" << dumpBdd(*pool[i]);
	}
	return out.str().substr(1);
}

static string opBddHist(const vector<string>& a)
{
	if (a.at(0) == "bu") return bddHist<BU>(a);
	if (a.at(0) == "td") return bddHist<TD>(a);
	throw std::invalid_argument("encoding");
}

// bddtd <A> : bottom-up -> top-down conversion
static string opBddToTd(const vector<string>& a)
{
	AutBase::StateDict dict;
	BU A = loadBdd<BU>(parseTA(a.at(0)), dict);
	TD T = A.GetTopDownAut();
	std::ostringstream out;
	out << "bu=" << dumpBdd(A) << " td=" << dumpBdd(T) << " dict=";
	bool first = true;
	for (auto& p : dict) { if (!first) out << ","; out << numAfter(p.first, 'q') << ">" << p.second; first = false; }
	if (first) out << "-";
	if (a.size() > 1) {
		// mixed provenance: the CONVERTED automaton meets a natively LOADED top-down automaton (both directions)
		AutBase::StateDict dictB;
		TD TB = loadBdd<TD>(parseTA(a.at(1)), dictB);
		out << " tb=" << dumpBdd(TB);
		out << " i1=" << dumpBdd(TD::Intersection(T, TB));
		out << " i2=" << dumpBdd(TD::Intersection(TB, T));
		out << " u=" << dumpBdd(TD::Union(T, TB));
		vector<std::function<char()>> calls;
		calls.push_back(verdictFn([&]() { return TD::CheckInclusion(T, TB, mkParam(2 | 8)); }));
		calls.push_back(verdictFn([&]() { return TD::CheckInclusion(TB, T, mkParam(2 | 8)); }));
		out << " v=" << forkedSeq(calls, g_selTimeout);
	}
	return out.str();
}


// ---------------------------------------------------------------- Timbuk text (C13)
static string unhexS(const string& h)
{
	string r;
	for (size_t i = 0; i + 1 < h.size(); i += 2) r.push_back(static_cast<char>(std::stoi(h.substr(i, 2), nullptr, 16)));
	return r;
}

static string hexS(const string& s)
{
	static const char* d = "0123456789abcdef";
	string r;
	for (unsigned char c : s) { r.push_back(d[c >> 4]); r.push_back(d[c & 15]); }
	return r;
}

static string descDump(const Util::AutDescription& d)
{
	string out = "name=" + hexS(d.name) + ";syms=";
	bool f = true;
	for (auto& sy : d.symbols) { if (!f) out += ","; f = false; out += hexS(sy.first) + ":" + std::to_string(sy.second); }
	out += ";states="; f = true;
	for (auto& st : d.states) { if (!f) out += ","; f = false; out += hexS(st); }
	out += ";final="; f = true;
	for (auto& st : d.finalStates) { if (!f) out += ","; f = false; out += hexS(st); }
	out += ";trans="; f = true;
	for (auto& t : d.transitions) {
		if (!f) out += ","; f = false;
		for (auto& k : t.first) out += hexS(k) + "|";
		out += "/" + hexS(t.second) + "/" + hexS(t.third);
	}
	return out;
}

// load -> dump -> load -> dump in one encoding: 'E' load throws, '1' both dumps agree on rules and final states
// (relaxed equality of the descriptions, under the same state names), '0' they differ, 'e' the reload throws
// arbitrary texts must not register their symbols (ranks up to INT_MAX) in the process-wide default alphabet of the explicit
// tree automata: later cases that complement an automaton over that alphabet would allocate per rank
template <class Aut> static Aut freshAut() { return Aut(); }
template <> TA freshAut<TA>()
{
	TA::AlphabetType alph(new TA::OnTheFlyAlphabet);
	TA a;
	a.SetAlphabet(alph);
	return a;
}

template <class Aut>
static char roundTrip(const string& text)
{
	Parsing::TimbukParser parser;
	CaptureSerializer cs1, cs2;
	try {
		Aut a = freshAut<Aut>();
		AutBase::StateDict d1;
		a.LoadFromString(parser, text, d1);
		a.DumpToString(cs1, d1);
		// what the dump shows must be what was loaded (same rules and final states under the same names)
		bool same = (cs1.last == parser.ParseString(text));
		Serialization::TimbukSerializer ser;
		string text2 = ser.Serialize(cs1.last);
		try {
			Aut b = freshAut<Aut>();
			AutBase::StateDict d2;
			b.LoadFromString(parser, text2, d2);
			b.DumpToString(cs2, d2);
			return (cs1.last == cs2.last) ? (same ? '1' : 'd') : '0';
		}
		catch (const std::exception&) { return 'e'; }
	}
	catch (const std::exception&) { return 'E'; }
}

template <class Aut>
static char roundTripFA(const string& text)
{
	Parsing::TimbukParser parser;
	CaptureSerializer cs1, cs2;
	try {
		Aut a;
		AutBase::StateDict d1;
		a.LoadFromString(parser, text, d1);
		a.DumpToString(cs1, d1);
		bool same = (cs1.last == parser.ParseString(text));
		Serialization::TimbukSerializer ser;
		// the NFA dump has no symbol list: give every symbol its rank so that the text parses as written
		Util::AutDescription d = cs1.last;
		for (auto& t : d.transitions) d.symbols.insert(std::make_pair(t.second, static_cast<int>(t.first.size())));
		string text2 = ser.Serialize(d);
		try {
			Aut b;
			AutBase::StateDict d2;
			b.LoadFromString(parser, text2, d2);
			b.DumpToString(cs2, d2);
			return (cs1.last == cs2.last) ? (same ? '1' : 'd') : '0';
		}
		catch (const std::exception&) { return 'e'; }
	}
	catch (const std::exception&) { return 'E'; }
}

// parse <hex of the input bytes>
static string opParse(const vector<string>& a)
{
	string in = a.empty() ? string() : unhexS(a.at(0));
	string out;
	Parsing::TimbukParser p;
	try {
		Util::AutDescription d = p.ParseString(in);
		Serialization::TimbukSerializer ser;
		out = "P=OK;" + descDump(d) + ";ser=" + hexS(ser.Serialize(d));
		// parse (serialize d) gives back the same final states and rules
		try {
			Util::AutDescription d2 = p.ParseString(ser.Serialize(d));
			out += string(";again=") + ((d2 == d) ? "1" : "0");
		}
		catch (const std::exception&) { out += ";again=E"; }
	}
	catch (const std::exception&) { out = "P=ERR"; }
	out += " L=";
	out += roundTrip<TA>(in);
	out += roundTrip<BU>(in);
	out += roundTrip<TD>(in);
	out += roundTripFA<FA>(in);
	return out;
}


// ownalpha <A> : the automaton is LOADED FROM TEXT into an automaton with its OWN on-the-fly alphabet (the pattern of examples/example14.cc),
// while the process-wide default alphabet holds other names under the small numbers; every result of an operation is dumped with its own
// alphabet and read back BY SYMBOL NAME ("s<k>" -> k).  "EXC" = the dump throws, "BADNAME" = the dump prints a symbol name the input never had.
static string dumpByNames(const TA& r)
{
	CaptureSerializer cs;
	try { r.DumpToString(cs); }
	catch (const std::exception&) { return "EXC"; }
	TAT t;
	auto num = [](const string& w, char pre, bool& ok) -> size_t {
		string d = (pre && !w.empty() && w[0] == pre) ? w.substr(1) : (pre ? string() : w);
		if (d.empty() || d.find_first_not_of("0123456789") != string::npos) { ok = false; return 0; }
		return static_cast<size_t>(std::stoull(d));
	};
	bool ok = true;
	for (auto& tr : cs.last.transitions) {
		RuleT rl;
		rl.sym = num(tr.second, 's', ok);
		for (auto& k : tr.first) rl.kids.push_back(num(k, 0, ok));
		rl.parent = num(tr.third, 0, ok);
		t.rules.push_back(rl);
	}
	for (auto& f : cs.last.finalStates) t.finals.push_back(num(f, 0, ok));
	if (!ok) return "BADNAME";
	return dumpTA(buildTA(t));
}

static string opOwnAlpha(const vector<string>& a)
{
	static bool polluted = false;
	Parsing::TimbukParser parser;
	if (!polluted) {
		// other names under the numbers 0..5 of the process-wide default alphabet
		TA g; AutBase::StateDict sd;
		g.LoadFromString(parser, "Ops zz0:0 zz1:1 zz2:2 zz3:0 zz4:1 zz5:2\nAutomaton G\nStates p\nFinal States p\nTransitions\nzz0 -> p\nzz1(p) -> p\nzz2(p,p) -> p\nzz3 -> p\nzz4(p) -> p\nzz5(p,p) -> p\n", sd);
		polluted = true;
	}
	TAT t = parseTA(a.at(0));
	TA::AlphabetType own(new TA::OnTheFlyAlphabet);
	TA A; A.SetAlphabet(own);
	AutBase::StateDict sd;
	A.LoadFromString(parser, timbukOf(t), sd);
	string out = "A0=" + dumpByNames(A);
	out += " useless=" + dumpByNames(A.RemoveUselessStates());
	out += " unreach=" + dumpByNames(A.RemoveUnreachableStates());
	out += " union=" + dumpByNames(TA::Union(A, A));
	out += " isect=" + dumpByNames(TA::Intersection(A, A));
	out += " isectbu=" + dumpByNames(TA::IntersectionBU(A, A));
	out += " cand=" + dumpByNames(A.GetCandidateTree());
	out += " reduce=" + dumpByNames(A.Reduce());
	out += " copy=" + dumpByNames(TA(A));
	return out;
}

// ltsc <step> ... : histories on the container ExplicitLTS itself: `new!n`, `add!q!a!r`, `init`, `clear`; after every `init` all public views
// are dumped in one token: states / labels / post and pre per (label, state) / bwLabels per state as key:count in iteration order / the keys
// of buildDelta1 per label
static string ltsViews(const ExplicitLTS& l)
{
	std::ostringstream os;
	auto list = [&](const std::vector<size_t>& v) { for (size_t i = 0; i < v.size(); ++i) { if (i) os << ","; os << v[i]; } };
	os << "states:" << l.states() << "/labels:" << l.labels() << "/post:";
	for (size_t a = 0; a < l.labels(); ++a) for (size_t q = 0; q < l.states(); ++q) { os << a << "." << q << "="; list(l.post(a).at(q)); os << ";"; }
	os << "/pre:";
	for (size_t a = 0; a < l.labels(); ++a) for (size_t q = 0; q < l.states(); ++q) { os << a << "." << q << "="; list(l.pre(a).at(q)); os << ";"; }
	os << "/bw:";
	for (size_t r = 0; r < l.states(); ++r) {
		os << r << "=";
		bool f = true;
		for (auto k : l.bwLabels(r)) { if (!f) os << ","; f = false; os << k << ":" << l.bwLabels(r).count(k); }
		os << ";";
	}
	os << "/d1:";
	std::vector<Util::SmartSet> d1;
	l.buildDelta1(d1);
	for (size_t a = 0; a < l.labels(); ++a) { os << a << "="; bool f = true; for (auto k : d1.at(a)) { if (!f) os << ","; f = false; os << k; } os << ";"; }
	return os.str();
}

static string opLtsC(const vector<string>& steps)
{
	std::unique_ptr<ExplicitLTS> l(new ExplicitLTS());
	std::ostringstream out;
	for (size_t k = 0; k < steps.size(); ++k) {
		vector<string> f = split(steps[k], '!');
		if (f.at(0) == "new") l.reset(new ExplicitLTS(toN(f.at(1))));
		else if (f.at(0) == "add") l->addTransition(toN(f.at(1)), toN(f.at(2)), toN(f.at(3)));
		else if (f.at(0) == "clear") l->clear();
		else if (f.at(0) == "init") { l->init(); out << " V" << k << "=" << ltsViews(*l); }
		else throw std::invalid_argument("unknown step " + f.at(0));
	}
	string r = out.str();
	return r.empty() ? "none=1" : r.substr(1);
}

// parse2 <hex t0> <hex t1> : two spellings of one description (nullary rules with / without parentheses and blanks, layout)
static string opParse2(const vector<string>& a)
{
	string out;
	for (size_t i = 0; i < 2; ++i) {
		string in = unhexS(a.at(i));
		Parsing::TimbukParser p;
		out += (i ? " P1=" : "P0=");
		try { Util::AutDescription d = p.ParseString(in); out += "OK;" + descDump(d); }
		catch (const std::exception&) { out += "ERR"; }
	}
	return out;
}


// ---------------------------------------------------------------- metamorphic relations and laws (C19)
static TA loadOperand(const string& tok, TA::AlphabetType& alph)
{
	if (!tok.empty() && tok[0] == '@') {
		std::ifstream in(tok.substr(1));
		if (!in) throw std::invalid_argument("cannot open " + tok);
		std::stringstream ss; ss << in.rdbuf();
		Parsing::TimbukParser parser;
		TA a;
		a.SetAlphabet(alph);
		AutBase::StateDict dict;
		a.LoadFromString(parser, ss.str(), dict);
		return a;
	}
	return buildTA(parseTA(tok));
}

// twin: bijective renaming onto sparse numbers, shuffled rule insertion order, permuted symbol numbers
static TA twinOf(const TA& a, std::mt19937_64& rng, std::map<size_t, size_t>& stMap, std::map<size_t, size_t>& symMap)
{
	vector<TA::Transition> trs;
	for (const TA::Transition& t : a) trs.push_back(t);
	std::shuffle(trs.begin(), trs.end(), rng);
	auto st = [&](size_t q) -> size_t {
		auto it = stMap.find(q);
		if (it != stMap.end()) return it->second;
		size_t v;
		do { v = static_cast<size_t>(rng() % 1000003); } while (false);
		// make it injective: probe until unused
		static thread_local std::set<size_t> dummy;
		std::set<size_t> used;
		for (auto& p : stMap) used.insert(p.second);
		while (used.count(v)) v = (v + 7919) % 1000003;
		stMap[q] = v;
		return v;
	};
	auto sy = [&](size_t f) -> size_t {
		auto it = symMap.find(f);
		if (it != symMap.end()) return it->second;
		std::set<size_t> used;
		for (auto& p : symMap) used.insert(p.second);
		size_t v = static_cast<size_t>(rng() % 5003);
		while (used.count(v)) v = (v + 1) % 5003;
		symMap[f] = v;
		return v;
	};
	TA b;
	vector<size_t> fs(a.GetFinalStates().begin(), a.GetFinalStates().end());
	std::shuffle(fs.begin(), fs.end(), rng);
	for (const TA::Transition& t : trs) {
		TA::StateTuple kids;
		for (size_t k : t.GetChildren()) kids.push_back(st(k));
		b.AddTransition(kids, sy(t.GetSymbol()), st(t.GetParent()));
	}
	for (size_t f : fs) b.SetStateFinal(st(f));
	return b;
}

static const unsigned META_SELS[] = {0, 16, 2, 18, 10, 26, 14, 30};

static char inclWordDirect(const TA& a, const TA& b, unsigned w)
{
	try {
		InclParam ip = mkParam(w);
		if (!(w & 16)) return TA::CheckInclusion(a, b, ip) ? '1' : '0';
		TA smaller(a), bigger(b);
		StateType states = AutBase::SanitizeAutsForInclusion(smaller, bigger);
		TA unionAut = TA::UnionDisjointStates(smaller, bigger);
		SimParam sp;
		sp.SetRelation((w & 2) ? SimParam::e_sim_relation::TA_DOWNWARD : SimParam::e_sim_relation::TA_UPWARD);
		sp.SetNumStates(states);
		AutBase::StateDiscontBinaryRelation simRel = unionAut.ComputeSimulation(sp);
		ip.SetSimulation(&simRel);
		return TA::CheckInclusion(smaller, bigger, ip) ? '1' : '0';
	}
	catch (const NotImplementedException&) { return 'N'; }
	catch (const std::exception&) { return 'E'; }
}

static char inclWord(const TA& a, const TA& b, unsigned w)
{
	return forked([&]() -> char { return inclWordDirect(a, b, w); }, g_selTimeout);
}

static string inclAllSels(const TA& a, const TA& b)
{
	vector<std::function<char()>> calls;
	for (unsigned w : META_SELS) calls.push_back([&a, &b, w]() { return inclWordDirect(a, b, w); });
	return forkedSeq(calls, g_selTimeout);
}

static size_t numStates(const TA& a) { return a.GetUsedStates().size(); }

// simulation as (count, order-independent hash) in the state names given by `back` (identity when null)
static string simSig(const TA& a, bool up, const std::map<size_t, size_t>* back)
{
	// dense numbering as the CLI does
	AutBase::StateToStateMap m;
	size_t cnt = 0;
	AutBase::StateToStateTranslWeak tw(m, [&cnt](const StateType&) { return cnt++; });
	TA d = a.ReindexStates(tw);
	SimParam sp;
	sp.SetRelation(up ? SimParam::e_sim_relation::TA_UPWARD : SimParam::e_sim_relation::TA_DOWNWARD);
	sp.SetNumStates(cnt);
	AutBase::StateDiscontBinaryRelation rel = d.ComputeSimulation(sp);
	unsigned long long h = 0, n = 0;
	for (auto& p : m) for (auto& q : m) {
		if (rel.get(p.second, q.second)) {
			size_t x = back ? back->at(p.first) : p.first, y = back ? back->at(q.first) : q.first;
			unsigned long long z = (x * 1000003ULL + y) * 0x9E3779B97F4A7C15ULL;
			z ^= z >> 29;
			h += z * 0xBF58476D1CE4E5B9ULL;
			++n;
		}
	}
	return std::to_string(n) + ":" + std::to_string(h);
}

template <class F>
static string guardedStr(F f, int secs)
{
	// runs f in a child and returns its string ("T" on overrun, "C" if the child died)
	int fd[2];
	if (pipe(fd) != 0) return "C";
	fflush(stdout);
	unsigned rem = alarm(0);
	pid_t pid = fork();
	if (pid == 0) {
		close(fd[0]);
		prctl(PR_SET_PDEATHSIG, SIGKILL);
		signal(SIGALRM, SIG_DFL);
		alarm(secs + 2);
		string r;
		try { r = f(); } catch (const std::exception&) { r = "E"; }
		ssize_t w = write(fd[1], r.c_str(), r.size());
		(void)w;
		_exit(0);
	}
	close(fd[1]);
	string out;
	fd_set rs;
	struct timeval tv;
	tv.tv_sec = secs; tv.tv_usec = 0;
	bool killed = false;
	while (true) {
		FD_ZERO(&rs); FD_SET(fd[0], &rs);
		int r = select(fd[0] + 1, &rs, nullptr, nullptr, &tv);
		if (r <= 0) { kill(pid, SIGKILL); killed = true; break; }
		char buf[4096];
		ssize_t n = read(fd[0], buf, sizeof buf);
		if (n <= 0) break;
		out.append(buf, static_cast<size_t>(n));
	}
	close(fd[0]);
	int st;
	waitpid(pid, &st, 0);
	alarm(rem);
	if (killed) return "T";
	if (out.empty()) return "C";
	return out;
}

// meta <A|@file> <B|@file> <seed>
static string opMeta(const vector<string>& a)
{
	TA::AlphabetType alph(new TA::OnTheFlyAlphabet);
	TA A = loadOperand(a.at(0), alph), B = loadOperand(a.at(1), alph);
	std::mt19937_64 rng(toN(a.at(2)));
	std::map<size_t, size_t> stA, stB, sym;
	TA A2 = twinOf(A, rng, stA, sym), B2 = twinOf(B, rng, stB, sym);
	std::map<size_t, size_t> backA;
	for (auto& p : stA) backA[p.second] = p.first;
	std::ostringstream out;
	int big = g_selTimeout;
	out << "nA=" << numStates(A) << " nB=" << numStates(B);
	// 1. verdicts of every selection on the pair and on the twin pair
	out << " v=" << inclAllSels(A, B) << " vt=" << inclAllSels(A2, B2);
	// 2. emptiness
	out << " e=" << guardedStr([&]() { return string(A.IsLangEmpty() ? "1" : "0") + (A2.IsLangEmpty() ? "1" : "0"); }, big);
	// 3. simulations mapped through the renaming (downward: A; upward: trimmed A)
	out << " sd=" << guardedStr([&]() { return simSig(A, false, nullptr) + "/" + simSig(A2, false, &backA); }, big);
	out << " su=" << guardedStr([&]() {
		TA t = A.RemoveUselessStates(), t2 = A2.RemoveUselessStates();
		if (t.AreTransitionsEmpty()) return string("-");
		return simSig(t, true, nullptr) + "/" + simSig(t2, true, &backA); }, big);
	// 4. sizes after reduction and trimming
	out << " red=" << guardedStr([&]() { return std::to_string(numStates(A.Reduce())) + "/" + std::to_string(numStates(A2.Reduce())); }, big);
	out << " trim=" << guardedStr([&]() {
		return std::to_string(numStates(A.RemoveUselessStates())) + "," + std::to_string(numStates(A.RemoveUnreachableStates())) + "/" +
			std::to_string(numStates(A2.RemoveUselessStates())) + "," + std::to_string(numStates(A2.RemoveUnreachableStates())); }, big);
	// 5. laws, each with two selections (upward, and downward recursive with the cache and simulation)
	for (unsigned w : {0u, 16u, 30u}) {
		string l = guardedStr([&]() {
			string l;
			TA U = TA::Union(A, B), I = TA::Intersection(A, B);
			l += inclWordDirect(A, A, w);                    // A ⊆ A
			l += inclWordDirect(A, U, w);                    // A ⊆ A ∪ B
			l += inclWordDirect(B, U, w);                    // B ⊆ A ∪ B
			l += inclWordDirect(I, A, w);                    // A ∩ B ⊆ A
			l += inclWordDirect(I, B, w);                    // A ∩ B ⊆ B
			l += inclWordDirect(I, U, w);                    // transitivity instance: A ∩ B ⊆ A ⊆ A ∪ B
			l += inclWordDirect(A, I, w);                    // = (A ⊆ B)
			l += inclWordDirect(U, B, w);                    // = (A ⊆ B)
			TA R = A.Reduce(), T = A.RemoveUselessStates(), T2 = A.RemoveUnreachableStates();
			l += inclWordDirect(A, R, w); l += inclWordDirect(R, A, w);
			l += inclWordDirect(A, T, w); l += inclWordDirect(T, A, w);
			l += inclWordDirect(A, T2, w); l += inclWordDirect(T2, A, w);
			l += '-';
			{	// re-indexed form
				AutBase::StateToStateMap m; size_t c = 1000;
				AutBase::StateToStateTranslWeak tw(m, [&c](const StateType&) { return c += 3; });
				TA X = A.ReindexStates(tw);
				l += inclWordDirect(A, X, w); l += inclWordDirect(X, A, w);
			}
			return l;
		}, 3 * big);
		if (l == "T" || l == "C" || l == "E") l = string(17, l[0] == 'T' ? 'T' : 'E');
		out << " law" << w << "=" << l;
	}
	return out.str();
}

// ---------------------------------------------------------------- LTS simulation engine
// lts <n> <edges q,a,r;...|-> <partition b/b/... with b = q,q,... | -> <block relation i.j,... | -> <outputSize> <overload 0|1|2>
static string opLts(const vector<string>& a)
{
	size_t n = toN(a.at(0));
	ExplicitLTS lts(n);
	// optional 7th argument `st=<k>`: the system is built in two stages – k edges, init(), the remaining edges (possibly with
	// new labels and states), init() again – as a client does that extends a system between two simulation computations
	size_t stage = static_cast<size_t>(-1);
	if (a.size() > 6 && a.at(6).compare(0, 3, "st=") == 0) stage = toN(a.at(6).substr(3));
	size_t cnt = 0;
	if (a.at(1) != "-") for (const string& e : split(a.at(1), ';')) {
		if (cnt++ == stage) lts.init();
		vector<string> f = split(e, ',');
		lts.addTransition(toN(f.at(0)), toN(f.at(1)), toN(f.at(2)));
	}
	lts.init();
	size_t outSize = toN(a.at(4));
	int overload = static_cast<int>(toN(a.at(5)));
	Util::BinaryRelation res;
	if (overload == 0) {
		std::vector<std::vector<size_t>> partition;
		for (const string& b : split(a.at(2), '/')) {
			std::vector<size_t> blk;
			for (const string& q : split(b, ',')) blk.push_back(toN(q));
			partition.push_back(blk);
		}
		Util::BinaryRelation rel(partition.size(), false);
		if (a.at(3) != "-") for (const string& e : split(a.at(3), ',')) {
			vector<string> f = split(e, '.');
			rel.set(toN(f.at(0)), toN(f.at(1)), true);
		}
		res = lts.computeSimulation(partition, rel, outSize);
	}
	else if (overload == 1) res = lts.computeSimulation(outSize);
	else res = lts.computeSimulation();
	std::ostringstream os;
	os << "size=" << res.size() << " rel=";
	bool first = true;
	for (size_t q = 0; q < res.size(); ++q) for (size_t r = 0; r < res.size(); ++r)
		if (res.get(q, r)) { if (!first) os << ","; os << q << "." << r; first = false; }
	if (first) os << "-";
	return os.str();
}

// ---------------------------------------------------------------- dispatcher
// ---------------------------------------------------------------- utility classes under the algorithms (full-stack tasks T31, T32, …)
#ifndef VH_NO_ORDVEC
#include "ops/op_ordvec.inc"
#endif
#ifndef VH_NO_ACHAIN
#include "ops/op_achain.inc"
#endif
#ifndef VH_NO_BDDSIM
#include "ops/op_bddsim.inc"
#endif
#ifndef VH_NO_BINREL
#include "ops/op_binrel.inc"
#endif
#ifndef VH_NO_CACHEH
#include "ops/op_cacheh.inc"
#endif
#ifndef VH_NO_GLUE
#include "ops/op_glue.inc"
#endif
#ifndef VH_NO_CLIARGS
#include "ops/op_cliargs.inc"
#endif
#ifndef VH_NO_LTSUTIL
#include "ops/op_ltsutil.inc"
#endif
#ifndef VH_NO_NFAS
#include "ops/op_nfas.inc"
#endif
#ifndef VH_NO_BDDLOAD
#include "ops/op_bddload.inc"
#endif

// ---------------------------------------------------------------- API sweep (C20): every remaining public entry point of the four
// encodings is called once on well-formed operands; each call may complete ('R'), throw NotImplementedException ('N') or
// another std::exception ('E') – anything else (sanitizer report, crash) ends the process and is the finding
template <class F>
static char sweepCall(F f)
{
	try { f(); return 'R'; }
	catch (const NotImplementedException&) { return 'N'; }
	catch (const std::exception&) { return 'E'; }
}

struct SweepCopyAll : public TA::AbstractCopyF { virtual bool operator()(const TA::Transition&) override { return true; } };

template <class Aut>
static string sweepBdd(const TAT& ta, const TAT& tb)
{
	string v;
	AutBase::StateDict d1, d2;
	Aut A = loadBdd<Aut>(ta, d1);
	Aut B = loadBdd<Aut>(tb, d2);
	size_t n = d1.size();
	v += sweepCall([&]() { A.Reduce(); });
	v += sweepCall([&]() { A.Complement(); });
	v += sweepCall([&]() { A.GetCandidateTree(); });
	for (int rel = 0; rel < 2; ++rel) for (int withN = 0; withN < 2; ++withN)
		v += sweepCall([&]() {
			SimParam sp;
			sp.SetRelation(rel ? SimParam::e_sim_relation::TA_UPWARD : SimParam::e_sim_relation::TA_DOWNWARD);
			if (withN) sp.SetNumStates(n);
			A.ComputeSimulation(sp);
		});
	v += sweepCall([&]() {
		AutBase::StateToStateMap m; StateType c = 0;
		AutBase::StateToStateTranslWeak tr(m, [&c](const StateType&) { return c++; });
		Aut r = A.ReindexStates(tr);
		Serialization::TimbukSerializer ser; r.DumpToString(ser);
	});
	v += sweepCall([&]() { for (StateType q = 0; q < n + 2; ++q) (void)A.IsStateFinal(q); });
	v += sweepCall([&]() { Aut c(A); c.SetStateFinal(n + 1); Aut d; d = c; d = std::move(c); Serialization::TimbukSerializer ser; d.DumpToString(ser, "symbolic"); });
	v += sweepCall([&]() { Aut u = Aut::Union(A, B); Aut i = Aut::Intersection(A, u); Aut t = i.RemoveUselessStates(); Aut w = t.RemoveUnreachableStates(); });
	return v;
}

static string opApiSweep(const vector<string>& a)
{
	TAT ta = parseTA(a.at(0)), tb = parseTA(a.at(1));
	NfaT na = parseNfa(a.at(2)), nb = parseNfa(a.at(3));
	string out;
	{	// explicit tree automata
		string v;
		TA A = buildTA(ta), B = buildTA(tb);
		v += sweepCall([&]() { A.ComputeSimulation(SimParam()); });
		v += sweepCall([&]() { SimParam sp; sp.SetRelation(SimParam::e_sim_relation::TA_DOWNWARD); A.ComputeSimulation(sp); });
		v += sweepCall([&]() { SimParam sp; sp.SetRelation(SimParam::e_sim_relation::TA_UPWARD); A.RemoveUselessStates().ComputeSimulation(sp); });
		v += sweepCall([&]() { SimParam sp; sp.SetRelation(SimParam::e_sim_relation::FA_FORWARD); sp.SetNumStates(64); A.ComputeSimulation(sp); });
		v += sweepCall([&]() { A.Reduce(ReduceParam()); });
		v += sweepCall([&]() { for (const TA::Transition& t : A) (void)A.ToString(t); });
		v += sweepCall([&]() { TA c; SweepCopyAll f; c.CopyTransitionsFrom(A, f); c.CopyTransitionsFrom(B, f); });
		v += sweepCall([&]() {
			AutBase::StateToStateMap m; StateType c = 0;
			Util::TranslatorWeak<AutBase::StateToStateMap> idx(m, [&c](const StateType&) { return c++; });
			A.BuildStateIndex(idx);
		});
		v += sweepCall([&]() { TA c(A); c.SetAlphabet(B.GetAlphabet()); Serialization::TimbukSerializer ser; c.DumpToString(ser); });
		v += sweepCall([&]() { for (StateType q : A.GetUsedStates()) { for (const TA::Transition& t : A[q]) (void)t.GetParent(); } });
		v += sweepCall([&]() { TA e; e.Reduce(); e.RemoveUselessStates(); e.GetCandidateTree(); e.Complement(); (void)e.IsLangEmpty(); (void)TA::CheckInclusion(e, e); });
		out += "ta=" + v;
	}
	out += " bu=" + sweepBdd<BDDBottomUpTreeAut>(ta, tb);
	{	// bottom-up only
		string v;
		AutBase::StateDict d1;
		BDDBottomUpTreeAut A = loadBdd<BDDBottomUpTreeAut>(ta, d1);
		v += sweepCall([&]() { (void)A.DumpToDot(); });
		v += sweepCall([&]() { (void)A.GetTransMTBDDForTuple(BDDBottomUpTreeAut::StateTuple()); });
		v += sweepCall([&]() { BDDTopDownTreeAut t = A.GetTopDownAut(); Serialization::TimbukSerializer ser; t.DumpToString(ser); });
		out += " bux=" + v;
	}
	out += " td=" + sweepBdd<BDDTopDownTreeAut>(ta, tb);
	{	// finite automata
		string v;
		FA A = buildNfa(na), B = buildNfa(nb);
		v += sweepCall([&]() { A.Reduce(); });
		v += sweepCall([&]() { A.Complement(); });
		for (int rel = 0; rel < 2; ++rel) for (int withN = 0; withN < 2; ++withN)
			v += sweepCall([&]() {
				SimParam sp;
				sp.SetRelation(rel ? SimParam::e_sim_relation::FA_BACKWARD : SimParam::e_sim_relation::FA_FORWARD);
				if (withN) sp.SetNumStates(64);
				A.ComputeSimulation(sp);
			});
		v += sweepCall([&]() {
			AutBase::StateToStateMap m; StateType c = 0;
			AutBase::StateToStateTranslWeak tr(m, [&c](const StateType&) { return c++; });
			FA r = A.ReindexStates(tr);
			(void)dumpNfa(r);
		});
		v += sweepCall([&]() { for (StateType q : A.GetStartStates()) (void)A.GetStartSymbols(q).size(); });
		v += sweepCall([&]() { FA c(A); for (StateType q : B.GetStartStates()) c.SetExistingStateStart(q, B.GetStartSymbols(q)); (void)dumpNfa(c); });
		v += sweepCall([&]() { FA e; e.RemoveUselessStates(); e.RemoveUnreachableStates(); e.Reverse(); e.GetCandidateTree(); (void)FA::CheckInclusion(e, A); (void)FA::CheckInclusion(A, e); });
		out += " fa=" + v;
	}
	return out;
}

static string runCase(const string& kind, const vector<string>& args)
{
	if (kind == "incl") return opIncl(args);
	if (kind == "inclall") return opInclAll(args);
	if (kind == "union") return opUnion(args, false);
	if (kind == "unionpre") return opUnion(args, true);
	if (kind == "uniondisj") return opUnionDisj(args);
	if (kind == "isect") return opIsect(args, false);
	if (kind == "isectbu") return opIsect(args, true);
	if (kind == "mapsx") return opMapsX(args);
	if (kind == "parse2") return opParse2(args);
	if (kind == "ltsc") return opLtsC(args);
	if (kind == "ownalpha") return opOwnAlpha(args);
	if (kind == "trim") return opTrim(args);
	if (kind == "cand") return opCand(args);
	if (kind == "reduce") return opReduce(args);
	if (kind == "simdown") return opSim(args, false);
	if (kind == "simup") return opSim(args, true);
	if (kind == "compl") return opCompl(args);
	if (kind == "rename") return opRename(args);
	if (kind == "nfah") return opNfaHist(args);
	if (kind == "lts") return opLts(args);
	if (kind == "tah") return opTaHist(args);
	if (kind == "meta") return opMeta(args);
	if (kind == "parse") return opParse(args);
	if (kind == "bddincl") return opBddIncl(args);
	if (kind == "bddinclall") return opBddInclAll(args);
	if (kind == "bddh" || kind == "bddpre") return opBddHist(args);
	if (kind == "bddtd") return opBddToTd(args);
	if (kind == "mth" || kind == "mthrc") return opMtHist(args);
	if (kind == "apisweep") return opApiSweep(args);
#ifndef VH_NO_ORDVEC
	if (kind == "ordvec") return opOrdvec(args);
#else
	if (kind == "ordvec") return "OPDISABLED ordvec";
#endif
#ifndef VH_NO_ACHAIN
	if (kind == "achain") return opAchain(args);
#else
	if (kind == "achain") return "OPDISABLED achain";
#endif
#ifndef VH_NO_BDDSIM
	if (kind == "bddsim") return opBddsim(args);
#else
	if (kind == "bddsim") return "OPDISABLED bddsim";
#endif
#ifndef VH_NO_BINREL
	if (kind == "binrel") return opBinrel(args);
#else
	if (kind == "binrel") return "OPDISABLED binrel";
#endif
#ifndef VH_NO_CACHEH
	if (kind == "cacheh") return opCacheh(args);
#else
	if (kind == "cacheh") return "OPDISABLED cacheh";
#endif
#ifndef VH_NO_GLUE
	if (kind == "glue") return opGlue(args);
#else
	if (kind == "glue") return "OPDISABLED glue";
#endif
#ifndef VH_NO_CLIARGS
	if (kind == "cliargs") return opCliargs(args);
#else
	if (kind == "cliargs") return "OPDISABLED cliargs";
#endif
#ifndef VH_NO_LTSUTIL
	if (kind == "ltsutil") return opLtsutil(args);
#else
	if (kind == "ltsutil") return "OPDISABLED ltsutil";
#endif
#ifndef VH_NO_BDDLOAD
	if (kind == "bddload") return opBddload(args);
#else
	if (kind == "bddload") return "OPDISABLED bddload";
#endif
#ifndef VH_NO_NFAS
	if (kind == "nfas") return opNfas(args);
#else
	if (kind == "nfas") return "OPDISABLED nfas";
#endif
	return "BADKIND";
}

int main(int argc, char** argv)
{
	// address-ordered containers in the library make exploration order depend on the heap layout: switch ASLR off
	if (!getenv("VHARNESS_NOASLR")) {
		int pers = personality(0xffffffff);
		if (pers != -1 && !(pers & ADDR_NO_RANDOMIZE)) {
			if (personality(pers | ADDR_NO_RANDOMIZE) != -1) {
				setenv("VHARNESS_NOASLR", "1", 1);
				execv("/proc/self/exe", argv);
			}
		}
	}
	if (argc > 1) g_timeout = atoi(argv[1]);
	if (argc > 2) g_selTimeout = atoi(argv[2]);
	signal(SIGALRM, onAlarm);
	std::ios::sync_with_stdio(true);
	// the NFA alphabet is process-wide: number a0..a7 before any case can register other symbol names (kinds are mixed)
	initFaAlphabet();
	// so is the default alphabet of the explicit tree automata: register s0..s7 with the ranks of the generators' alphabet so
	// that a text loaded into an automaton built from raw symbol numbers uses the same numbers (s<k> = k)
	{
		static const size_t ranks[8] = {0, 0, 0, 1, 2, 2, 3, 1};
		TA tmp;
		auto transl = tmp.GetAlphabet()->GetSymbolTransl();
		for (size_t i = 0; i < 8; ++i) {
			if ((*transl)(TA::StringRank("s" + std::to_string(i), ranks[i])) != i) { std::cerr << "tree alphabet numbering" << std::endl; return 3; }
		}
	}
	string line;
	while (std::getline(std::cin, line)) {
		if (line.empty() || line[0] == '#') continue;
		std::istringstream is(line);
		string id, kind, tok;
		is >> id >> kind;
		vector<string> args;
		while (is >> tok) args.push_back(tok);
		g_curId = id;
		alarm(g_timeout);
		string res;
		try { res = runCase(kind, args); }
		catch (const NotImplementedException& e) { res = "EXC NotImplemented"; }
		catch (const std::exception& e) { res = string("EXC ") + typeid(e).name(); }
		alarm(0);
		std::cout << id << " " << res << std::endl;
	}
	return 0;
}
