#!/usr/bin/env python3
"""Generator of `nfas` cases: histories over ExplicitFiniteAut WITH start symbols (harness/op_nfas.inc, Driver/NfaStartChk.lean).

    g_nfas(rng) -> "nfas <step> <step> ..."          __main__:  gen_nfas.py N SEED   prints  C <id> nfas ...

Symbols are protocol numbers: 0..7 = a0..a7 (used on transitions, rarely as start symbols), 8..11 = x0..x3 (start symbols),
12 = x (the name the dump writes for a start state without symbols; rarely given explicitly).

The generator keeps a small model of every live object (visible states / start states where they are determined, and a
SUPERSET of the keys of the start-symbol map) in order to
  * pick states that exist (mutations of start / final states, transitions between present states, boundary: fresh states),
  * respect the preconditions the driver enforces (UnionDisjointStates on state-disjoint operands, SetExistingStateStart on a
    state that is not a start state, injective reindexing),
  * steer around – or into – the one finding of task T52:  Reverse and RemoveUnreachableStates leave STALE entries in
    startStateToSymbols_ (entries of states that are no start states, possibly not even states, any more), and
    SetStateStart / SetExistingStateStart / UnionDisjointStates see them.   NFAS_STALE (environment) selects
        safe  (default)  those three writers are only generated where no stale entry can be hit
        full             no such care, and a share of the cases are built to hit one (reproduces the finding)
Everything else (stale entries being created, carried through copies, trimmed, reversed back, dumped, reloaded …) is generated
in both modes.  Expected results are NOT generated here (the driver computes them).
"""
import os
import random
import sys

STALE_MODE = os.environ.get("NFAS_STALE", "safe")
MAXOBJ = 7
BANDS = [0, 30, 60, 90]
FRESH = 200                      # states >= FRESH never occur unless generated as "fresh"


class Ent:
    """what the generator knows about a live object"""

    def __init__(self, trans, starts, finals, keys=None, exact=True, sup=None):
        self.trans = list(trans)             # exact transitions (exact objects only)
        self.starts = set(starts)            # exact start states (exact objects only)
        self.finals = set(finals)
        self.exact = exact
        # exact objects: superset of the map's keys; opaque objects: superset of the STALE keys (keys of non-start states)
        self.keys = set(keys) if keys is not None else set(starts)
        self._sup = set(sup) if sup is not None else None               # superset of the states (opaque objects)

    def states(self):
        if not self.exact:
            return set(self._sup)
        s = set(self.starts) | set(self.finals)
        for (p, _, q) in self.trans:
            s.add(p)
            s.add(q)
        return s

    def copy(self):
        return Ent(self.trans, self.starts, self.finals, self.keys, self.exact, self._sup)


def reach(trans, src):
    seen = set(src)
    todo = list(src)
    while todo:
        p = todo.pop()
        for (a, _, b) in trans:
            if a == p and b not in seen:
                seen.add(b)
                todo.append(b)
    return seen


def m_rev(A):
    return Ent([(q, a, p) for (p, a, q) in A.trans], A.finals, A.starts, A.keys | A.finals)


def m_unreach(A):
    R = reach(A.trans, A.starts)
    return Ent([t for t in A.trans if t[0] in R], A.starts, A.finals & R, A.keys)


def m_useless(A):
    return m_rev(m_unreach(m_rev(m_unreach(A))))


def opaque(sup, keys):
    return Ent([], [], [], keys, False, sup)


def sym_start(rng):
    r = rng.random()
    if r < 0.82:
        return rng.randrange(8, 12)
    if r < 0.95:
        return rng.randrange(0, 8)
    return 12


def sym_set(rng):
    n = rng.choice([1, 1, 1, 2, 2, 3])
    l = [sym_start(rng) for _ in range(n)]
    if rng.random() < 0.1:
        l.append(l[0])                       # the same rule twice
    return l


def rand_aut(rng, base, nmax=4):
    n = rng.randint(1, nmax)
    states = list(range(base, base + n)) if rng.random() < 0.7 else sorted(rng.sample(range(base, base + 12), n))
    nsym = rng.randint(1, 3)
    trans = []
    for _ in range(rng.randint(0, 2 * n + 1)):
        trans.append((rng.choice(states), rng.randrange(nsym), rng.choice(states)))
    if trans and rng.random() < 0.2:
        trans.append(rng.choice(trans))
    starts = sorted({rng.choice(states) for _ in range(rng.choice([1, 1, 2, 2, 3]))})
    if rng.random() < 0.05:
        starts = []
    finals = sorted({rng.choice(states) for _ in range(rng.choice([1, 1, 2]))})
    if rng.random() < 0.05:
        finals = []
    if starts and rng.random() < 0.25:
        finals = sorted(set(finals) | {rng.choice(starts)})      # the empty word is accepted
    if starts and rng.random() < 0.12:
        # a fork: two final states at the same distance from a start state (which one GetCandidateTree finds first depends on
        # the iteration order of the transition containers)
        p, q = max(states) + 1, max(states) + 2
        s0 = rng.choice(starts)
        trans += [(s0, 0, p), (s0, 1, q)] if rng.random() < 0.5 else [(s0, 0, q), (s0, 0, p)]
        finals = sorted(set(finals) - set(starts) | {p, q})
        states = states + [p, q]
    if rng.random() < 0.25:
        x = max(states) + 1                                       # a dead end / an unreachable state / a useless start state
        c = rng.random()
        if c < 0.35:
            trans.append((rng.choice(states), rng.randrange(nsym), x))
        elif c < 0.7:
            trans.append((x, rng.randrange(nsym), rng.choice(states)))
        else:
            starts = sorted(set(starts) | {x})
    return trans, starts, finals


def tok(rng, trans, starts, finals):
    """T|S|F; the symbols of a start state may be split over several entries (SetStateStart on an existing start state)"""
    ents = []
    for q in starts:
        ss = sym_set(rng)
        if len(ss) > 1 and rng.random() < 0.3:
            ents.append((q, ss[:1]))
            ents.append((q, ss[1:]))
        else:
            ents.append((q, ss))
    if len(ents) > 1 and rng.random() < 0.3:
        rng.shuffle(ents)
    T = ";".join("%d,%d,%d" % t for t in trans)
    S = ",".join(".".join(map(str, [q] + ss)) for (q, ss) in ents)
    F = ",".join(map(str, finals))
    return "%s|%s|%s" % (T, S, F)


def g_nfas(rng):
    steps = []
    pool = []                                 # Ent or None

    def live():
        return [i for i, e in enumerate(pool) if e is not None]

    def new(e):
        pool.append(e)

    def define(base=None):
        if base is None:
            base = rng.choice(BANDS)
        trans, starts, finals = rand_aut(rng, base)
        steps.append(("def:" if rng.random() < 0.75 else "load:") + tok(rng, trans, starts, finals))
        new(Ent(trans, starts, finals))

    def pick_state(e, fresh_p=0.15):
        st = sorted(e.states())
        if not st or rng.random() < fresh_p:
            return FRESH + rng.randrange(4)
        return rng.choice(st)

    def stale_keys(e):
        """keys that may be stale: possible keys that are not known to be start states"""
        return e.keys - e.starts if e.exact else set(e.keys)

    # ---- a case built to hit a stale entry (full mode only)
    if STALE_MODE == "full" and rng.random() < 0.3:
        base = rng.choice(BANDS)
        # start state `base` cannot reach the final state: Reverse + RemoveUnreachableStates drop it, its entry stays
        trans = [(base + 1, 0, base + 2)]
        if rng.random() < 0.5:
            trans.append((base, 1, base + 3))
        starts = [base, base + 1]
        finals = [base + 2]
        steps.append("def:" + tok(rng, trans, starts, finals))
        A = Ent(trans, starts, finals)
        new(A)
        c = rng.random()
        if c < 0.35:
            steps.append("rev:0")
            new(m_rev(A))
            steps.append("start:1:%d:%d" % (rng.choice(starts), sym_start(rng)))
        elif c < 0.55:
            steps.append("rev:0")
            new(m_rev(A))
            steps.append("estart:1:%d:%s" % (rng.choice(starts), ".".join(map(str, sym_set(rng)))))
        else:
            if rng.random() < 0.5:
                steps.append("useless:0")
                new(m_useless(A))
                lhs = 1
            else:
                steps.append("rev:0")
                new(m_rev(A))
                steps.append("unreach:1")
                new(m_unreach(pool[1]))
                lhs = 2
            gone = sorted(pool[lhs].keys - pool[lhs].states())
            q = rng.choice(gone) if gone else base
            t2 = [(q, 0, base + 10)] if rng.random() < 0.5 else []
            steps.append("def:" + tok(rng, t2, [q], [base + 10] if t2 else [q]))
            new(Ent(t2, [q], [base + 10] if t2 else [q]))
            steps.append("uniondisj:%d:%d" % (lhs, len(pool) - 1))
            new(opaque(set(), set()))
        return "nfas " + " ".join(steps)

    for _ in range(rng.randint(1, 3)):
        define()
    n = rng.choice([4, 6, 8, 10, 12, 16])
    guard = 0
    while len(steps) < n and guard < 200:
        guard += 1
        lv = live()
        if not lv:
            define()
            continue
        r = rng.random()
        i = rng.choice(lv)
        j = rng.choice(lv)
        A = pool[i]
        B = pool[j]
        room = len(lv) < MAXOBJ
        if r < 0.06 and room:
            define()
        elif r < 0.11 and room:
            steps.append("copy:%d" % i)
            new(A.copy())
        elif r < 0.15:
            steps.append("assign:%d:%d" % (i, j))
            pool[i] = B.copy()
        elif r < 0.18:
            steps.append("move:%d" % i)
            new(A.copy())
            pool[i] = None
        elif r < 0.20 and i != j:
            steps.append("massign:%d:%d" % (i, j))
            pool[i] = B.copy()
            pool[j] = None
        elif r < 0.22 and len(lv) > 1:
            steps.append("kill:%d" % i)
            pool[i] = None
        elif r < 0.30:
            p, q = pick_state(A), pick_state(A)
            a = rng.randrange(3)
            steps.append("add:%d:%d,%d,%d" % (i, p, a, q))
            if A.exact:
                A.trans.append((p, a, q))
            else:
                A._sup |= {p, q}
        elif r < 0.35:
            q = pick_state(A)
            steps.append("final:%d:%d" % (i, q))
            if A.exact:
                A.finals.add(q)
            else:
                A._sup.add(q)
        elif r < 0.45:
            # SetStateStart: a new symbol for a start state, or a new start state
            if A.exact and A.starts and rng.random() < 0.45:
                q = rng.choice(sorted(A.starts))
            else:
                q = pick_state(A)
            if STALE_MODE != "full" and q in stale_keys(A):
                continue
            steps.append("start:%d:%d:%d" % (i, q, sym_start(rng)))
            if A.exact:
                A.starts.add(q)
            else:
                A._sup.add(q)
            A.keys.add(q)
        elif r < 0.50:
            # SetExistingStateStart: precondition (enforced by the driver) q is not a start state
            q = pick_state(A, 0.3)
            if (A.exact and q in A.starts) or (not A.exact and (q < FRESH or q in A._sup)):
                continue
            if STALE_MODE != "full" and q in stale_keys(A):
                continue
            S = sym_set(rng) if rng.random() < 0.85 else []
            steps.append("estart:%d:%d:%s" % (i, q, ".".join(map(str, S)) if S else "-"))
            if A.exact:
                A.starts.add(q)
            else:
                A._sup.add(q)
            A.keys.add(q)
        elif r < 0.57 and room:
            if len(A.states()) + len(B.states()) > 14:
                continue
            steps.append("union:%d:%d" % (i, j))
            nst = len(A.states()) + len(B.states())
            new(opaque(set(range(nst)), set()))            # a fresh map: entries of the start states only
        elif r < 0.66 and room:
            # UnionDisjointStates: operands without a common state
            cands = [(a, b) for a in lv for b in lv if a != b and not (pool[a].states() & pool[b].states())]
            if STALE_MODE != "full":
                cands = [(a, b) for (a, b) in cands if not (stale_keys(pool[a]) & pool[b].states())]
            if not cands:
                if room and rng.random() < 0.5:
                    used = set()
                    for e in pool:
                        if e is not None:
                            used |= {b for b in BANDS if any(b <= s < b + 30 for s in e.states() | e.keys)}
                    free = [b for b in BANDS if b not in used]
                    if free:
                        define(rng.choice(free))
                continue
            a, b = rng.choice(cands)
            steps.append("uniondisj:%d:%d" % (a, b))
            X, Y = pool[a], pool[b]
            if X.exact and Y.exact:
                new(Ent(X.trans + Y.trans, X.starts | Y.starts, X.finals | Y.finals, X.keys | Y.keys))
            else:
                new(opaque(X.states() | Y.states(), X.keys | Y.keys))
        elif r < 0.74 and room:
            if len(A.states()) * len(B.states()) > 16:
                continue
            steps.append("isect:%d:%d" % (i, j))
            nst = max(1, len(A.states()) * len(B.states()))
            new(opaque(set(range(nst)), set(range(nst))))
        elif r < 0.81 and room:
            steps.append("rev:%d" % i)
            new(m_rev(A) if A.exact else opaque(A.states(), A.keys | A.states()))
        elif r < 0.86 and room:
            steps.append("unreach:%d" % i)
            new(m_unreach(A) if A.exact else opaque(A.states(), A.keys))
        elif r < 0.91 and room:
            steps.append("useless:%d" % i)
            new(m_useless(A) if A.exact else opaque(A.states(), A.keys | A.states()))
        elif r < 0.95 and room:
            steps.append("cand:%d" % i)
            new(opaque(A.states(), A.states()))
        elif r < 0.98 and room:
            st = sorted(A.states())
            if not st or len(st) > 12:
                continue
            base = rng.choice(BANDS)
            img = rng.sample(range(base, base + 20), len(st))
            m = dict(zip(st, img))
            if rng.random() < 0.3 and len(st) > 1:
                del m[rng.choice(st)]                      # the translator allocates 1000, 1001, … for the rest
            if not A.exact:
                m = dict(zip(st, img))
            steps.append("reidx:%d:%s" % (i, ",".join("%d>%d" % kvp for kvp in sorted(m.items())) or "-"))
            if A.exact and all(q in m for q in st):
                new(Ent([(m[p], a, m[q]) for (p, a, q) in A.trans], {m[q] for q in A.starts}, {m[q] for q in A.finals}))
            else:
                sup = set(img) | {1000 + t for t in range(len(st))}
                new(opaque(sup, set()))
        else:
            steps.append("rt:%d" % i)
    if rng.random() < 0.5 and live():
        steps.append("rt:%d" % rng.choice(live()))
    return "nfas " + " ".join(steps)


if __name__ == "__main__":
    n = int(sys.argv[1]) if len(sys.argv) > 1 else 10
    seed = int(sys.argv[2]) if len(sys.argv) > 2 else 1
    rng = random.Random(seed)
    for k in range(n):
        print("C ns%d_%d %s" % (seed, k, g_nfas(rng)))
