#!/usr/bin/env python3
"""Translator for the table-shaped code (DESIGN §5.5): regenerates lean/Vata/Generated/Tables.lean from /repo's CURRENT sources

  include/vata/incl_param.hh            the seven flag masks and the named option words
  src/explicit_tree_incl.cc             |
  src/bdd_td_tree_aut_incl.cc           |  the four `switch (params.GetOptions())` dispatchers: case label -> callee,
  src/bdd_bu_tree_aut_incl.cc           |  functor, which operands (sanitised copies or the originals) and which relation
  src/explicit_finite_incl.cc           |  (Identity(states) or params.GetSimulation()) are passed

The theorems of lean/Vata/Properties/Dispatch.lean are re-checked against the regenerated table on every run (`decide` over
the complete 2^7 option space); the harness validates the table against run-time behaviour (`inclall`, `bddinclall`).
"""
import os, re, subprocess, sys


def strip_comments(txt):
    txt = re.sub(r"/\*.*?\*/", "", txt, flags=re.S)
    txt = re.sub(r"//[^\n]*", "", txt)
    return txt


def parse_flags(repo):
    txt = strip_comments(open(os.path.join(repo, "include/vata/incl_param.hh")).read())
    flags = {}
    for m in re.finditer(r"static\s+const\s+unsigned\s+(FLAG_MASK_\w+)\s*=\s*1\s*<<\s*(\d+)\s*;", txt):
        flags[m.group(1)] = 1 << int(m.group(2))
    words = {}
    for m in re.finditer(r"static\s+const\s+unsigned\s+([A-Z][A-Z_]*)\s*=\s*0((?:\s*\|\s*FLAG_MASK_\w+)*)\s*;", txt):
        name = m.group(1)
        if name.startswith("FLAG_MASK"):
            continue
        v = 0
        for fm in re.findall(r"FLAG_MASK_\w+", m.group(2)):
            v |= flags[fm]
        words[name] = v
    return flags, words


def parse_dispatch(path, words):
    txt = strip_comments(open(path).read())
    m = re.search(r"switch\s*\(\s*params\.GetOptions\(\)\s*\)", txt)
    if not m:
        raise ValueError("no dispatcher switch in " + path)
    # body of the switch: balanced braces
    i = txt.index("{", m.end())
    depth, j = 0, i
    while True:
        if txt[j] == "{":
            depth += 1
        elif txt[j] == "}":
            depth -= 1
            if depth == 0:
                break
        j += 1
    body = txt[i + 1:j]
    parts = re.split(r"(case\s+InclParam::\w+\s*:|default\s*:)", body)
    cases = []
    default_throws = False
    for k in range(1, len(parts), 2):
        label, code = parts[k], parts[k + 1]
        if label.startswith("default"):
            default_throws = "throw" in code and "NotImplementedException" in code
            continue
        name = re.match(r"case\s+InclParam::(\w+)", label).group(1)
        ret = re.search(r"return\s+([^;]*);", code, flags=re.S)
        call = ret.group(1) if ret else ""
        callee, functor, order = "unknown", "-", "-"
        if "ExplicitUpwardInclusion::Check" in call:
            callee = "explUp"
        elif "ExplicitDownwardInclusion::Check" in call:
            callee = "explDownNonrec"
        elif "CheckDownwardTreeInclusion" in call:
            callee = "downRec"
            fm = re.search(r"VATA::(\w*DownwardInclusionFunctor)", call)
            functor = fm.group(1) if fm else "?"
        elif "CheckUpwardTreeInclusion" in call:
            callee = "bddUp"
            fm = re.search(r"VATA::(\w+)\s*>", call)
            functor = fm.group(1) if fm else "?"
        elif "CheckFiniteAutInclusion" in call:
            fm = re.search(r"typedef\s+VATA::(ExplicitFA\w+)\s*<[^;]*>\s*FunctorType\s*;", code)
            functor = fm.group(1) if fm else "?"
            callee = "faAntichain" if functor == "ExplicitFAInclusionFunctorCache" else (
                "faCongr" if functor == "ExplicitFACongrFunctorCacheOpt" else ("faCongrEquiv" if functor == "ExplicitFACongrEquivFunctor" else "faOther"))
            om = re.search(r"ProductStateSet(Depth|Breadth)", code)
            order = om.group(1).lower() if om else "-"
        elif "BDDTDTreeAutCore::CheckInclusion" in call or (
                re.search(r"bool\s+result\s*=\s*BDDTDTreeAutCore::CheckInclusion\s*\(\s*smallertd\s*,\s*biggertd\s*,\s*ip\s*\)", code)
                and call.strip() == "result"):
            # sanitise, union, downward simulation, conversion to top-down, recursive downward check with that relation
            callee = "viaTopDown"
            fl = []
            for setter, val in re.findall(r"ip\.(Set\w+)\(([^)]*)\)", code):
                fl.append(setter + "=" + val.replace("InclParam::", "").replace("e_algorithm::", "").replace("e_direction::", "").strip())
            functor = ";".join(x for x in fl if not x.startswith("SetSimulation"))
        args = re.search(r"\(\s*(\w+)\s*,\s*(\w+)\s*,\s*([^)]*\)?)\s*\)\s*$", call.strip(), flags=re.S)
        sanit, rel = "?", "?"
        if args:
            a1, a2, a3 = args.group(1), args.group(2), args.group(3)
            sanit = "true" if (a1.startswith("new") and a2.startswith("new")) else ("false" if (a1 == "smaller" and a2 == "bigger") else "?")
            rel = "identity" if "Identity(states)" in a3 else ("given" if "GetSimulation()" in a3 else "?")
        if callee == "viaTopDown":
            sanit, rel = "true", "computed"
        if name not in words:
            raise ValueError(f"unknown option word {name} in {path}")
        cases.append(dict(name=name, word=words[name], callee=callee, functor=functor, order=order, sanitized=sanit, rel=rel))
    return cases, default_throws



# ---------------------------------------------------------------- cache wiring (memo tables keyed by macro-state addresses)
def _split_targs(t):
    """top-level template arguments of `A, B<C, D>, E`"""
    out, depth, cur = [], 0, ""
    for ch in t:
        if ch in "<(":
            depth += 1
        elif ch in ">)":
            depth -= 1
        if ch == "," and depth == 0:
            out.append(cur.strip()); cur = ""
        else:
            cur += ch
    if cur.strip():
        out.append(cur.strip())
    return out


def parse_cache_wiring(repo):
    """For every site that interns macro-states in a `BiggerTypeCache` (Util::Cache) whose deleter must purge the memo
    tables keyed by the ADDRESS of a macro-state: the memo tables in scope (name, which key positions hold `const StateSet*`)
    and the `invalidateFirst/Second` calls of the deleter lambda.  A memo entry that outlives the set it mentions is answered
    for whatever set is allocated at that address next (stale answer)."""
    typedefs = {}
    for rel in ["src/down_tree_incl_fctor.hh", "src/down_tree_opt_incl_fctor.hh"]:
        txt = strip_comments(open(os.path.join(repo, rel)).read())
        m = re.search(r"typedef\s+(?:VATA::)?Util::CachedBinaryOp\s*<(.*?)>\s*LteCache\s*;", txt, flags=re.S)
        if not m:
            raise ValueError("no LteCache typedef in " + rel)
        typedefs[rel] = _split_targs(" ".join(m.group(1).split()))
    if typedefs["src/down_tree_incl_fctor.hh"] != typedefs["src/down_tree_opt_incl_fctor.hh"]:
        raise ValueError("the two downward functors declare different LteCache types")
    lte_t = typedefs["src/down_tree_incl_fctor.hh"]
    sites = []
    for rel in ["src/tree_incl_down.hh", "src/explicit_tree_incl_down.cc", "src/explicit_tree_incl_up.cc"]:
        txt = strip_comments(open(os.path.join(repo, rel)).read())
        m = re.search(r"BiggerTypeCache\s+biggerTypeCache\s*\(\s*\[([^\]]*)\]\s*\(\s*const\s+StateSet\s*\*\s*(\w+)\s*\)\s*\{(.*?)\}\s*\)\s*;", txt, flags=re.S)
        if not m:
            raise ValueError("no biggerTypeCache deleter in " + rel)
        captured = [c.strip().lstrip("&") for c in m.group(1).split(",") if c.strip()]
        var, body = m.group(2), m.group(3)
        calls = re.findall(r"(\w+)\s*\.\s*(invalidateFirst|invalidateSecond)\s*\(\s*" + var + r"\s*\)", body)
        other = [x for x in re.split(r";", re.sub(r"(\w+)\s*\.\s*(invalidateFirst|invalidateSecond)\s*\(\s*" + var + r"\s*\)", "", body)) if x.strip()]
        # memo tables in scope before the cache: explicit declarations, or the functor's LteCache typedef
        before = txt[:m.start()]
        tables = []
        for dm in re.finditer(r"(?:VATA::)?Util::CachedBinaryOp\s*<(.*?)>\s*(\w+)\s*;", before, flags=re.S):
            tables.append((dm.group(2), _split_targs(" ".join(dm.group(1).split()))))
        for dm in re.finditer(r"typename\s+InclFctor::LteCache\s+(\w+)\s*;", before):
            tables.append((dm.group(1), lte_t))
        tabs = []
        for name, targs in tables:
            if name not in captured:
                continue
            keypos = [i for i in (0, 1) if i < len(targs) and re.fullmatch(r"const\s+StateSet\s*\*", targs[i])]
            tabs.append((name, keypos))
        # declared before the antichains / work-sets that hold handles (destruction order: the cache must die last)
        after = txt[m.end():m.end() + 1500]
        sites.append(dict(file=rel, tables=tabs, calls=calls, other=len(other), captured=captured))
    return sites


WRAPPERS = [("ExplicitTreeAut", "src/explicit_tree_aut.cc"), ("ExplicitFiniteAut", "src/explicit_finite_aut.cc"),
            ("BDDBottomUpTreeAut", "src/bdd_bu_tree_aut.cc"), ("BDDTopDownTreeAut", "src/bdd_td_tree_aut.cc")]


def parse_wrappers(repo):
    """the four public pimpl wrappers: for every out-of-class definition `Cls::Method(...) { body }` (constructors, destructors,
    operators and the nested iterator classes left out) the list of core methods the body calls (`core_->X(`, `CoreAut::X(`,
    `….core_->X(`), in order of appearance, without repetitions"""
    rows = []
    for cls, rel in WRAPPERS:
        txt = strip_comments(open(os.path.join(repo, rel)).read())
        for m in re.finditer(r"\b" + cls + r"::(\w+)\s*\(", txt):
            name = m.group(1)
            # nested classes (Cls::Iterator::…) and constructors / destructors are not forwarding methods
            pre = txt[max(0, m.start() - 2):m.start()]
            if pre.endswith("::") or name == cls:
                continue
            # find the end of the parameter list, then the body
            i, depth = m.end(), 1
            while i < len(txt) and depth:
                depth += {"(": 1, ")": -1}.get(txt[i], 0)
                i += 1
            j = i
            while j < len(txt) and txt[j] not in "{;":
                j += 1
            if j >= len(txt) or txt[j] == ";":
                continue                      # a call or a declaration, not a definition
            head = txt[i:j]
            if re.search(r"[^\s\w]", head.replace("const", "")):
                continue                      # not a plain `) const {`
            k, depth = j + 1, 1
            while k < len(txt) and depth:
                depth += {"{": 1, "}": -1}.get(txt[k], 0)
                k += 1
            body = txt[j:k]
            calls = []
            for c in re.finditer(r"(?:core_\s*->|CoreAut::)\s*(?:template\s+)?(\w+)\s*[<(]", body):
                if c.group(1) not in calls and c.group(1) not in ("ParentAut",):
                    calls.append(c.group(1))
            rows.append((cls, name + (" const" if "const" in head else ""), calls))
    if len(rows) < 80:
        raise ValueError(f"only {len(rows)} wrapper methods recognised")
    return rows


def lean_str(s):
    return '"' + s.replace("\\", "\\\\").replace('"', '\\"') + '"'


def render(flags, words, tables, errors, wiring=(), werrors=(), wrappers=(), wraperrors=()):
    out = []
    out.append("/-! GENERATED by tools/extract_tables.py from /repo's sources on every run – do not edit. -/")
    out.append("namespace Vata.Gen\n")
    out.append("structure Case where\n  name : String\n  word : Nat\n  callee : String\n  functor : String\n  order : String\n"
               "  sanitized : String\n  rel : String\nderiving DecidableEq, Repr\n")
    out.append("/-- translator diagnostics: empty when every source was parsed -/")
    out.append("def parseErrors : List String := [" + ", ".join(lean_str(e) for e in errors) + "]\n")
    out.append("def flags : List (String × Nat) := [" + ", ".join(f"({lean_str(k)}, {v})" for k, v in sorted(flags.items())) + "]\n")
    out.append("def namedWords : List (String × Nat) := [" + ", ".join(f"({lean_str(k)}, {v})" for k, v in sorted(words.items())) + "]\n")
    for tname, (cases, dthrows) in tables.items():
        out.append(f"def {tname} : List Case := [")
        out.append(",\n".join(
            f"  ⟨{lean_str(c['name'])}, {c['word']}, {lean_str(c['callee'])}, {lean_str(c['functor'])}, {lean_str(c['order'])}, "
            f"{lean_str(c['sanitized'])}, {lean_str(c['rel'])}⟩" for c in cases))
        out.append("]\n")
        out.append(f"def {tname}DefaultThrows : Bool := {'true' if dthrows else 'false'}\n")
    out.append("/-- translator diagnostics of the cache-wiring extraction (kept apart from `parseErrors`: a deleter lambda rewritten into")
    out.append("    another shape must not take the dispatch theorems down with it) -/")
    out.append("def wiringErrors : List String := [" + ", ".join(lean_str(e) for e in werrors) + "]\n")
    out.append("/-- cache wiring: (file, memo tables captured by the macro-state cache's deleter with the key positions that hold a")
    out.append("    macro-state address (0 = first, 1 = second), the (table, position) pairs the deleter invalidates, number of other")
    out.append("    statements in the deleter) -/")
    out.append("def cacheWiring : List (String × List (String × List Nat) × List (String × Nat) × Nat) := [")
    out.append(",\n".join(
        "  (" + lean_str(w["file"]) + ", [" + ", ".join("(" + lean_str(n) + ", [" + ", ".join(map(str, kp)) + "])" for n, kp in w["tables"]) + "], ["
        + ", ".join("(" + lean_str(n) + ", " + ("0" if meth == "invalidateFirst" else "1") + ")" for n, meth in w["calls"]) + "], " + str(w["other"]) + ")"
        for w in wiring))
    out.append("]\n")
    out.append("/-- translator diagnostics of the wrapper extraction -/")
    out.append("def wrapperErrors : List String := [" + ", ".join(lean_str(e) for e in wraperrors) + "]\n")
    out.append("/-- the public pimpl wrappers: (class, method, core methods its body calls) for every out-of-class method definition -/")
    out.append("def wrapperCalls : List (String × String × List String) := [")
    out.append(",\n".join("  (" + lean_str(c) + ", " + lean_str(n) + ", [" + ", ".join(lean_str(x) for x in calls) + "])" for c, n, calls in wrappers))
    out.append("]\n")
    out.append("end Vata.Gen")
    return "\n".join(out) + "\n"


def regenerate(repo, dst):
    errors = []
    flags, words, tables = {}, {}, {}
    try:
        flags, words = parse_flags(repo)
    except Exception as e:  # noqa
        errors.append("incl_param.hh: " + str(e))
    for tname, rel in [("explDispatch", "src/explicit_tree_incl.cc"), ("tdDispatch", "src/bdd_td_tree_aut_incl.cc"),
                       ("buDispatch", "src/bdd_bu_tree_aut_incl.cc"), ("faDispatch", "src/explicit_finite_incl.cc")]:
        try:
            tables[tname] = parse_dispatch(os.path.join(repo, rel), words)
        except Exception as e:  # noqa
            errors.append(rel + ": " + str(e))
            tables[tname] = ([], False)
    wiring, werrors = [], []
    try:
        wiring = parse_cache_wiring(repo)
    except Exception as e:  # noqa
        werrors.append("cache wiring: " + str(e))
    wrappers, wraperrors = [], []
    try:
        wrappers = parse_wrappers(repo)
    except Exception as e:  # noqa
        wraperrors.append("wrappers: " + str(e))
    txt = render(flags, words, tables, errors, wiring, werrors, wrappers, wraperrors)
    os.makedirs(os.path.dirname(dst), exist_ok=True)
    old = open(dst).read() if os.path.exists(dst) else None
    if old != txt:
        open(dst, "w").write(txt)
        return "Generated/Tables.lean regenerated (changed)\n"
    return "Generated/Tables.lean regenerated (unchanged)\n"


if __name__ == "__main__":
    here = os.path.dirname(os.path.dirname(os.path.abspath(__file__)))
    print(regenerate(os.environ.get("VERIF_REPO", "/repo"), os.path.join(here, "lean", "Vata", "Generated", "Tables.lean")))
