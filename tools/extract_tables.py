#!/usr/bin/env python3
"""Translator for the table-shaped code (DESIGN §5.5): regenerates lean/Vata/Generated/Tables.lean from /repo's CURRENT sources

  include/vata/incl_param.hh            the seven flag masks and the named option words
  src/explicit_tree_incl.cc             |
  src/bdd_td_tree_aut_incl.cc           |  the four `switch (params.GetOptions())` dispatchers: case label -> callee,
  src/bdd_bu_tree_aut_incl.cc           |  functor, which operands (sanitised copies or the originals) and which relation
  src/explicit_finite_incl.cc           |  (Identity(states) or params.GetSimulation()) are passed

The theorems of lean/Vata/Properties/Dispatch.lean are re-checked against the regenerated table on every run (`decide` over
the complete 2^7 option space); the harness validates the table against run-time behaviour (`inclall`, `bddinclall`).
"""
import os, re, subprocess, sys


def strip_comments(txt):
    txt = re.sub(r"/\*.*?\*/", "", txt, flags=re.S)
    txt = re.sub(r"//[^\n]*", "", txt)
    return txt


def parse_flags(repo):
    txt = strip_comments(open(os.path.join(repo, "include/vata/incl_param.hh")).read())
    flags = {}
    for m in re.finditer(r"static\s+const\s+unsigned\s+(FLAG_MASK_\w+)\s*=\s*1\s*<<\s*(\d+)\s*;", txt):
        flags[m.group(1)] = 1 << int(m.group(2))
    words = {}
    for m in re.finditer(r"static\s+const\s+unsigned\s+([A-Z][A-Z_]*)\s*=\s*0((?:\s*\|\s*FLAG_MASK_\w+)*)\s*;", txt):
        name = m.group(1)
        if name.startswith("FLAG_MASK"):
            continue
        v = 0
        for fm in re.findall(r"FLAG_MASK_\w+", m.group(2)):
            v |= flags[fm]
        words[name] = v
    return flags, words


def parse_dispatch(path, words):
    txt = strip_comments(open(path).read())
    m = re.search(r"switch\s*\(\s*params\.GetOptions\(\)\s*\)", txt)
    if not m:
        raise ValueError("no dispatcher switch in " + path)
    # body of the switch: balanced braces
    i = txt.index("{", m.end())
    depth, j = 0, i
    while True:
        if txt[j] == "{":
            depth += 1
        elif txt[j] == "}":
            depth -= 1
            if depth == 0:
                break
        j += 1
    body = txt[i + 1:j]
    parts = re.split(r"(case\s+InclParam::\w+\s*:|default\s*:)", body)
    cases = []
    default_throws = False
    for k in range(1, len(parts), 2):
        label, code = parts[k], parts[k + 1]
        if label.startswith("default"):
            default_throws = "throw" in code and "NotImplementedException" in code
            continue
        name = re.match(r"case\s+InclParam::(\w+)", label).group(1)
        ret = re.search(r"return\s+([^;]*);", code, flags=re.S)
        call = ret.group(1) if ret else ""
        callee, functor, order = "unknown", "-", "-"
        if "ExplicitUpwardInclusion::Check" in call:
            callee = "explUp"
        elif "ExplicitDownwardInclusion::Check" in call:
            callee = "explDownNonrec"
        elif "CheckDownwardTreeInclusion" in call:
            callee = "downRec"
            fm = re.search(r"VATA::(\w*DownwardInclusionFunctor)", call)
            functor = fm.group(1) if fm else "?"
        elif "CheckUpwardTreeInclusion" in call:
            callee = "bddUp"
            fm = re.search(r"VATA::(\w+)\s*>", call)
            functor = fm.group(1) if fm else "?"
        elif "CheckFiniteAutInclusion" in call:
            fm = re.search(r"typedef\s+VATA::(ExplicitFA\w+)\s*<[^;]*>\s*FunctorType\s*;", code)
            functor = fm.group(1) if fm else "?"
            callee = "faAntichain" if functor == "ExplicitFAInclusionFunctorCache" else (
                "faCongr" if functor == "ExplicitFACongrFunctorCacheOpt" else ("faCongrEquiv" if functor == "ExplicitFACongrEquivFunctor" else "faOther"))
            om = re.search(r"ProductStateSet(Depth|Breadth)", code)
            order = om.group(1).lower() if om else "-"
        elif "BDDTDTreeAutCore::CheckInclusion" in call or (
                re.search(r"bool\s+result\s*=\s*BDDTDTreeAutCore::CheckInclusion\s*\(\s*smallertd\s*,\s*biggertd\s*,\s*ip\s*\)", code)
                and call.strip() == "result"):
            # sanitise, union, downward simulation, conversion to top-down, recursive downward check with that relation
            callee = "viaTopDown"
            fl = []
            for setter, val in re.findall(r"ip\.(Set\w+)\(([^)]*)\)", code):
                fl.append(setter + "=" + val.replace("InclParam::", "").replace("e_algorithm::", "").replace("e_direction::", "").strip())
            functor = ";".join(x for x in fl if not x.startswith("SetSimulation"))
        args = re.search(r"\(\s*(\w+)\s*,\s*(\w+)\s*,\s*([^)]*\)?)\s*\)\s*$", call.strip(), flags=re.S)
        sanit, rel = "?", "?"
        if args:
            a1, a2, a3 = args.group(1), args.group(2), args.group(3)
            sanit = "true" if (a1.startswith("new") and a2.startswith("new")) else ("false" if (a1 == "smaller" and a2 == "bigger") else "?")
            rel = "identity" if "Identity(states)" in a3 else ("given" if "GetSimulation()" in a3 else "?")
        if callee == "viaTopDown":
            sanit, rel = "true", "computed"
        if name not in words:
            raise ValueError(f"unknown option word {name} in {path}")
        cases.append(dict(name=name, word=words[name], callee=callee, functor=functor, order=order, sanitized=sanit, rel=rel))
    return cases, default_throws


def lean_str(s):
    return '"' + s.replace("\\", "\\\\").replace('"', '\\"') + '"'


def render(flags, words, tables, errors):
    out = []
    out.append("/-! GENERATED by tools/extract_tables.py from /repo's sources on every run – do not edit. -/")
    out.append("namespace Vata.Gen\n")
    out.append("structure Case where\n  name : String\n  word : Nat\n  callee : String\n  functor : String\n  order : String\n"
               "  sanitized : String\n  rel : String\nderiving DecidableEq, Repr\n")
    out.append("/-- translator diagnostics: empty when every source was parsed -/")
    out.append("def parseErrors : List String := [" + ", ".join(lean_str(e) for e in errors) + "]\n")
    out.append("def flags : List (String × Nat) := [" + ", ".join(f"({lean_str(k)}, {v})" for k, v in sorted(flags.items())) + "]\n")
    out.append("def namedWords : List (String × Nat) := [" + ", ".join(f"({lean_str(k)}, {v})" for k, v in sorted(words.items())) + "]\n")
    for tname, (cases, dthrows) in tables.items():
        out.append(f"def {tname} : List Case := [")
        out.append(",\n".join(
            f"  ⟨{lean_str(c['name'])}, {c['word']}, {lean_str(c['callee'])}, {lean_str(c['functor'])}, {lean_str(c['order'])}, "
            f"{lean_str(c['sanitized'])}, {lean_str(c['rel'])}⟩" for c in cases))
        out.append("]\n")
        out.append(f"def {tname}DefaultThrows : Bool := {'true' if dthrows else 'false'}\n")
    out.append("end Vata.Gen")
    return "\n".join(out) + "\n"


def regenerate(repo, dst):
    errors = []
    flags, words, tables = {}, {}, {}
    try:
        flags, words = parse_flags(repo)
    except Exception as e:  # noqa
        errors.append("incl_param.hh: " + str(e))
    for tname, rel in [("explDispatch", "src/explicit_tree_incl.cc"), ("tdDispatch", "src/bdd_td_tree_aut_incl.cc"),
                       ("buDispatch", "src/bdd_bu_tree_aut_incl.cc"), ("faDispatch", "src/explicit_finite_incl.cc")]:
        try:
            tables[tname] = parse_dispatch(os.path.join(repo, rel), words)
        except Exception as e:  # noqa
            errors.append(rel + ": " + str(e))
            tables[tname] = ([], False)
    txt = render(flags, words, tables, errors)
    os.makedirs(os.path.dirname(dst), exist_ok=True)
    old = open(dst).read() if os.path.exists(dst) else None
    if old != txt:
        open(dst, "w").write(txt)
        return "Generated/Tables.lean regenerated (changed)\n"
    return "Generated/Tables.lean regenerated (unchanged)\n"


if __name__ == "__main__":
    here = os.path.dirname(os.path.dirname(os.path.abspath(__file__)))
    print(regenerate(os.environ.get("VERIF_REPO", "/repo"), os.path.join(here, "lean", "Vata", "Generated", "Tables.lean")))
