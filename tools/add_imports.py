#!/usr/bin/env python3
"""add_imports.py <module>... : adds `import <module>` lines to lean/Vata.lean (property modules at the end, the others before
`import Vata.Proofs.PropAux`), keeping the order given; modules already imported are skipped."""
import os, sys
here = os.path.dirname(os.path.dirname(os.path.abspath(__file__)))
p = os.path.join(here, "lean", "Vata.lean")
lines = open(p).read().split("\n")
while lines and lines[-1] == "":
    lines.pop()
for m in sys.argv[1:]:
    l = "import " + m
    if l in lines:
        continue
    if m.startswith("Vata.Properties."):
        lines.append(l)
    else:
        i = lines.index("import Vata.Proofs.PropAux")
        lines.insert(i, l)
open(p, "w").write("\n".join(lines) + "\n")
