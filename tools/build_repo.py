#!/usr/bin/env python3
"""Build /repo's *current working tree* (hooks on, ASan+UBSan) into a cache under /verif/.work and link vharness.

Usage (library): from build_repo import ensure_build; paths = ensure_build()
Returns dict(dir=..., harness=..., vata=..., hash=..., built=bool, wall_s=...).
The cache key is a hash of every source file the build reads, so identical trees are built once and shared by all
checks; an edited tree is rebuilt.  Only the two most recent build trees are kept.
"""
import fcntl, hashlib, os, re, shutil, subprocess, sys, time

VERIF = os.path.dirname(os.path.dirname(os.path.abspath(__file__)))
REPO = os.environ.get("VERIF_REPO", "/repo")
WORK = os.path.join(VERIF, ".work")
SRC_DIRS = ["src", "include", "cli", "cmake"]
TOP_FILES = ["CMakeLists.txt", "Doxyfile.in"]
FLAVOURS = {
    # no sanitizers: for the valgrind-memcheck pass of C20's thorough tier (uninitialised values, which ASan does not see)
    "plain": "-O1 -g1 -DNDEBUG -DVATA_VERIF -fno-omit-frame-pointer -Wno-error",
    # what users run: NDEBUG as in the shipped configuration, sanitizers on, uninitialised locals poisoned
    "asan": "-O1 -g1 -DNDEBUG -DVATA_VERIF -fsanitize=address,undefined -fno-sanitize-recover=all "
            "-ftrivial-auto-var-init=pattern -fno-omit-frame-pointer -Wno-error",
}


def tree_hash():
    h = hashlib.sha256()
    files = []
    for d in SRC_DIRS:
        for root, dirs, fs in os.walk(os.path.join(REPO, d)):
            dirs.sort()
            for f in sorted(fs):
                files.append(os.path.join(root, f))
    for f in TOP_FILES:
        files.append(os.path.join(REPO, f))
    return _hash_files(h, files)


def harness_files():
    fs = [os.path.join(VERIF, "harness", "vharness.cc")]
    ops = os.path.join(VERIF, "harness", "ops")
    if os.path.isdir(ops):
        fs += [os.path.join(ops, f) for f in sorted(os.listdir(ops)) if f.endswith(".inc")]
    return fs


def harness_hash():
    return _hash_files(hashlib.sha256(), harness_files())


def _hash_files(h, files):
    for p in files:
        try:
            with open(p, "rb") as fh:
                data = fh.read()
        except OSError:
            continue
        h.update(os.path.relpath(p, "/").encode())
        h.update(b"\0")
        h.update(hashlib.sha256(data).digest())
    return h.hexdigest()[:16]


def run(cmd, cwd=None, log=None):
    p = subprocess.run(cmd, cwd=cwd, shell=isinstance(cmd, str), stdout=subprocess.PIPE, stderr=subprocess.STDOUT, text=True)
    if log:
        with open(log, "a") as fh:
            fh.write(f"$ {cmd}\n{p.stdout}\n")
    return p.returncode, p.stdout


def ensure_build(flavour="asan"):
    os.makedirs(WORK, exist_ok=True)
    t0 = time.time()
    lock = open(os.path.join(WORK, "build.lock"), "w")
    fcntl.flock(lock, fcntl.LOCK_EX)
    try:
        hsh = tree_hash()
        hh = harness_hash()
        d = os.path.join(WORK, f"repo-{hsh}-{flavour}")
        harness = os.path.join(d, f"vharness-{hh}")
        vata = os.path.join(d, "b", "cli", "vata")
        res = dict(dir=d, harness=harness, vata=vata, hash=hsh + "+" + hh, built=False, log=os.path.join(d, "build.log"))
        src = os.path.join(d, "src")
        flags = FLAVOURS[flavour]
        log = res["log"]

        def link_harness():
            lib = os.path.join(d, "b", "src", "libvata.a")
            hsrc = os.path.join(VERIF, "harness", "vharness.cc")
            disabled = []
            for attempt in range(4):
                defs = " ".join(f"-DVH_NO_{k.upper()}" for k in disabled)
                cmd = (f"g++ -std=c++11 {flags} {defs} -Wno-deprecated-declarations -I{src}/include -I{src}/src -I{src} "
                       f"{hsrc} {lib} -o {harness}.tmp && mv {harness}.tmp {harness}")
                rc, out = run(cmd, log=log)
                if rc == 0:
                    break
                # the histories on utility classes (harness/ops/op_<kind>.inc) look inside those classes: when one of them no
                # longer compiles against the tree under test only ITS kind is switched off (its cases are then reported as a
                # broken correspondence), the rest of the harness keeps working
                bad = sorted(set(re.findall(r"ops/op_(\w+)\.inc:\d+:\d+: error", out)) - set(disabled))
                if not bad:
                    raise RuntimeError("harness build failed:\n" + out[-6000:])
                disabled += bad
                res["harness_errors"] = res.get("harness_errors", "") + out[-1500:]
            else:
                raise RuntimeError("harness build failed:\n" + out[-6000:])
            with open(harness + ".disabled", "w") as fh:
                fh.write(" ".join(disabled))
            for old in os.listdir(d):
                if old.startswith("vharness-") and not old.startswith(os.path.basename(harness)) and not old.endswith(".tmp"):
                    try:
                        os.remove(os.path.join(d, old))
                    except OSError:
                        pass

        if os.path.exists(os.path.join(d, "OK")):
            os.utime(d)
            if not os.path.exists(harness):
                link_harness()               # only the harness sources changed: the library tree is reused
                res["built"] = True
            res["wall_s"] = time.time() - t0
            return res
        if os.path.exists(d):
            shutil.rmtree(d)
        os.makedirs(d)
        os.makedirs(src)
        for sd in SRC_DIRS:
            shutil.copytree(os.path.join(REPO, sd), os.path.join(src, sd))
        for f in TOP_FILES:
            shutil.copy(os.path.join(REPO, f), os.path.join(src, f))
        # the top-level CMakeLists adds tests/ and unit_tests/; give it empty ones (we build only libvata and vata)
        for sub in ["tests", "unit_tests", "examples", "python_interface"]:
            os.makedirs(os.path.join(src, sub), exist_ok=True)
            with open(os.path.join(src, sub, "CMakeLists.txt"), "w") as fh:
                fh.write("")
        link = "-fsanitize=address,undefined" if "fsanitize" in flags else ""
        rc, out = run(["cmake", "-G", "Ninja", "-S", src, "-B", os.path.join(d, "b"), "-DCMAKE_BUILD_TYPE=None",
                       f"-DCMAKE_CXX_FLAGS={flags}", f"-DCMAKE_EXE_LINKER_FLAGS={link}"], log=log)
        if rc != 0:
            raise RuntimeError("cmake configure failed:\n" + out[-3000:])
        rc, out = run(["ninja", "-C", os.path.join(d, "b"), "-j16", "libvata", "vata"], log=log)
        if rc != 0:
            raise RuntimeError("build of /repo's working tree failed:\n" + out[-4000:])
        link_harness()
        open(os.path.join(d, "OK"), "w").write(hsh)
        res["built"] = True
        # keep the five most recent trees
        trees = sorted((p for p in os.listdir(WORK) if p.startswith("repo-")),
                       key=lambda p: os.path.getmtime(os.path.join(WORK, p)), reverse=True)
        for old in trees[5:]:
            shutil.rmtree(os.path.join(WORK, old), ignore_errors=True)
        res["wall_s"] = time.time() - t0
        return res
    finally:
        fcntl.flock(lock, fcntl.LOCK_UN)
        lock.close()


if __name__ == "__main__":
    r = ensure_build()
    print(r)
