#!/usr/bin/env python3
"""Build /repo's *current working tree* (hooks on, ASan+UBSan) into a cache under /verif/.work and link vharness.

Usage (library): from build_repo import ensure_build; paths = ensure_build()
Returns dict(dir=..., harness=..., vata=..., hash=..., built=bool, wall_s=...).
The cache key is a hash of every source file the build reads, so identical trees are built once and shared by all
checks; an edited tree is rebuilt.  Only the two most recent build trees are kept.
"""
import fcntl, hashlib, os, shutil, subprocess, sys, time

VERIF = os.path.dirname(os.path.dirname(os.path.abspath(__file__)))
REPO = os.environ.get("VERIF_REPO", "/repo")
WORK = os.path.join(VERIF, ".work")
SRC_DIRS = ["src", "include", "cli", "cmake"]
TOP_FILES = ["CMakeLists.txt", "Doxyfile.in"]
FLAVOURS = {
    # no sanitizers: for the valgrind-memcheck pass of C20's thorough tier (uninitialised values, which ASan does not see)
    "plain": "-O1 -g1 -DNDEBUG -DVATA_VERIF -fno-omit-frame-pointer -Wno-error",
    # what users run: NDEBUG as in the shipped configuration, sanitizers on, uninitialised locals poisoned
    "asan": "-O1 -g1 -DNDEBUG -DVATA_VERIF -fsanitize=address,undefined -fno-sanitize-recover=all "
            "-ftrivial-auto-var-init=pattern -fno-omit-frame-pointer -Wno-error",
}


def tree_hash():
    h = hashlib.sha256()
    files = []
    for d in SRC_DIRS:
        for root, dirs, fs in os.walk(os.path.join(REPO, d)):
            dirs.sort()
            for f in sorted(fs):
                files.append(os.path.join(root, f))
    for f in TOP_FILES:
        files.append(os.path.join(REPO, f))
    for extra in [os.path.join(VERIF, "harness", "vharness.cc")]:
        files.append(extra)
    for p in files:
        try:
            with open(p, "rb") as fh:
                data = fh.read()
        except OSError:
            continue
        h.update(os.path.relpath(p, "/").encode())
        h.update(b"\0")
        h.update(hashlib.sha256(data).digest())
    return h.hexdigest()[:16]


def run(cmd, cwd=None, log=None):
    p = subprocess.run(cmd, cwd=cwd, shell=isinstance(cmd, str), stdout=subprocess.PIPE, stderr=subprocess.STDOUT, text=True)
    if log:
        with open(log, "a") as fh:
            fh.write(f"$ {cmd}\n{p.stdout}\n")
    return p.returncode, p.stdout


def ensure_build(flavour="asan"):
    os.makedirs(WORK, exist_ok=True)
    t0 = time.time()
    lock = open(os.path.join(WORK, "build.lock"), "w")
    fcntl.flock(lock, fcntl.LOCK_EX)
    try:
        hsh = tree_hash()
        d = os.path.join(WORK, f"repo-{hsh}-{flavour}")
        harness = os.path.join(d, "vharness")
        vata = os.path.join(d, "b", "cli", "vata")
        res = dict(dir=d, harness=harness, vata=vata, hash=hsh, built=False, log=os.path.join(d, "build.log"))
        if os.path.exists(os.path.join(d, "OK")):
            os.utime(d)
            res["wall_s"] = time.time() - t0
            return res
        if os.path.exists(d):
            shutil.rmtree(d)
        os.makedirs(d)
        src = os.path.join(d, "src")
        os.makedirs(src)
        for sd in SRC_DIRS:
            shutil.copytree(os.path.join(REPO, sd), os.path.join(src, sd))
        for f in TOP_FILES:
            shutil.copy(os.path.join(REPO, f), os.path.join(src, f))
        # the top-level CMakeLists adds tests/ and unit_tests/; give it empty ones (we build only libvata and vata)
        for sub in ["tests", "unit_tests", "examples", "python_interface"]:
            os.makedirs(os.path.join(src, sub), exist_ok=True)
            with open(os.path.join(src, sub, "CMakeLists.txt"), "w") as fh:
                fh.write("")
        log = res["log"]
        flags = FLAVOURS[flavour]
        link = "-fsanitize=address,undefined" if "fsanitize" in flags else ""
        rc, out = run(["cmake", "-G", "Ninja", "-S", src, "-B", os.path.join(d, "b"), "-DCMAKE_BUILD_TYPE=None",
                       f"-DCMAKE_CXX_FLAGS={flags}", f"-DCMAKE_EXE_LINKER_FLAGS={link}"], log=log)
        if rc != 0:
            raise RuntimeError("cmake configure failed:\n" + out[-3000:])
        rc, out = run(["ninja", "-C", os.path.join(d, "b"), "-j16", "libvata", "vata"], log=log)
        if rc != 0:
            raise RuntimeError("build of /repo's working tree failed:\n" + out[-4000:])
        lib = os.path.join(d, "b", "src", "libvata.a")
        hsrc = os.path.join(VERIF, "harness", "vharness.cc")
        cmd = (f"g++ -std=c++11 {flags} -Wno-deprecated-declarations -I{src}/include -I{src}/src -I{src} "
               f"{hsrc} {lib} -o {harness}")
        rc, out = run(cmd, log=log)
        if rc != 0:
            raise RuntimeError("harness build failed:\n" + out[-6000:])
        open(os.path.join(d, "OK"), "w").write(hsh)
        res["built"] = True
        # keep the five most recent trees
        trees = sorted((p for p in os.listdir(WORK) if p.startswith("repo-")),
                       key=lambda p: os.path.getmtime(os.path.join(WORK, p)), reverse=True)
        for old in trees[5:]:
            shutil.rmtree(os.path.join(WORK, old), ignore_errors=True)
        res["wall_s"] = time.time() - t0
        return res
    finally:
        fcntl.flock(lock, fcntl.LOCK_UN)
        lock.close()


if __name__ == "__main__":
    r = ensure_build()
    print(r)
