#!/usr/bin/env python3
"""Case generator for the `bddsim` kind: `bddsim <A> <n> <mode> [<B>]` (see harness/op_bddsim.inc).

`g_bddsim(rng)` returns one case string; every random choice derives from the `random.Random` passed in.
`python3 gen_bddsim.py N SEED` prints N cases with ids (`C <id> bddsim …`).

The automata are built to reach every branch of `BDDBUTreeAutCore::ComputeDownwardSimulation(size)`:
  * states WITHOUT a top-down entry (non-final, never a child: the double loop skips them, their counters stay 0 and wrap),
    states without rules that occur as children (simulated by everything visited), final states without rules;
  * clones (simulation-equivalent states), weakened clones (strictly simulated), near-clones that differ deep below, so
    that pairs are cut in the refinement loop, not in the initial pass, and the cuts cascade (chains, long runs);
  * several arities, equal / different symbols on the same children tuple, one symbol with several arities (`add` only),
    symbols that use the high bits of the 16-bit encoding (`add` only), duplicate rules in the token;
  * empty automaton, rules only, final states only; matrix size n = number of states, larger, and around the row sizes
    16 / 32 of `BinaryRelation`; state numbers with gaps;
  * mode `useless`: the simulation on `RemoveUselessStates()` of an automaton with useless states (the table keeps keys
    whose MTBDD became empty); mode `pipe`: the route of the bottom-up inclusion "downward + simulation" – two related
    operands are sanitised, united, and the simulation is computed with the returned number of states.
"""
import random
import sys

LOW_SYMS = [0, 1, 2, 3, 4, 5, 6, 7]
HIGH_SYMS = [255, 256, 4096, 32768, 65535, 43690]


def tok(rules, finals):
    rs = ";".join(f"{f}:{','.join(map(str, ks))}>{p}" for (f, ks, p) in rules)
    return rs + "|" + ",".join(map(str, finals))


def ranked_alpha(rng, multi_rank):
    """list of (symbol, rank); with multi_rank one symbol may appear with several ranks"""
    nleaf = rng.randint(1, 3)
    ninner = rng.randint(1, 3)
    syms = rng.sample(LOW_SYMS, nleaf + ninner)
    alpha = [(s, 0) for s in syms[:nleaf]]
    for s in syms[nleaf:]:
        alpha.append((s, rng.choice([1, 1, 2, 2, 3])))
    if multi_rank:
        for _ in range(rng.randint(1, 2)):
            s, r = rng.choice(alpha)
            r2 = rng.choice([x for x in (0, 1, 2, 3) if x != r])
            alpha.append((s, r2))
    return alpha


def layered(rng, alpha, nstates):
    """bottom-up built automaton: every state gets rules over earlier states (mostly useful states)"""
    leaves = [a for a in alpha if a[1] == 0]
    inner = [a for a in alpha if a[1] > 0]
    rules = []
    states = list(range(nstates))
    nl = max(1, rng.randint(1, max(1, nstates // 2)))
    for q in states[:nl]:
        for a in rng.sample(leaves, rng.randint(1, len(leaves))):
            rules.append((a[0], (), q))
    for q in states[nl:]:
        for _ in range(rng.randint(1, 3)):
            if not inner:
                break
            a = rng.choice(inner)
            pool = states[:q] if rng.random() < 0.8 else states
            rules.append((a[0], tuple(rng.choice(pool) for _ in range(a[1])), q))
        if rng.random() < 0.2 and leaves:
            rules.append((rng.choice(leaves)[0], (), q))
    return rules


def clone_state(rng, rules, src, dst, how):
    """give dst (a variant of) the rules of src"""
    mine = [r for r in rules if r[2] == src]
    out = []
    for (f, ks, _) in mine:
        if how == "weaker" and rng.random() < 0.4 and len(mine) > 1:
            continue
        out.append((f, ks, dst))
    return out


def g_structured(rng, multi_rank):
    alpha = ranked_alpha(rng, multi_rank)
    n0 = rng.randint(2, 6)
    rules = layered(rng, alpha, n0)
    nxt = n0
    # clones at the bottom / in the middle, then parents over the clones: equivalences and strict pairs propagate upwards
    for _ in range(rng.randint(0, 3)):
        src = rng.randrange(nxt)
        how = rng.choice(["equal", "weaker", "near"])
        new = clone_state(rng, rules, src, nxt, how)
        if how == "near" and new:
            # change one child of one rule: the difference shows only after refinement
            i = rng.randrange(len(new))
            f, ks, p = new[i]
            if ks:
                j = rng.randrange(len(ks))
                ks = ks[:j] + (rng.randrange(nxt),) + ks[j + 1:]
                new[i] = (f, ks, p)
        rules += new
        # use the clone wherever the original is used, in copies of the using rules with a fresh or an old parent
        users = [r for r in rules if src in r[1]]
        for (f, ks, p) in rng.sample(users, min(len(users), rng.randint(0, 2))):
            ks2 = tuple(nxt if (k == src and rng.random() < 0.7) else k for k in ks)
            rules.append((f, ks2, p if rng.random() < 0.5 else rng.randrange(nxt + 1)))
        nxt += 1
    states = list(range(nxt))
    finals = []
    r = rng.random()
    if r < 0.75:
        finals = rng.sample(states, rng.randint(1, max(1, len(states) // 2)))
    elif r < 0.9:
        finals = list(states)
    # a final state / a child without rules, a parent-only non-final state
    if rng.random() < 0.3:
        finals.append(nxt); nxt += 1
    if rng.random() < 0.35:
        inner = [a for a in alpha if a[1] > 0]
        if inner:
            a = rng.choice(inner)
            ks = tuple(rng.randrange(nxt + 1) if rng.random() < 0.6 else nxt for _ in range(a[1]))
            rules.append((a[0], ks, rng.randrange(nxt + 1)))
            nxt += 1
    if rng.random() < 0.35:
        a = rng.choice(alpha)
        rules.append((a[0], tuple(rng.randrange(nxt) for _ in range(a[1])), nxt))
        nxt += 1
    if rng.random() < 0.15 and rules:
        rules.append(rng.choice(rules))       # duplicate rule
    return rules, finals


def g_chain(rng):
    """two unary chains over the same symbols that differ only at the bottom: the cut cascades up the chains"""
    k = rng.randint(2, 6)
    a, b, u = rng.sample(LOW_SYMS, 3)
    rules = [(a, (), 0), (a, (), k + 1)]
    r = rng.random()
    if r < 0.5:
        rules.append((b, (), k + 1))           # right bottom is stronger
    elif r < 0.75:
        rules.append((b, (), 0))               # left bottom is stronger
    for i in range(k):
        rules.append((u, (i,), i + 1))
        rules.append((u, (k + 1 + i,), k + 2 + i))
        if rng.random() < 0.25:
            rules.append((u, (i,), i))        # loop
    finals = [k, 2 * k + 1] if rng.random() < 0.8 else [k]
    if rng.random() < 0.4:
        # binary top over both chains
        c = rng.choice([x for x in LOW_SYMS if x not in (a, b, u)])
        top = 2 * k + 2
        rules.append((c, (k, 2 * k + 1), top))
        rules.append((c, (2 * k + 1, k), top))
        finals = [top]
    return rules, finals


def g_random(rng, multi_rank):
    """sparse random rules: dead children, parent-only states, states that only occur as children"""
    alpha = ranked_alpha(rng, multi_rank)
    n = rng.randint(1, 7)
    rules = []
    for _ in range(rng.randint(0, 2 * n + 2)):
        a = rng.choice(alpha)
        rules.append((a[0], tuple(rng.randrange(n) for _ in range(a[1])), rng.randrange(n)))
    finals = rng.sample(range(n), rng.randint(0, min(n, 3)))
    return rules, finals


def g_same_tuple(rng):
    """several symbols on the same children tuples, parents that differ in the symbol sets"""
    n = rng.randint(2, 4)
    syms = rng.sample(LOW_SYMS, 4)
    rules = [(syms[0], (), q) for q in range(n)]
    tuples = [tuple(rng.randrange(n) for _ in range(rng.choice([1, 2]))) for _ in range(rng.randint(1, 3))]
    ranks = {}
    nxt = n
    for _ in range(rng.randint(2, 5)):
        for t in tuples:
            for s in syms[1:]:
                if ranks.setdefault(s, len(t)) != len(t):
                    continue
                if rng.random() < 0.5:
                    rules.append((s, t, nxt))
        nxt += 1
    finals = rng.sample(range(nxt), rng.randint(1, nxt))
    return rules, finals


def relabel(rng, rules, finals, high_syms, gaps):
    sy = sorted({r[0] for r in rules})
    smap = {s: s for s in sy}
    if high_syms:
        for s in sy:
            if rng.random() < 0.5:
                smap[s] = rng.choice([h for h in HIGH_SYMS if h not in smap.values()] or [s])
    st = sorted({q for r in rules for q in (r[2],) + tuple(r[1])} | set(finals))
    qmap = {q: q for q in st}
    if gaps and st:
        span = len(st) + rng.randint(1, 6)
        qmap = dict(zip(st, sorted(rng.sample(range(span), len(st)))))
    if rng.random() < 0.5:
        # permute the numbers (the hash order of the states changes with them)
        vals = list(qmap.values())
        rng.shuffle(vals)
        qmap = dict(zip(st, vals))
    rules = [(smap[f], tuple(qmap[k] for k in ks), qmap[p]) for (f, ks, p) in rules]
    finals = [qmap[q] for q in finals]
    return rules, finals


def variant(rng, rules, finals):
    """a related second operand: some rules dropped / re-targeted / added, final states varied"""
    st = sorted({q for r in rules for q in (r[2],) + tuple(r[1])} | set(finals))
    out = []
    for (f, ks, p) in rules:
        x = rng.random()
        if x < 0.15:
            continue
        if x < 0.3 and st:
            p = rng.choice(st)
        elif x < 0.4 and ks and st:
            j = rng.randrange(len(ks))
            ks = ks[:j] + (rng.choice(st),) + ks[j + 1:]
        out.append((f, ks, p))
    fin = [q for q in finals if rng.random() < 0.8]
    if st and rng.random() < 0.4:
        fin.append(rng.choice(st))
    return out, fin


def g_bddsim(rng):
    x = rng.random()
    mode = "add" if x < 0.5 else "load" if x < 0.75 else "useless" if x < 0.85 else "pipe"
    multi_rank = mode == "add" and rng.random() < 0.4
    r = rng.random()
    if r < 0.02:
        rules, finals = [], []
    elif r < 0.04:
        rules, finals = [], rng.sample(range(4), rng.randint(1, 3))
    elif r < 0.54:
        rules, finals = g_structured(rng, multi_rank)
    elif r < 0.69:
        rules, finals = g_chain(rng)
    elif r < 0.84:
        rules, finals = g_random(rng, multi_rank)
    else:
        rules, finals = g_same_tuple(rng)
    if mode == "pipe":
        rb, fb = variant(rng, rules, finals) if rng.random() < 0.8 else (list(rules), list(finals))
        if rng.random() < 0.5:
            rules, finals, rb, fb = rb, fb, rules, finals
        if rng.random() < 0.5:
            rng.shuffle(rb)
        rb, fb = relabel(rng, rb, fb, False, rng.random() < 0.3)
        rules, finals = relabel(rng, rules, finals, False, rng.random() < 0.3)
        return f"bddsim {tok(rules, finals)} 0 pipe {tok(rb, fb)}"
    rules, finals = relabel(rng, rules, finals, mode == "add" and rng.random() < 0.2, rng.random() < 0.2)
    if rng.random() < 0.5:
        rng.shuffle(rules)
    mx = max([q for r_ in rules for q in (r_[2],) + tuple(r_[1])] + list(finals) + [-1])
    need = mx + 1
    x = rng.random()
    if x < 0.7:
        n = need
    elif x < 0.85:
        n = need + rng.randint(1, 4)
    else:
        n = max(need, rng.choice([15, 16, 17, 31, 32, 33]))
    return f"bddsim {tok(rules, finals)} {n} {mode}"


if __name__ == "__main__":
    count = int(sys.argv[1]) if len(sys.argv) > 1 else 10
    seed = int(sys.argv[2]) if len(sys.argv) > 2 else 1
    rng = random.Random(seed)
    for i in range(count):
        print(f"C s{seed}-{i} {g_bddsim(rng)}")
