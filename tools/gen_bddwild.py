# Unrestricted `bddh` histories (no table-family / number-block heuristic), run as kind `bddpre`: judged only INSIDE the exact
# sharing precondition of Vata/BddShare.lean (the driver evaluates it on the dumps), where the sharing model predicts every dump.
import random
from gen_core_shim import rand_ta, pick_alpha, mutate_ta  # noqa: F401


def wild(rng):
    enc = rng.choice(["bu", "td"])
    alpha = pick_alpha(rng)
    steps = []; live = []; nn = 0
    def new():
        nonlocal nn
        live.append(nn); nn += 1
    for _ in range(rng.randint(2, 3)):
        A = rand_ta(rng, alpha, nmax=3)
        steps.append(("defo!" if rng.random() < 0.3 else "def!") + A.tok()); new()
    for _ in range(rng.randint(3, 8)):
        c = rng.random(); i = rng.choice(live); j = rng.choice(live)
        if c < 0.12: steps.append(f"copy!{i}"); new()
        elif c < 0.17: steps.append(f"assign!{i}!{j}")
        elif c < 0.22 and len(live) > 2: steps.append(f"kill!{i}"); live.remove(i)
        elif c < 0.30: steps.append(f"loadinto!{i}!" + rand_ta(rng, alpha, nmax=2).tok())
        elif c < 0.42:
            q = rng.choice([100, 101, 102, 200, 201, 202, 300, 301, 0, 1, 2])
            steps.append(f"final!{i}!{q}")
        elif c < 0.55: steps.append(f"union!{i}!{j}"); new()
        elif c < 0.85: steps.append(f"uniondisj!{i}!{j}"); new()
        elif c < 0.90: steps.append(f"isect!{i}!{j}"); new()
        elif c < 0.95: steps.append(f"unreach!{i}"); new()
        else: steps.append(f"useless!{i}"); new()
    return f"bddpre {enc} " + " ".join(steps)


def g_bddpre(rng):
    return wild(rng)
