#!/usr/bin/env python3
"""Case generator for the `ltsutil` kind: histories of calls on the utility classes inside the LTS simulation engine.

    g_ltsutil(rng) -> "ltsutil <class> <parameters> <step> <step> ..."   (rng: random.Random; syntax: harness/op_ltsutil.inc)

    class ss  SmartSet                      class sc  SharedCounter + CachingArrayAllocator
    class sl  SharedList + 2 allocators     class sr  SplittingRelation            class ca  CachingAllocator alone

The generator keeps its own picture of the objects (python dicts / lists) only to AIM the calls and to stay inside the call
discipline of the engine (so that the real classes have defined behaviour): present / absent keys, first / inner / last
element of a SmartSet, first and later `set` in a counter row, `decr` down to zero, columns that hold the whole row, rows with
master 2, shared rows (copy on write) and rows released to the free list and recycled, labels that span several rows and
labels that share a row, shared / unshared list heads, recycled list nodes, relation cells erased at the head / tail of a
row and recycled by the next `split`.  Expected results are NOT generated here (the driver computes them).

Row-size boundaries of the counters: `getRowSize` gives 31 entries per row (63 from 4096 states on); 35 % of the `sc` cases use
rowSize 31 and 25 % rowSize 63, half of those with >= 40 resp. >= 70 keyed (label, state) pairs; the rest uses tiny rows
(1..8) so that short histories cross many row boundaries.

SmartSet: `erase()` of the class does not repair `last_` when the erased element is the last one, so the next insertion of a
NEW key writes through a dangling pointer (finding of task T36; the engine never does that).  LTSUTIL_SS selects:
    safe  (default)  no insertion of a new key after the last element was erased (until clear / assignFlat)
    full             any order (use after `erase` has been repaired, or to reproduce the finding: ASan aborts)
"""
import os
import random
import sys

SS_MODE = os.environ.get("LTSUTIL_SS", "safe")
U64 = 2 ** 64


def _lst(l):
    return ",".join(map(str, l)) if l else "-"


# ---------------------------------------------------------------------------------------------------- SmartSet
def _g_ss(rng):
    steps = []
    objs = []            # each: dict(items=[[key,count],...], range=R, dangling=bool)

    def new():
        r = rng.choice([0, 1, 2, 3, 4, 5, 6, 8, 12, 12, 40]) if rng.random() < 0.9 else rng.randint(1, 30)
        steps.append("new!%d" % r)
        objs.append(dict(items=[], range=r, dangling=False))

    new()
    if objs[0]["range"] == 0 or rng.random() < 0.5:
        new()
    n = rng.randint(4, 40)
    for _ in range(n):
        i = rng.randrange(len(objs))
        o = objs[i]
        keys = [kc[0] for kc in o["items"]]
        R = o["range"]
        absent = [k for k in range(R) if k not in keys]
        can_new = bool(absent) and (SS_MODE == "full" or not o["dangling"])
        r = rng.random()

        def erase(k):
            if o["items"] and o["items"][-1][0] == k:
                o["dangling"] = True
            o["items"] = [kc for kc in o["items"] if kc[0] != k]

        def rem(k):
            for kc in o["items"]:
                if kc[0] == k:
                    if kc[1] <= 1:
                        erase(k)
                    else:
                        kc[1] -= 1
                    return

        if r < 0.30:
            # add: new key / present key
            if can_new and (not keys or rng.random() < 0.6):
                k = rng.choice(absent)
                o["items"].append([k, 1])
            elif keys:
                k = rng.choice(keys)
                for kc in o["items"]:
                    if kc[0] == k:
                        kc[1] += 1
            else:
                continue
            steps.append("add!%d!%d" % (i, k))
        elif r < 0.52:
            # remove / removeStrict: present (first, inner, last), absent only for remove
            if keys and rng.random() < 0.85:
                w = rng.random()
                k = keys[0] if w < 0.25 else keys[-1] if w < 0.5 else rng.choice(keys)
                steps.append(("rms!%d!%d" if rng.random() < 0.5 else "rem!%d!%d") % (i, k))
                rem(k)
            elif absent:
                steps.append("rem!%d!%d" % (i, rng.choice(absent)))
            else:
                continue
        elif r < 0.62:
            # init(key, count)
            c = rng.choice([0, 0, 1, 2, 5])
            if c > 0:
                if keys and (not can_new or rng.random() < 0.4):
                    k = rng.choice(keys)
                    for kc in o["items"]:
                        if kc[0] == k:
                            kc[1] = c
                elif can_new:
                    k = rng.choice(absent)
                    o["items"].append([k, c])
                else:
                    continue
            else:
                if R == 0:
                    continue
                k = rng.choice(keys) if keys and rng.random() < 0.7 else rng.randrange(R)
                erase(k)
            steps.append("init!%d!%d!%d" % (i, k, c))
        elif r < 0.68:
            steps.append("clr!%d" % i)
            o["items"] = []
            o["dangling"] = False
        elif r < 0.78 and len(objs) >= 2:
            j = rng.choice([x for x in range(len(objs)) if x != i])
            steps.append("af!%d!%d" % (i, j))
            o["items"] = [[kc[0], 1] for kc in objs[j]["items"]]
            o["range"] = objs[j]["range"]
            o["dangling"] = False
        elif r < 0.84 and len(objs) < 5:
            steps.append("cp!%d" % i)
            objs.append(dict(items=[list(kc) for kc in o["items"]], range=R, dangling=False))
        elif r < 0.90:
            # assignment: the target must be empty (assert in operator=); sometimes self-assignment
            if rng.random() < 0.2:
                steps.append("asg!%d!%d" % (i, i))
            else:
                empties = [x for x in range(len(objs)) if not objs[x]["items"] and x != i]
                if not empties:
                    continue
                t = rng.choice(empties)
                steps.append("asg!%d!%d" % (t, i))
                objs[t]["items"] = [list(kc) for kc in o["items"]]
                objs[t]["range"] = R
                objs[t]["dangling"] = False
        elif len(objs) < 5:
            new()
    return "ltsutil ss " + " ".join(steps)


# ---------------------------------------------------------------------------------------------------- SharedCounter
def _g_sc(rng):
    r = rng.random()
    big = False
    if r < 0.35:
        rs = 31
        big = rng.random() < 0.55
        target = rng.randint(40, 90) if big else rng.randint(3, 39)
    elif r < 0.60:
        rs = 63
        big = rng.random() < 0.55
        target = rng.randint(70, 150) if big else rng.randint(3, 69)
    else:
        rs = rng.choice([1, 2, 2, 3, 3, 4, 5, 7, 8])
        target = rng.randint(2, 24)
    labels = rng.randint(1, 5)
    # spread the keyed pairs over the labels (some labels without any pair; not the first one when there is only one)
    weights = [rng.random() if rng.random() < 0.85 else 0.0 for _ in range(labels)]
    if sum(weights) == 0:
        weights[rng.randrange(labels)] = 1.0
    sizes = [int(round(target * w / sum(weights))) for w in weights]
    if big and sum(sizes) < (40 if rs == 31 else 70):
        sizes[sizes.index(max(sizes))] += (40 if rs == 31 else 70) - sum(sizes)
    if sum(sizes) == 0:
        sizes[0] = 1
    states = max(max(sizes), rng.randint(1, 6)) + rng.randint(0, 5)
    delta1 = [sorted(rng.sample(range(states), s)) for s in sizes]
    poison = rng.choice([0, 1, 2, 3, 5, 77, U64 - 1, 1, 2])
    # layout as the engine computes it
    key = {}
    label_map = []
    x = 0
    for a in range(labels):
        n = len(delta1[a])
        label_map.append((x // rs, ((x + n - 1) % U64) // rs + (1 if n else 0)))
        for q in delta1[a]:
            key[(a, q)] = x
            x += 1
    live_labels = [a for a in range(labels) if delta1[a]]

    steps = []
    cnts = []            # picture: None (destroyed) or dict(rows=n, val={idx: v}, inset=[labels], phase)
    budget = rng.randint(12, 70)

    def rows_for(inset):
        return max([label_map[a][1] for a in inset], default=0)

    def make_initial():
        inset = [a for a in live_labels if rng.random() < 0.7] or ([rng.choice(live_labels)] if rng.random() < 0.8 else [])
        steps.append("new")
        i = len(cnts)
        n = rows_for(inset)
        if rng.random() < 0.15:
            n += rng.randint(1, 2)
        steps.append("rsz!%d!%d" % (i, n))
        c = dict(rows=n, val={}, inset=inset, phase="filling")
        cnts.append(c)
        style = rng.random()
        for a in inset:
            for q in delta1[a]:
                # which counters are positive: dense, sparse (single column per row is likely), or none
                p = 0.9 if style < 0.45 else 0.35 if style < 0.8 else 0.08
                if rng.random() < p:
                    v = rng.choice([1, 1, 1, 2, 2, 3, 4])
                    steps.append("set!%d!%d!%d!%d" % (i, a, q, v))
                    c["val"][key[(a, q)]] = v
        steps.append("ini!%d" % i)
        c["phase"] = "running"

    make_initial()
    if rng.random() < 0.4:
        make_initial()

    def positive(c):
        return [(a, q) for a in c["inset"] for q in delta1[a] if c["val"].get(key[(a, q)], 0) > 0]

    def row_sum(c, row):
        return sum(v for idx, v in c["val"].items() if idx // rs == row)

    for _ in range(budget):
        alive = [i for i, c in enumerate(cnts) if c is not None]
        if not alive:
            break
        i = rng.choice(alive)
        c = cnts[i]
        r = rng.random()
        if r < 0.62:
            pos = positive(c)
            if not pos:
                continue
            w = rng.random()
            if w < 0.3:
                # aim: a column that holds the whole row, or a row whose master is 2
                cand = [(a, q) for (a, q) in pos if row_sum(c, key[(a, q)] // rs) in (c["val"][key[(a, q)]], 2)]
                a, q = rng.choice(cand or pos)
            elif w < 0.55:
                # aim: drive one counter down to zero
                a, q = min(pos, key=lambda aq: c["val"][key[aq]])
            else:
                a, q = rng.choice(pos)
            reps = 1 if rng.random() < 0.7 else min(c["val"][key[(a, q)]], rng.randint(2, 3))
            for _ in range(reps):
                steps.append("dec!%d!%d!%d" % (i, a, q))
                c["val"][key[(a, q)]] -= 1
        elif r < 0.86 and len(cnts) < 7:
            # split: new block copy-constructed from the parent, copyLabels of the labels of its inset
            if not c["inset"]:
                continue
            sub = [a for a in c["inset"] if rng.random() < 0.6] or [rng.choice(c["inset"])]
            if rng.random() < 0.1:
                sub = []
            rng.shuffle(sub)
            if sub and rng.random() < 0.15:
                sub.append(rng.choice(sub))          # a label twice: rowMask
            j = len(cnts)
            steps.append("cc!%d" % i)
            steps.append("cpl!%d!%d!%s" % (j, i, _lst(sub)))
            copied = set()
            for a in sub:
                lo, hi = label_map[a][0], min(c["rows"], label_map[a][1])
                copied.update(range(lo, hi))
            nrows = max(copied) + 1 if copied else 0
            cnts.append(dict(rows=nrows, val={idx: v for idx, v in c["val"].items() if idx // rs in copied},
                             inset=sorted(set(sub)), phase="running"))
        elif r < 0.94:
            steps.append("del!%d" % i)
            cnts[i] = None
        elif len(cnts) < 7:
            make_initial()
    # one call outside the discipline at the very end (defined for the real class as well: the rows are filled with the
    # poison by the allocator's initializer): decr of a counter that is zero in a row whose master is positive
    if rng.random() < 0.12:
        alive = [i for i, c in enumerate(cnts) if c is not None]
        if alive:
            i = rng.choice(alive)
            c = cnts[i]
            cand = [(a, q) for a in live_labels for q in delta1[a]
                    if key[(a, q)] // rs < c["rows"] and c["val"].get(key[(a, q)], 0) == 0 and row_sum(c, key[(a, q)] // rs) > 0]
            if cand:
                a, q = rng.choice(cand)
                steps.append("dec!%d!%d!%d" % (i, a, q))
    if rng.random() < 0.5:
        for i, c in enumerate(cnts):
            if c is not None and rng.random() < 0.7:
                steps.append("del!%d" % i)
    d = "/".join(_lst(dl) for dl in delta1)
    return "ltsutil sc rs=%d st=%d P=%d d=%s %s" % (rs, states, poison, d, " ".join(steps))


# ---------------------------------------------------------------------------------------------------- SharedList
def _g_sl(rng):
    n = rng.randint(1, 5)
    slots = [False] * n          # non-empty?
    detached = False
    steps = []
    val = 0
    for _ in range(rng.randint(5, 45)):
        r = rng.random()
        full = [s for s in range(n) if slots[s]]
        empty = [s for s in range(n) if not slots[s]]
        if r < 0.42:
            s = rng.choice(full) if full and rng.random() < 0.7 else rng.randrange(n)
            steps.append("app!%d!%d" % (s, val))
            val += 1
            slots[s] = True
        elif r < 0.60:
            if not full or not empty:
                continue
            s, t = rng.choice(full), rng.choice(empty)
            steps.append("cpy!%d!%d" % (s, t))
            slots[t] = True
        elif r < 0.68:
            if not empty:
                continue
            s = rng.choice(empty)
            l = list(range(val, val + rng.randint(1, 4)))
            val += len(l)
            steps.append("new!%d!%s" % (s, _lst(l)))
            slots[s] = True
        elif r < 0.86:
            if detached:
                steps.append("rel")
                detached = False
            elif full:
                s = rng.choice(full)
                steps.append("take!%d" % s)
                slots[s] = False
                detached = True
                # the copies made by split() happen while the list is detached
                for _ in range(rng.choice([0, 0, 1, 2])):
                    full2 = [x for x in range(n) if slots[x]]
                    empty2 = [x for x in range(n) if not slots[x]]
                    if full2 and empty2:
                        a, b = rng.choice(full2), rng.choice(empty2)
                        steps.append("cpy!%d!%d" % (a, b))
                        slots[b] = True
                if rng.random() < 0.85:
                    steps.append("rel")
                    detached = False
        else:
            steps.append("it!%d" % rng.randrange(n))
    if detached:
        steps.append("rel")
    # drain: take and release everything (as run() does until the queue is empty)
    if rng.random() < 0.6:
        for s in range(n):
            if slots[s]:
                steps.append("take!%d" % s)
                steps.append("rel")
    return "ltsutil sl n=%d %s" % (n, " ".join(steps))


# ---------------------------------------------------------------------------------------------------- SplittingRelation
def _g_sr(rng):
    m = rng.choice([1, 2, 3, 4, 5, 6, 8, 10, 12])
    n = rng.randint(1, m) if rng.random() < 0.85 else m
    if rng.random() < 0.3:
        n = min(n, 2)
    style = rng.random()
    rel = []
    for i in range(n):
        if style < 0.15:
            row = list(range(n))
        elif style < 0.3:
            row = [i]
        else:
            p = rng.random()
            row = [j for j in range(n) if j == i or rng.random() < p]
        rel.append(row)
    if n and rng.random() < 0.06:
        rel[rng.randrange(n)] = []                     # an empty row (the class copes although init() asserts)
    if rng.random() < 0.1:
        for row in rel:
            rng.shuffle(row)                            # row order is whatever the index says
    steps = ["init!" + ("/".join(_lst(r) if r else "_" for r in rel) if rel else "-")]
    for _ in range(rng.randint(2, 24)):
        size = len(rel)
        if size == 0:
            break
        r = rng.random()
        if r < 0.5 and size < m:
            refl = [i for i in range(size) if i in rel[i]]
            if not refl:
                continue
            i = rng.choice(refl)
            steps.append("spl!%d" % i)
            new = size
            old_row = list(rel[i])
            for row in rel:
                if i in row:
                    row.append(new)
            rel.append(old_row + [new])
        else:
            i = rng.randrange(size)
            row = rel[i]
            w = rng.random()
            if w < 0.15:
                mask = []
            elif w < 0.3 and row:
                mask = [row[-1]] if row[-1] != i else row[-2:-1]
            elif w < 0.42 and row:
                mask = [row[0]] if row[0] != i else row[1:2]
            elif w < 0.52:
                mask = [c for c in row if c != i]
            else:
                mask = [c for c in range(size) if c != i and rng.random() < 0.4]
            if rng.random() < 0.08:
                mask.append(i)                          # the diagonal (the engine never does; index i cannot be split later)
            if rng.random() < 0.2:
                mask += [c for c in range(m) if c not in row and rng.random() < 0.3]
            steps.append("er!%d!%s" % (i, _lst(mask)))
            rel[i] = [c for c in row if c not in mask]
    return "ltsutil sr m=%d %s" % (m, " ".join(steps))


# ---------------------------------------------------------------------------------------------------- CachingAllocator
def _g_ca(rng):
    t = rng.choice("oa")
    steps = []
    live = []
    nxt = 0
    free = []
    for _ in range(rng.randint(3, 30)):
        if live and rng.random() < 0.45:
            p = live.pop(rng.randrange(len(live)))
            steps.append("r!%d" % p)
            free.append(p)
        else:
            steps.append("a")
            if free:
                p = free.pop()
            else:
                p = nxt
                nxt += 1
            live.append(p)
    return "ltsutil ca t=%s %s" % (t, " ".join(steps))


def g_ltsutil(rng):
    r = rng.random()
    if r < 0.18:
        return _g_ss(rng)
    if r < 0.58:
        return _g_sc(rng)
    if r < 0.73:
        return _g_sl(rng)
    if r < 0.96:
        return _g_sr(rng)
    return _g_ca(rng)


if __name__ == "__main__":
    n = int(sys.argv[1]) if len(sys.argv) > 1 else 100
    seed = int(sys.argv[2]) if len(sys.argv) > 2 else 1
    only = sys.argv[3] if len(sys.argv) > 3 else None
    rng = random.Random(seed)
    fn = {"ss": _g_ss, "sc": _g_sc, "sl": _g_sl, "sr": _g_sr, "ca": _g_ca}.get(only, g_ltsutil)
    for i in range(n):
        print("C %d %s" % (i, fn(rng)))
