#!/bin/bash
# try_patch.sh <patch.diff> <prop> [n] : apply a seeded change to /repo, run the quick check, undo the change
set -u
patch=$1; prop=$2; n=${3:-}
git -C /repo apply "$patch" || { echo "patch does not apply"; exit 2; }
if [ -n "$n" ]; then python3 /verif/tools/check.py $prop --n $n; else python3 /verif/tools/check.py $prop; fi
rc=$?
git -C /repo checkout -- .
echo "check exit=$rc"
