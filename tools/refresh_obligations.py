#!/usr/bin/env python3
"""Refreshes lean/obligations.json: for every property the list of theorem names audited on every run =
all `theorem Cxx_…` of lean/Vata/Properties/*.lean (namespace Vata.Props) + the supporting theorems already listed
(names outside Vata.Props are kept as they are)."""
import glob, json, os, re
here = os.path.dirname(os.path.dirname(os.path.abspath(__file__)))
p = os.path.join(here, "lean", "obligations.json")
o = json.load(open(p))
found = {}
for f in sorted(glob.glob(os.path.join(here, "lean", "Vata", "Properties", "*.lean"))):
    txt = open(f).read()
    if "namespace Vata.Props" not in txt:
        continue
    # nested namespaces inside `namespace Vata.Props` (example namespaces that hold a Cxx theorem) are part of the name
    stack, inside = [], False
    for ln in txt.split("\n"):
        m = re.match(r"^namespace (\S+)", ln)
        if m:
            if m.group(1) == "Vata.Props":
                inside, stack = True, []
            elif inside:
                stack.append(m.group(1))
            continue
        m = re.match(r"^end (\S+)", ln)
        if m and inside:
            if m.group(1) == "Vata.Props":
                inside = False
            elif stack and stack[-1] == m.group(1):
                stack.pop()
            continue
        m = re.match(r"^theorem (C(\d\d)_\w+)", ln)
        if m and inside:
            found.setdefault("C" + m.group(2), []).append(".".join(["Vata.Props"] + stack + [m.group(1)]))
# theorems about the utility classes under the algorithms are audited with the properties whose checks run their histories
UTIL = {"OrdVector": ["C07", "C08", "C09"], "Antichain": ["C01", "C07", "C09"], "BinRel": ["C04", "C05", "C16"], "Cache": ["C01", "C07", "C09"], "Glue": ["C02", "C07", "C08", "C13"], "CliArgs": ["C01", "C07", "C09"], "LtsUtil": ["C04", "C16"]}
for f in sorted(glob.glob(os.path.join(here, "lean", "Vata", "Properties", "Util_*.lean"))):
    txt = open(f).read()
    for m in re.finditer(r"^theorem (Util_([A-Za-z]+)_\w+)", txt, flags=re.M):
        for k in UTIL.get(m.group(2), []):
            found.setdefault(k, []).append("Vata.Props." + m.group(1))
for k in sorted(set(o) | set(found)):
    extras = [n for n in o.get(k, []) if not n.startswith("Vata.Props.C") and not n.startswith("Vata.Props.Util_")]
    names = []
    for n in found.get(k, []) + extras:
        if n not in names:
            names.append(n)
    o[k] = names
json.dump(o, open(p, "w"), indent=1)
print({k: len(v) for k, v in o.items()}, "total", sum(len(v) for v in o.values()))
