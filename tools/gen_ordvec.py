#!/usr/bin/env python3
"""Case generator for the `ordvec` kind: histories over several live VATA::Util::OrdVector<size_t> objects.

    g_ordvec(rng) -> "ordvec <step> <step> ..."        (rng: random.Random; step syntax: harness/op_ordvec.inc)

The generator keeps its own picture of the sets (python sets) only to AIM the operations: hits and misses of `find`,
insert at the front / in the middle / at the back / of a present element, equal / subset / disjoint / overlapping
operands, self-assignment and `v.insert(v)`, empty containers, constructor inputs with duplicates, long vectors (deep
binary search), values at the ends of the size_t range.  Expected results are NOT generated here (the driver computes them).

`HaveEmptyIntersection` (`disj!i!j`): the member function as coded dereferences `end()` whenever the two sets are disjoint
and not both empty (finding of task T31; the harness evaluates it in a forked child).  DISJ_MODE (environment variable
ORDVEC_DISJ) selects what is generated:
    safe  (default)  only pairs on which the loop as coded stays inside the vectors (common element, or both empty)
    full             any pair (use after the loop condition has been repaired, or to reproduce the finding)
"""
import os
import random
import sys

DISJ_MODE = os.environ.get("ORDVEC_DISJ", "safe")
MAXOBJ = 6
BIG = [2**64 - 1, 2**64 - 2, 2**63, 2**63 - 1, 2**32, 2**32 - 1]


def _lst(l):
    return ",".join(map(str, l)) if l else "-"


def _universe(rng):
    r = rng.random()
    if r < 0.55:
        return list(range(0, rng.randint(4, 12)))                 # small, dense: many collisions
    if r < 0.8:
        return sorted(rng.sample(range(0, 60), rng.randint(6, 20)))
    if r < 0.92:
        return sorted(set(rng.sample(range(0, 200), rng.randint(10, 40))))
    return sorted(set(rng.sample(range(0, 30), 8) + rng.sample(BIG, rng.randint(1, 4)) + [0]))


def _rand_list(rng, uni, long_ok=True):
    """constructor input: unsorted, with duplicates, sometimes empty / sorted / reversed / constant / long"""
    r = rng.random()
    if r < 0.08:
        return []
    if r < 0.16:
        return [rng.choice(uni)] * rng.randint(1, 4)
    n = rng.randint(1, min(len(uni), 8))
    if long_ok and r > 0.9:
        n = min(len(uni), rng.randint(12, 40))
    l = rng.sample(uni, n)
    if rng.random() < 0.5:
        l += [rng.choice(l) for _ in range(rng.randint(1, 4))]     # duplicates
    s = rng.random()
    if s < 0.2:
        l.sort()
    elif s < 0.35:
        l.sort(reverse=True)
    else:
        rng.shuffle(l)
    return l


def _miss(rng, s, uni):
    """a value not in s: below the minimum, above the maximum, or in a gap"""
    cands = []
    if s:
        lo, hi = min(s), max(s)
        if lo > 0:
            cands.append(lo - 1)
            cands.append(0)
        if hi < 2**64 - 1:
            cands.append(hi + 1)
        cands += [x for x in uni if x not in s]
        cands += [x + 1 for x in s if x + 1 not in s and x + 1 < 2**64]
    else:
        cands = list(uni)
    cands = [c for c in cands if c not in s]
    return rng.choice(cands) if cands else None


def g_ordvec(rng):
    uni = _universe(rng)
    sets = []           # python picture of the live objects
    steps = []

    def ctor():
        r = rng.random()
        if r < 0.12:
            steps.append("new"); sets.append(set())
        elif r < 0.5:
            l = _rand_list(rng, uni); steps.append("vec!" + _lst(l)); sets.append(set(l))
        elif r < 0.65:
            l = _rand_list(rng, uni, long_ok=False)[:6]; steps.append("il!" + _lst(l)); sets.append(set(l))
        elif r < 0.8:
            l = _rand_list(rng, uni); steps.append("range!" + _lst(l)); sets.append(set(l))
        elif r < 0.9:
            x = rng.choice(uni); steps.append("key!%d" % x); sets.append({x})
        elif sets:
            # an aimed operand: subset / superset / disjoint / overlapping relative of an existing object
            i = rng.randrange(len(sets)); s = sorted(sets[i])
            k = rng.random()
            if k < 0.4 and s:
                l = rng.sample(s, rng.randint(0, len(s)))
            elif k < 0.7:
                l = s + [x for x in uni if rng.random() < 0.3]
            else:
                l = [x for x in uni if x not in sets[i] and rng.random() < 0.6]
            rng.shuffle(l)
            steps.append("vec!" + _lst(l)); sets.append(set(l))
        else:
            steps.append("new"); sets.append(set())

    def pick():
        return rng.randrange(len(sets))

    def pick2():
        i = pick()
        r = rng.random()
        if r < 0.15:
            return i, i
        # prefer a partner with a chosen relation when there is one
        others = list(range(len(sets)))
        rng.shuffle(others)
        want = rng.choice(["eq", "sub", "disj", "over", "any", "any"])
        for j in others:
            a, b = sets[i], sets[j]
            if want == "eq" and a == b and i != j: return i, j
            if want == "sub" and a <= b and a != b: return i, j
            if want == "disj" and not (a & b): return i, j
            if want == "over" and (a & b) and a != b: return i, j
        return i, rng.choice(others)

    def insert_value(i):
        s = sets[i]
        r = rng.random()
        if not s:
            return rng.choice(uni)
        if r < 0.2:
            return rng.choice(sorted(s))                 # present
        if r < 0.4 and max(s) < 2**64 - 1:
            return min(max(s) + rng.choice([1, 1, 2, 5]), 2**64 - 1)     # push_back path
        if r < 0.55 and min(s) > 0:
            return min(s) - 1 if rng.random() < 0.7 else 0   # front
        if r < 0.65:
            return sorted(s)[-1]                         # equal to the last element
        m = _miss(rng, s, uni)
        return m if m is not None else rng.choice(uni)

    for _ in range(rng.randint(1, 3)):
        ctor()
    n = rng.choice([4, 8, 12, 16, 20, 26])
    while len(steps) < n:
        r = rng.random()
        if r < 0.10 and len(sets) < MAXOBJ:
            ctor()
        elif r < 0.15 and len(sets) < MAXOBJ:
            i = pick(); steps.append("copy!%d" % i); sets.append(set(sets[i]))
        elif r < 0.22:
            i, j = pick2(); steps.append("assign!%d!%d" % (i, j)); sets[i] = set(sets[j])
        elif r < 0.47:
            i = pick()
            if rng.random() < 0.15:
                # a run of inserts: ascending (push_back), descending (front) or scattered
                mode = rng.choice(["up", "down", "mix"])
                base = rng.choice(uni)
                for t in range(rng.randint(3, 8)):
                    if len(steps) >= n + 6: break
                    if mode == "up": x = min(base + 2 * t, 2**64 - 1)
                    elif mode == "down": x = max(base - 2 * t, 0)
                    else: x = insert_value(i)
                    steps.append("ins!%d!%d" % (i, x)); sets[i].add(x)
            else:
                x = insert_value(i); steps.append("ins!%d!%d" % (i, x)); sets[i].add(x)
        elif r < 0.55:
            i, j = pick2(); steps.append("insall!%d!%d" % (i, j)); sets[i] |= sets[j]
        elif r < 0.63 and len(sets) < MAXOBJ:
            i, j = pick2(); steps.append("union!%d!%d" % (i, j)); sets.append(sets[i] | sets[j])
        elif r < 0.67:
            i = pick(); steps.append("clear!%d" % i); sets[i] = set()
        elif r < 0.80:
            i = pick(); s = sets[i]
            if s and rng.random() < 0.55:
                ss = sorted(s)
                x = rng.choice([ss[0], ss[-1], ss[len(ss) // 2], rng.choice(ss)])   # first / last / middle / any
            else:
                x = _miss(rng, s, uni)
                if x is None: x = rng.choice(uni)
            steps.append("find!%d!%d" % (i, x))
        elif r < 0.94:
            i, j = pick2(); steps.append("cmp!%d!%d" % (i, j))
        else:
            i, j = pick2()
            if DISJ_MODE != "full":
                ok = [(a, b) for a in range(len(sets)) for b in range(len(sets))
                      if (sets[a] & sets[b]) or (not sets[a] and not sets[b])]
                if not ok:
                    continue
                if (i, j) not in ok:
                    i, j = rng.choice(ok)
            steps.append("disj!%d!%d" % (i, j))
    return "ordvec " + " ".join(steps)


if __name__ == "__main__":
    n = int(sys.argv[1]) if len(sys.argv) > 1 else 10
    seed = int(sys.argv[2]) if len(sys.argv) > 2 else 1
    rng = random.Random(seed)
    for k in range(n):
        print("C ov%d_%d %s" % (seed, k, g_ordvec(rng)))
