#!/usr/bin/env python3
"""Case generator for the `glue` kind: histories over SymbolicVarAsgn, TwoWayDict<string,size_t> (StateDict), StateToStateMap,
the weak / strict translators, Convert::ToString / FromString and the two dictionary helpers of util.cc.

    g_glue(rng) -> "glue <step> <step> ..."        (rng: random.Random; step syntax: harness/op_glue.inc)

The generator keeps its own picture of the live objects (python lists / dicts, with the NDEBUG semantics of
TwoWayDict::Insert) only to AIM the operations and to stay inside what the harness executes: indices in range, no
`a.append(a)`, (size, number) constructor with size <= 32, at most 12 don't cares in a concretisation.  Expected results are
NOT generated here (the driver computes them from the Lean model).

Aimed at: empty assignments, the char boundaries of the packed representation (lengths 3,4,5,8,9), increments that carry /
wrap / meet a don't care, comparisons of equal and different lengths, concretisation with 0..6 don't cares, AddVariablesUpTo
that extends / does nothing; inserts of fresh / present keys / present values, hits and misses of every lookup, the
constructor from a map with and without repeated values, Union inside / outside its contract; every functor with both weak
translators (counter, container size, constant = not fresh), repeated keys in one call sequence, const translators that
throw; union helper with / without translation maps, with pruned states (no translation), with colliding values; product
helper with valid maps, unnamed components, colliding names (`a_1|b` + `c`  vs  `a` + `b_1|c`), colliding values;
FromString on white space / signs / leading zeros / range boundaries of int, unsigned, size_t / trailing garbage / empty.
"""
import os
import random
import sys

# CreateProductStringToStateMap gives different pairs of states the same name when names contain `_1|` (finding of task
# T34; the driver reports such a step).  GLUE_PRODNAMES selects what is generated:
#     safe  (default)  product maps whose names are pairwise different
#     full             also the colliding ones (use to reproduce the finding, or after the naming has been repaired)
PRODNAMES_MODE = os.environ.get("GLUE_PRODNAMES", "safe")

MAXA, MAXD, MAXM = 7, 6, 5
NAMES = ["a", "b", "c", "d", "q0", "q1", "q2", "p", "x", "y", "z"]
ODD = ["a_1", "a_2", "a_1|b", "b_1|c", "[a_1|b_2]", "_1", "_2", "1", "0", "q|", "|", "[", "]", "A", "Z", "aa", "ab", "a_"]
BIGV = [2**32 - 1, 2**32, 2**63, 2**64 - 1]
LENS = [0, 1, 2, 3, 4, 5, 7, 8, 9, 12, 16, 17, 20]


def _lst(l):
    l = list(l)
    return ",".join(str(x) for x in l) if l else "-"


class PD:
    """picture of a TwoWayDict (NDEBUG semantics of Insert)"""

    def __init__(self, fwd=None, bwd=None, fuzzy=False):
        self.fwd = dict(fwd or {})
        self.bwd = dict(bwd or {})
        # fuzzy: the content depends on the iteration order of a hash map (product helper with colliding names / values);
        # such a dictionary is never an operand of the product helper (whether that one executes must be predictable)
        self.fuzzy = fuzzy

    def copy(self):
        return PD(self.fwd, self.bwd, self.fuzzy)

    def insert(self, n, v):
        if n not in self.fwd:
            self.fwd[n] = v
        if v not in self.bwd:
            self.bwd[v] = n


def _functor(rng):
    r = rng.random()
    if r < 0.5:
        return "c"
    if r < 0.85:
        return "s%d" % rng.choice([0, 0, 0, 1, 5, 100])
    return "k%d" % rng.choice([0, 1, 2, 3, 7])


def _call(f, cnt, size):
    """(answer, new counter) of one functor call"""
    if f == "c":
        return cnt, cnt + 1
    if f[0] == "s":
        return size + int(f[1:]), cnt
    return int(f[1:]), cnt


def _hex(s):
    return "".join("%02x" % ord(c) for c in s) if s else "-"


def _numstr(rng):
    ws = rng.choice(["", "", "", " ", "\t", "  \n", "\r\x0b\x0c"])
    sign = rng.choice(["", "", "", "+", "-", "-", "+-", "--", " -"])
    digits = rng.choice(["", "0", "7", "42", "007", "00", "2147483647", "2147483648", "2147483649", "4294967295",
                         "4294967296", "4294967297", "9223372036854775807", "9223372036854775808", "18446744073709551615",
                         "18446744073709551616", "99999999999999999999999", "0000000000000000000000012",
                         str(rng.randrange(0, 2**rng.choice([4, 16, 31, 32, 33, 63, 64, 65])))])
    tail = rng.choice(["", "", "", "", "x", " 5", ".5", "e3", "-", "+1", "\x00", "abc", "_", ",", "0x1", " "])
    if rng.random() < 0.05:
        return rng.choice(["0x1F", "1e5", " ", "", "+", "-", "++1", "1 2", "0-1", "\x001"])
    return ws + sign + digits + tail


def g_glue(rng):
    steps = []
    A = []      # assignments: lists of '0' '1' 'X'
    D = []      # dictionaries: PD
    M = []      # maps: dict
    uni = rng.sample(NAMES, rng.randint(3, 7)) + (rng.sample(ODD, rng.randint(1, 5)) if rng.random() < 0.4 else [])
    vals = list(range(0, rng.randint(3, 10))) + (rng.sample(BIGV, 2) if rng.random() < 0.2 else [])

    # ------------------------------------------------------------------ assignments
    def rand_str(n=None):
        if n is None:
            n = rng.choice(LENS[:10])
        mode = rng.random()
        if mode < 0.25:
            return [rng.choice("01") for _ in range(n)]
        if mode < 0.4:
            return ["1"] * n
        if mode < 0.5:
            return ["1"] * (n // 2) + [rng.choice("01X") for _ in range(n - n // 2)]
        out = [rng.choice("01X") for _ in range(n)]
        while out.count("X") > 6:
            out[out.index("X")] = rng.choice("01")
        return out

    def a_ctor():
        r = rng.random()
        if r < 0.15:
            n = rng.choice(LENS)
            steps.append("an!%d" % n); A.append(["X"] * n)
        elif r < 0.40:
            n = rng.choice([0, 1, 2, 3, 4, 5, 8, 9, 16, 16, 31, 32])
            k = rng.choice([0, 1, 2, 5, 2**n - 1 if n else 0, 2**n, 2**n + 3, rng.randrange(0, 2**max(n, 1)), 2**31, 2**32, 2**63, 2**64 - 1,
                            rng.randrange(0, 2**64)])
            k %= 2**64
            bits = []
            for i in range(n):
                if i < 31:
                    bits.append("1" if (k >> i) & 1 else "0")
                else:
                    bits.append("1" if (k >> 31) != 0 else "0")
            steps.append("ak!%d!%d" % (n, k)); A.append(bits)
        elif r < 0.75:
            s = rand_str()
            if rng.random() < 0.12:
                # an invalid string: throws, no object
                bad = list(s) + [rng.choice("x2 Xx-ab")]
                rng.shuffle(bad)
                if all(c in "01X" for c in bad):
                    bad.append("x")
                if " " in bad:
                    bad = [c for c in bad if c != " "] + ["y"]
                steps.append("as!=" + "".join(bad))
            else:
                steps.append("as!=" + "".join(s)); A.append(list(s))
        elif r < 0.80:
            steps.append("ad"); A.append([])
        elif r < 0.85:
            steps.append("auniv"); A.append([])
        elif r < 0.90:
            steps.append("azero"); A.append(["0"] * 16)
        elif A:
            i = rng.randrange(len(A)); steps.append("acp!%d" % i); A.append(list(A[i]))
        else:
            steps.append("ad"); A.append([])

    def a_inc(a):
        for i in range(len(a)):
            if a[i] == "0":
                a[i] = "1"; return
            if a[i] == "1":
                a[i] = "0"

    def a_step():
        if not A or (rng.random() < 0.12 and len(A) < MAXA):
            a_ctor(); return
        i = rng.randrange(len(A)); a = A[i]
        r = rng.random()
        if r < 0.08:
            j = rng.randrange(len(A)) if rng.random() < 0.8 else i
            steps.append("aas!%d!%d" % (i, j)); A[i] = list(A[j])
        elif r < 0.20 and a:
            p = rng.choice([0, len(a) - 1, rng.randrange(len(a)), (len(a) // 4) * 4 - 1 if len(a) >= 4 else 0, min(4, len(a) - 1)])
            v = rng.choice("01X")
            steps.append("aset!%d!%d!%s" % (i, p, v)); a[p] = v
        elif r < 0.28 and a:
            p = rng.choice([0, len(a) - 1, rng.randrange(len(a))])
            steps.append("aget!%d!%d" % (i, p))
        elif r < 0.38:
            m = rng.choice([0, max(len(a) - 1, 0), len(a), len(a) + 1, len(a) + 3, len(a) // 2, 7, 8])
            if m + 1 <= 40:
                steps.append("aup!%d!%d" % (i, m))
                if m + 1 > len(a):
                    a.extend(["X"] * (m + 1 - len(a)))
        elif r < 0.48:
            j = rng.randrange(len(A))
            if j == i and a:
                others = [x for x in range(len(A)) if x != i]
                if not others:
                    return
                j = rng.choice(others)
            if len(a) + len(A[j]) <= 40:
                steps.append("aapp!%d!%d" % (i, j)); a.extend(A[j])
        elif r < 0.66:
            # increments: single, or a run (through a wrap when the assignment is short)
            runs = 1 if rng.random() < 0.6 else rng.randint(2, 9)
            for _ in range(runs):
                steps.append("ainc!%d" % i); a_inc(a)
        elif r < 0.71 and len(A) < MAXA:
            steps.append("apinc!%d" % i); A.append(list(a)); a_inc(a)
        elif r < 0.86:
            same = [j for j in range(len(A)) if len(A[j]) == len(a)]
            j = rng.choice(same) if rng.random() < 0.7 else rng.randrange(len(A))
            steps.append("alt!%d!%d" % (i, j))
        elif r < 0.96:
            if a.count("X") <= 8:
                steps.append("acon!%d" % i)
        else:
            steps.append("aall!%d" % rng.choice([0, 1, 3, 16]))

    # ------------------------------------------------------------------ dictionaries
    def fresh_val(d):
        c = [v for v in vals if v not in d.bwd]
        return rng.choice(c) if c else (max([v for v in d.bwd] + [0]) + 1) % 2**64

    def fresh_name(d):
        c = [n for n in uni + NAMES + ODD if n not in d.fwd]
        return rng.choice(c) if c else "n%d" % len(d.fwd)

    def d_ctor():
        r = rng.random()
        if r < 0.3 or (r >= 0.85 and not D):
            steps.append("dn"); D.append(PD())
        elif r < 0.85:
            names = rng.sample(uni, rng.randint(0, len(uni)))
            if rng.random() < 0.2 and names:
                names.append(rng.choice(names))       # a repeated key: std::map keeps the first
            inj = rng.random() < 0.8
            ent = []
            vs = rng.sample(range(0, 30), len(names)) if inj else [rng.choice(vals) for _ in names]
            if rng.random() < 0.3:
                vs = list(range(len(names)))
            for n, v in zip(names, vs):
                ent.append((n, v))
            m = {}
            for n, v in ent:
                m.setdefault(n, v)
            steps.append("dm!" + _lst("%s>%d" % e for e in ent))
            if len(set(m.values())) == len(m):
                D.append(PD(m, {v: n for n, v in m.items()}))
        else:
            i = rng.randrange(len(D)); steps.append("dcp!%d" % i); D.append(D[i].copy())

    def d_step():
        if not D or (rng.random() < 0.1 and len(D) < MAXD):
            d_ctor(); return
        i = rng.randrange(len(D)); d = D[i]
        r = rng.random()
        if r < 0.25:
            k = rng.random()
            if k < 0.78 or not d.fwd:
                n, v = fresh_name(d), fresh_val(d)
            elif k < 0.86:
                n, v = rng.choice(sorted(d.fwd)), fresh_val(d)           # present key (outside the contract)
            elif k < 0.94:
                n, v = fresh_name(d), rng.choice(sorted(d.bwd))          # present value (outside the contract)
            else:
                n = rng.choice(sorted(d.fwd)); v = d.fwd[n]              # the very same pair again
            steps.append("dins!%d!%s!%d" % (i, n, v)); d.insert(n, v)
        elif r < 0.40:
            hit = d.fwd and rng.random() < 0.6
            n = rng.choice(sorted(d.fwd)) if hit else fresh_name(d)
            steps.append("%s!%d!%s" % (rng.choice(["dtf", "dtf", "dat", "dff"]), i, n))
        elif r < 0.52:
            hit = d.bwd and rng.random() < 0.6
            v = rng.choice(sorted(d.bwd)) if hit else fresh_val(d)
            steps.append("%s!%d!%d" % (rng.choice(["dtb", "dfb"]), i, v))
        elif r < 0.60 and len(D) < MAXD:
            # Union: aim at a disjoint partner
            cand = [j for j in range(len(D)) if not (set(D[j].fwd) & set(d.fwd)) and not (set(D[j].bwd) & set(d.bwd))]
            j = rng.choice(cand) if cand and rng.random() < 0.75 else rng.randrange(len(D))
            steps.append("dun!%d!%d" % (i, j))
            res = d.copy()
            for n in sorted(D[j].fwd):
                res.insert(n, D[j].fwd[n])
            res.fuzzy = d.fuzzy or D[j].fuzzy
            D.append(res)
        elif r < 0.82:
            f = _functor(rng)
            cnt = rng.choice([0, len(d.fwd), max(list(d.bwd) + [0]) + 1, max(list(d.bwd) + [0]) + 1, rng.choice(vals)])
            if f == "c" and rng.random() < 0.8:
                cnt = max(list(d.bwd) + [-1]) + 1       # the library's discipline: fresh numbers
            cnt = min(cnt, 2**62)
            keys = []
            for _ in range(rng.choice([1, 2, 3, 5, 8, 20])):
                k = rng.random()
                if k < 0.35 and d.fwd:
                    keys.append(rng.choice(sorted(d.fwd)))
                elif k < 0.5 and keys:
                    keys.append(rng.choice(keys))
                else:
                    keys.append(rng.choice(uni + NAMES))
            steps.append("tw!%d!%s!%d!%s" % (i, f, cnt, _lst(keys)))
            for n in keys:
                if n not in d.fwd:
                    v, cnt = _call(f, cnt, len(d.fwd))
                    d.insert(n, v % 2**64)
        elif r < 0.88:
            keys = [rng.choice(sorted(d.fwd)) if d.fwd and rng.random() < 0.8 else rng.choice(uni) for _ in range(rng.randint(0, 4))]
            steps.append("%s!%d!%s" % (rng.choice(["twc", "ts", "ts"]), i, _lst(keys)))
        elif r < 0.94:
            keys = [rng.choice(sorted(d.bwd)) if d.bwd and rng.random() < 0.8 else rng.choice(vals) for _ in range(rng.randint(0, 4))]
            steps.append("tsb!%d!%s" % (i, _lst(keys)))
        else:
            helper_step()

    # ------------------------------------------------------------------ maps
    def m_ctor():
        r = rng.random()
        if r < 0.3 or (r >= 0.85 and not M):
            steps.append("mn"); M.append({})
        elif r < 0.85:
            # often a translation map for a dictionary: some states of the dictionary, renumbered
            ent = []
            if D and rng.random() < 0.7:
                d = rng.choice(D)
                src = [v for v in sorted(d.bwd) if rng.random() < 0.75]
                base = rng.choice([0, 0, 10, 100])
                tgt = list(range(base, base + len(src)))
                if rng.random() < 0.15 and len(tgt) > 1:
                    tgt[-1] = tgt[0]                   # not injective
                ent = list(zip(src, tgt))
            else:
                ks = [rng.choice(vals) for _ in range(rng.randint(0, 6))]
                ent = [(k, rng.choice(vals)) for k in ks]
            m = {}
            for k, v in ent:
                m.setdefault(k, v)
            steps.append("mm!" + _lst("%d>%d" % e for e in ent)); M.append(m)
        else:
            i = rng.randrange(len(M)); steps.append("mcp!%d" % i); M.append(dict(M[i]))

    def m_step():
        if not M or (rng.random() < 0.12 and len(M) < MAXM):
            m_ctor(); return
        i = rng.randrange(len(M)); m = M[i]
        r = rng.random()
        if r < 0.6:
            two = rng.random() < 0.5
            f = _functor(rng)
            cnt = min(rng.choice([0, len(m), max(list(m.values()) + [-1]) + 1, max(list(m.values()) + [-1]) + 1]), 2**62)
            keys = []
            for _ in range(rng.choice([1, 2, 3, 5, 8, 20])):
                k = rng.random()
                if k < 0.35 and m:
                    keys.append(rng.choice(sorted(m)))
                elif k < 0.5 and keys:
                    keys.append(rng.choice(keys))
                else:
                    keys.append(rng.choice(vals + [11, 12, 13, 14, 15]))
            steps.append("%s!%d!%s!%d!%s" % ("mw2" if two else "mw", i, f, cnt, _lst(keys)))
            for k in keys:
                if k not in m:
                    v, cnt = _call(f, cnt, len(m) + (1 if two else 0))
                    m[k] = v % 2**64
        else:
            keys = [rng.choice(sorted(m)) if m and rng.random() < 0.8 else rng.choice(vals) for _ in range(rng.randint(0, 4))]
            steps.append("%s!%d!%s" % (rng.choice(["mwc", "mw2c", "ms", "ms"]), i, _lst(keys)))

    # ------------------------------------------------------------------ util.cc
    def helper_step():
        if len(D) < 2:
            d_ctor(); return
        if len(D) >= MAXD + 2:
            return
        i, j = rng.randrange(len(D)), rng.randrange(len(D))
        l, r_ = D[i], D[j]
        if rng.random() < 0.5:
            # union helper
            k = rng.random()
            if k < 0.3 or not M:
                ml = mr = None
            else:
                ml = rng.randrange(len(M)) if rng.random() < 0.8 else None
                mr = rng.randrange(len(M)) if rng.random() < 0.8 else None
            steps.append("uni!%d!%d!%s!%s" % (i, j, "-" if ml is None else ml, "-" if mr is None else mr))
            res = PD(fuzzy=l.fuzzy or r_.fuzzy)
            for (d, mi, suf) in ((l, ml, "_1"), (r_, mr, "_2")):
                for n in sorted(d.fwd):
                    s = d.fwd[n]
                    if mi is not None:
                        if s not in M[mi]:
                            continue
                        s = M[mi][s]
                    res.insert(n + suf, s)
            D.append(res)
        else:
            # product helper
            if l.fuzzy or r_.fuzzy:
                return
            ent = []
            k = rng.random()
            lv, rv = sorted(l.bwd), sorted(r_.bwd)
            if lv and rv:
                for _ in range(rng.randint(0, 6)):
                    ent.append(((rng.choice(lv), rng.choice(rv)), None))
            if k < 0.12:
                ent.append(((rng.choice(vals + [77]), rng.choice(vals + [78])), None))     # probably unnamed
            seen = {}
            nxt = rng.choice([0, 0, 5])
            for (key, _) in ent:
                if key not in seen:
                    seen[key] = nxt; nxt += 1
            if rng.random() < 0.1 and len(seen) > 1:
                ks = sorted(seen); seen[ks[-1]] = seen[ks[0]]       # colliding values
            order = list(seen.items())
            rng.shuffle(order)
            if PRODNAMES_MODE != "full" and all(a in l.bwd and b in r_.bwd for (a, b) in seen):
                if len(set("[" + l.bwd[a] + "_1|" + r_.bwd[b] + "_2]" for (a, b) in seen)) != len(seen):
                    return
            steps.append("prod!%d!%d!%s" % (i, j, _lst("%d.%d>%d" % (a, b, v) for ((a, b), v) in order)))
            if all(a in l.bwd and b in r_.bwd for (a, b) in seen):
                res = PD()
                for ((a, b), v) in order:
                    res.insert("[" + l.bwd[a] + "_1|" + r_.bwd[b] + "_2]", v)
                res.fuzzy = len(res.fwd) != len(order) or len(res.bwd) != len(order)
                D.append(res)

    def collision_scenario():
        # `a_1|b` + `c` and `a` + `b_1|c` give the same product name
        steps.append("dm!a_1|b>0,a>1,z>2"); D.append(PD({"a_1|b": 0, "a": 1, "z": 2}, {0: "a_1|b", 1: "a", 2: "z"}))
        steps.append("dm!c>0,b_1|c>1"); D.append(PD({"c": 0, "b_1|c": 1}, {0: "c", 1: "b_1|c"}))
        i, j = len(D) - 2, len(D) - 1
        ent = [((0, 0), 0), ((1, 1), 1)] + ([((2, 0), 2)] if rng.random() < 0.5 else [])
        rng.shuffle(ent)
        steps.append("prod!%d!%d!%s" % (i, j, _lst("%d.%d>%d" % (a, b, v) for ((a, b), v) in ent)))
        res = PD(fuzzy=True)
        for ((a, b), v) in ent:
            res.insert("[" + D[i].bwd[a] + "_1|" + D[j].bwd[b] + "_2]", v)
        D.append(res)

    # ------------------------------------------------------------------ Convert
    def c_step():
        r = rng.random()
        if r < 0.6:
            steps.append("%s!%s" % (rng.choice(["cfi", "cfi", "cfu", "cfz"]), _hex(_numstr(rng))))
        else:
            t = rng.choice(["n", "i", "uc", "v", "l", "st", "mp", "pr", "ms", "vp"])
            if t == "n":
                data = str(rng.choice([0, 1, 9, 10, 99, 100, 2**32, 2**64 - 1, rng.randrange(2**64)]))
            elif t == "i":
                data = str(rng.choice([0, -1, 1, -2**31, 2**31 - 1, rng.randrange(-2**31, 2**31)]))
            elif t == "uc":
                data = str(rng.choice([0, 48, 65, 127, 128, 200, 255]))
            elif t in ("v", "l", "st"):
                data = _lst(rng.choice(vals) for _ in range(rng.randint(0, 5)))
            elif t == "mp":
                data = _lst("%d>%d" % (rng.choice(vals), rng.choice(vals)) for _ in range(rng.randint(0, 4)))
            elif t == "pr":
                data = "%d.%d" % (rng.choice(vals), rng.choice(vals))
            elif t == "ms":
                data = _lst("%s>%d" % (rng.choice(uni), rng.choice(vals)) for _ in range(rng.randint(0, 4)))
            else:
                data = _lst("%d.%d" % (rng.choice(vals), rng.choice(vals)) for _ in range(rng.randint(0, 3)))
            steps.append("cts!%s!%s" % (t, data))

    # ------------------------------------------------------------------ the history
    theme = rng.choice(["asgn", "asgn", "asgn", "dict", "dict", "dict", "maps", "helpers", "helpers", "convert", "mixed", "mixed"])
    n = rng.choice([4, 8, 12, 16, 22, 30])
    if theme == "helpers":
        for _ in range(2):
            d_ctor()
        if rng.random() < 0.25 and PRODNAMES_MODE == "full":
            collision_scenario()
        for _ in range(rng.randint(0, 2)):
            m_ctor()
    guard = 0
    while len(steps) < n and guard < 400:
        guard += 1
        if theme == "asgn":
            a_step()
        elif theme == "dict":
            d_step()
        elif theme == "maps":
            m_step()
        elif theme == "helpers":
            r = rng.random()
            if r < 0.45:
                helper_step()
            elif r < 0.7:
                d_step()
            elif r < 0.85:
                m_ctor() if len(M) < MAXM else m_step()
            else:
                m_step()
        elif theme == "convert":
            c_step()
        else:
            rng.choice([a_step, d_step, m_step, helper_step, c_step])()
    return "glue " + " ".join(steps)


if __name__ == "__main__":
    n = int(sys.argv[1]) if len(sys.argv) > 1 else 10
    seed = int(sys.argv[2]) if len(sys.argv) > 2 else 1
    rng = random.Random(seed)
    for k in range(n):
        print("C gl%d_%d %s" % (seed, k, g_glue(rng)))
