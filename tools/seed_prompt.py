#!/usr/bin/env python3
"""Print the prompt handed to a seeding sub-agent: property text + scratch worktree only."""
import json, sys
wt, ids = sys.argv[1], sys.argv[2:]
props = {json.loads(l)['id']: json.loads(l) for l in open('/verif/properties.jsonl')}
out = []
out.append(f"""You work on the C++11 library ondrik/libvata (tree and word automata) in a scratch git worktree at {wt}
(detached HEAD).  Work ONLY inside {wt} and {wt}-out (create it).  Do not read or write /repo or /verif.

Goal: for EACH of the properties below, produce one realistic change to the library sources (src/, include/, cli/)
that BREAKS the property while the library still compiles and the existing unit-test suite gives exactly the baseline
result.  "Realistic" = what a developer could plausibly introduce: a refactoring slip, wrong comparator, off-by-one,
a missing copy before mutation, a stale cache entry, a swapped argument, a skipped corner case, two sites that each look
fine alone.  The change must need something specific to manifest (an unusual input shape, a multi-step sequence of
operations, a particular combination of parameters, two cooperating sites) -- NOT something that ordinary use or the
test-suite exposes at once.  Prefer subtle semantic breakage over crashes.  Keep the patch small (a few lines).

Build:   cmake -G Ninja -B _build -DCMAKE_BUILD_TYPE=RelWithDebInfo -DCMAKE_CXX_FLAGS=-Wno-error . && ninja -C _build -j6
Tests:   cd _build/unit_tests && for t in ondriks_mtbdd_c_test timbuk_parser_test bdd_td_tree_aut_test explicit_tree_aut_test bdd_bu_tree_aut_test; do ./$t; done
         (the binaries use relative paths, so run them from _build/unit_tests).  Baseline: everything passes except exactly
         2 cases of bdd_bu_tree_aut_test (aut_down_inclusion_rec_nosim, aut_down_inclusion_opt_rec_nosim, "not implemented").
CLI:     _build/cli/vata (see `vata help`); library: _build/src/libvata.a, public headers in include/vata/.
         A demo program can be built with: g++ -std=c++11 -O1 -I include demo.cc _build/src/libvata.a -o demo

For each property deliver, in {wt}-out/<PROPERTY_ID>/ :
  patch.diff   `git diff` of your change against HEAD (library sources only)
  demo.sh      a script taking the worktree path as $1 that builds/runs a small C++ program or CLI invocation and exits 0
               when the property holds on its input and non-zero when it is violated (must pass on the unpatched tree
               and fail on the patched one); include demo.cc / input files next to it
  notes.md     what the change breaks, what it needs in order to manifest, and the exact commands you ran with results
You must verify yourself: (1) unpatched tree: demo passes; (2) patched tree: builds, test-suite result == baseline,
demo fails.  Work on one property at a time; after finishing one, `git checkout -- .` before starting the next.
At the very end: `git checkout -- .` and `rm -rf _build` in the worktree.  Report briefly what you produced.
""")
for i in ids:
    p = props[i]
    out.append(f"=== PROPERTY {i}: {p['title']}\nStatement: {p['statement']}\nQuantified over: {p['quantifier']['text']}\n")
print("\n".join(out))
