#!/usr/bin/env python3
"""confirm_seed.py <seed-src-dir> <property> <scratch-worktree> <name>

Confirms a seeded change independently (in a scratch worktree of /repo, never in /repo itself):
  1. clean tree builds; the demonstration passes;
  2. with patch.diff applied the tree builds, the unit-test suite gives the baseline result, the demonstration fails.
Then copies patch.diff, the demonstration and a meta.json with what was run into /verif/seeded/<name>/.
"""
import json, os, re, shutil, subprocess, sys, time

src, prop, wt, name = sys.argv[1:5]
VERIF = os.path.dirname(os.path.dirname(os.path.abspath(__file__)))
TESTS = ["ondriks_mtbdd_c_test", "timbuk_parser_test", "bdd_td_tree_aut_test", "explicit_tree_aut_test", "bdd_bu_tree_aut_test"]


def sh(cmd, cwd=None, timeout=3600):
    p = subprocess.run(cmd, cwd=cwd, shell=True, stdout=subprocess.PIPE, stderr=subprocess.STDOUT, text=True, timeout=timeout)
    return p.returncode, p.stdout


def build():
    rc, out = sh("cmake -G Ninja -B _build -DCMAKE_BUILD_TYPE=RelWithDebInfo -DCMAKE_CXX_FLAGS=-Wno-error . >/dev/null 2>&1; ninja -C _build -j8 2>&1 | tail -5", cwd=wt)
    return rc == 0 and os.path.exists(os.path.join(wt, "_build/src/libvata.a")), out


def tests():
    res = {}
    for t in TESTS:
        rc, out = sh(f"./{t} 2>&1 | tail -3", cwd=os.path.join(wt, "_build/unit_tests"))
        m = re.search(r"(\d+) failures? (?:are|is) detected", out)
        res[t] = 0 if "No errors detected" in out else (int(m.group(1)) if m else -1)
    return res


def demo():
    rc, out = sh(f"bash {os.path.join(src, 'demo.sh')} {wt}", cwd=src)
    return rc, out[-1500:]


log = {}
sh("git checkout -- . && git clean -fdq -e _build", cwd=wt)
ok, out = build()
log["clean_build_ok"] = ok
rc0, o0 = demo()
log["demo_clean_rc"] = rc0
log["demo_clean_tail"] = o0[-400:]
rc, out = sh(f"git apply {os.path.join(src, 'patch.diff')}", cwd=wt)
log["patch_applies"] = rc == 0
ok, out = build()
log["patched_build_ok"] = ok
log["patched_tests_failures"] = tests()
rc1, o1 = demo()
log["demo_patched_rc"] = rc1
log["demo_patched_tail"] = o1[-600:]
sh("git checkout -- . && git clean -fdq -e _build", cwd=wt)
baseline = {t: 0 for t in TESTS}
baseline["bdd_bu_tree_aut_test"] = 2
log["tests_equal_baseline"] = log["patched_tests_failures"] == baseline
confirmed = bool(log["clean_build_ok"] and rc0 == 0 and log["patch_applies"] and log["patched_build_ok"]
                 and log["tests_equal_baseline"] and rc1 != 0)
log["confirmed"] = confirmed
print(json.dumps(log, indent=1))
if confirmed:
    dst = os.path.join(VERIF, "seeded", name)
    if os.path.exists(dst):
        shutil.rmtree(dst)
    shutil.copytree(src, dst, ignore=shutil.ignore_patterns("*.o", "demo", "_build", "*.log", "survey", "fuzz"))
    notes = open(os.path.join(src, "notes.md")).read() if os.path.exists(os.path.join(src, "notes.md")) else ""
    meta = dict(property=prop, name=name, needs_to_manifest=notes[:1500],
                confirmed_by="tools/confirm_seed.py in scratch worktree " + wt,
                ran=["build clean (RelWithDebInfo)", "demo.sh on clean tree: rc=%d" % rc0, "git apply patch.diff", "build patched",
                     "5 unit-test binaries: failures=%s (baseline: only 2 in bdd_bu_tree_aut_test)" % json.dumps(log["patched_tests_failures"]),
                     "demo.sh on patched tree: rc=%d" % rc1],
                caught_by=None, date=time.strftime("%Y-%m-%d"))
    json.dump(meta, open(os.path.join(dst, "meta.json"), "w"), indent=1)
    print("KEPT", dst)
else:
    print("NOT CONFIRMED")
