#!/usr/bin/env python3
"""Per-property configuration of the checks: which case kinds are generated, how many, what counts as non-trivial."""
import glob, json, os, random
import gen

VERIF = os.path.dirname(os.path.dirname(os.path.abspath(__file__)))

PROOF_ASSUME = [
    "the theorems are about the Lean models; that the C++ behaves like them is established on the inputs run here",
    "hash-map iteration order, fresh-number choice and representative choice are read back from the implementation's "
    "reported maps and checked against relational certificates rather than predicted",
]

PROPS = {
    "C01": dict(level="proof", plain=dict(quick=2500, thorough=30000), cli=dict(kinds=[("incl", 1)], quick=200, thorough=5000), kinds=[("incl", 30), ("inclall", 1), ("achain", 1), ("cacheh", 1), ("cliargs", 1)], n=dict(quick=12800, thorough=200000, search=12000),
                rule="random / derived / correlated pairs of explicit tree automata (≤5 states each, ranks ≤2); each pair is run "
                     "through all 8 selections + the default overload (API) and judged against the proved reference inclM; "
                     "non-trivial = L(A) non-empty (so the verdict is not vacuous); distinct = distinct case text",
                assumptions=PROOF_ASSUME),
    "C02": dict(level="proof", cli=dict(kinds=[("cliop_c02", 1)], quick=150, thorough=4000), kinds=[("union", 6), ("unionpre", 4), ("uniondisj", 4), ("isect", 6), ("isectbu", 6), ("glue", 1), ("mapsx", 2)],
                n=dict(quick=3000, thorough=300000, search=4000),
                rule="pairs of explicit tree automata with overlapping / sparse numbers; results judged by isUnionM / isIsectM "
                     "(proved), the reported maps by coverage, injectivity and the image / product certificate; operands "
                     "re-read after the call; non-trivial = result language non-empty or maps pre-filled; distinct = case text",
                assumptions=PROOF_ASSUME),
    "C03": dict(level="proof", cli=dict(kinds=[("cliop_c03", 1)], quick=150, thorough=4000), kinds=[("trim", 1)], n=dict(quick=4000, thorough=200000, search=4000),
                rule="automata with dead children, final states without rules, unreachable rule owners (shortcut shape); "
                     "RemoveUnreachableStates / RemoveUselessStates / IsLangEmpty judged by equivM, allReachableB, allUsefulB, "
                     "emptyM and compared exactly with the models; non-trivial = some rule dropped by one of the operations",
                assumptions=PROOF_ASSUME),
    "C04": dict(level="proof", cli=dict(kinds=[("cliop_c04", 1)], quick=150, thorough=4000), kinds=[("simdown", 12), ("simup", 12), ("binrel", 1), ("ltsutil", 1)], n=dict(quick=3240, thorough=300000, search=4000),
                rule="automata numbered 0..n-1 in random order with n passed (downward: arbitrary, with useless and leaf-only "
                     "states; upward: trimmed by construction, precondition re-checked by the driver); the relation read back "
                     "with get(q,r) on all states is compared exactly with the greatest downward / upward simulation computed "
                     "by naive refinement; non-trivial = relation strictly between identity and full",
                assumptions=PROOF_ASSUME),
    "C05": dict(level="proof", cli=dict(kinds=[("cliop_c05", 1)], quick=150, thorough=4000), kinds=[("reduce", 48), ("binrel", 1)], n=dict(quick=9000, thorough=300000, search=4000),
                rule="automata with duplicated (simulation-equivalent) states, sparse numbers, useless states; Reduce judged by "
                     "equivM, the two counts and states ⊆; non-trivial = the number of states decreased",
                assumptions=PROOF_ASSUME),
    "C06": dict(level="proof", cli=dict(kinds=[("cliop_c06", 1)], quick=150, thorough=4000), kinds=[("compl", 1)], n=dict(quick=2500, thorough=200000, search=3000),
                rule="automata over a fresh on-the-fly alphabet (1–4 symbols, ranks ≤2, unused symbols, nullary-only alphabets, "
                     "empty and universal languages); Complement judged by isComplM (proved, both clauses); non-trivial = both "
                     "L(A) and L(C) non-empty",
                assumptions=PROOF_ASSUME),
    "C07": dict(level="proof", plain=dict(quick=2000, thorough=30000), cli=dict(kinds=[("bddincl", 1)], quick=150, thorough=4000), kinds=[("bddincl", 30), ("bddinclall", 1), ("achain", 1), ("ordvec", 1), ("bddsim", 2), ("cacheh", 1), ("cliargs", 1), ("glue", 1)], n=dict(quick=7000, thorough=200000, search=6000),
                rule="the pairs of C01 (random / derived / split / correlated shapes) loaded from Timbuk text into both BDD "
                     "encodings: top-down × {rec, rec+cache} × {no simulation, simulation computed by the library's bottom-up "
                     "path for the sanitised operands}, bottom-up × {upward, downward+simulation, default overload}; each verdict "
                     "judged against the proved reference inclM (hence equal to the explicit verdict, which C01 ties to the same "
                     "reference); all 128 option words on both encodings must throw NotImplementedException unless implemented; "
                     "non-trivial = L(A) non-empty",
                assumptions=PROOF_ASSUME),
    "C08": dict(level="proof", cli=dict(kinds=[("cliop_c08", 1)], quick=150, thorough=4000), kinds=[("bddh", 12), ("bddtd", 2), ("ordvec", 1), ("glue", 1), ("bddpre", 4), ("bddload", 1)], n=dict(quick=3500, thorough=200000, search=3000),
                rule="histories over a pool of automata in one BDD encoding (bottom-up or top-down): load from Timbuk text, "
                     "copy, assign, destroy, load into an existing automaton (AddTransition on a possibly shared table), "
                     "SetStateFinal, Union, UnionDisjointStates, Intersection, RemoveUnreachableStates, RemoveUselessStates; "
                     "after every step every live automaton is dumped; results judged by isUnionM / isIsectM / equivM / allUsefulB "
                     "(proved), every other automaton must keep its language; plus bottom-up → top-down conversion; non-trivial "
                     "= some intersection non-empty or conversion of a non-empty language",
                assumptions=PROOF_ASSUME),
    "C09": dict(level="proof", plain=dict(quick=2000, thorough=30000), cli=dict(kinds=[("nfah_cli", 1)], quick=200, thorough=5000), kinds=[("nfah_incl", 24), ("nfah_inclsim", 5), ("achain", 1), ("ordvec", 1), ("cacheh", 1), ("cliargs", 1)], n=dict(quick=6600, thorough=100000, search=5000),
                rule="pairs of NFAs (several start states, start∧final, dead / unreachable states, symbols in one operand only, "
                     "overlapping and sparse numbers; B mutated from / a nondeterministic split of A); antichains, congruence "
                     "depth / breadth and the default overload through the API on raw operands, each verdict judged against the "
                     "proved reference inclW (both directions per pair); a call that does not return within 5 s counts as a "
                     "violation (state spaces are ≤ 2^9); non-trivial = L(A) non-empty",
                assumptions=PROOF_ASSUME),
    "C10": dict(level="proof", cli=dict(kinds=[("cliop_c10", 1)], quick=150, thorough=4000), kinds=[("nfah_ops", 4), ("nfas", 1)], n=dict(quick=3600, thorough=200000, search=4000),
                rule="histories of Union / UnionDisjointStates (repeated with one left operand and right operands sharing "
                     "numbers) / Intersection / Reverse / RemoveUnreachableStates / RemoveUselessStates / GetCandidateTree on a "
                     "pool of NFAs incl. results of earlier steps; every result judged by isUnionW / isIsectW / equivW / inclW / "
                     "emptyW (proved), every live automaton re-read after every step; non-trivial = some product or witness "
                     "non-empty",
                assumptions=PROOF_ASSUME),
    "C16": dict(level="proof", kinds=[("lts", 24), ("ltsc", 3), ("binrel", 1), ("ltsutil", 1)], n=dict(quick=4320, thorough=200000, search=4000),
                rule="LTSs with 1–8 states (12 %: 13–30 states so that the engine's counter rows, block splits and remove "
                     "lists are exercised), 1–4 labels, parallel edges, isolated states, labels with one edge; random "
                     "partitions into non-empty blocks with random preorders (reflexive-transitive closures) on the blocks; all "
                     "three computeSimulation overloads and several output sizes; exact equality with the greatest simulation "
                     "inside the initial relation computed by naive refinement; non-trivial = result strictly between identity "
                     "and full",
                assumptions=PROOF_ASSUME + ["the partition-relation engine itself is not mirrored (950 lines of pointer code without observable internal state): it is tied to the proved reference by input/output behaviour only"]),
    "C11": dict(level="proof", kinds=[("tah_hist", 3), ("nfah_hist", 1)], n=dict(quick=3000, thorough=300000, search=4000),
                rule="operation histories (5–18 steps) over a pool of live explicit tree automata (and NFAs): construct, copy "
                     "(with / without transitions / final states), copy-assign, self-assign, move, move-assign, AddTransition, "
                     "SetStateFinal, EraseFinalStates, Clear, destroy, and library operations whose results share storage "
                     "(RemoveUnreachableStates, RemoveUselessStates, UnionDisjointStates, ReindexStates into an existing "
                     "destination, …); after EVERY step EVERY live automaton is read back (iteration + final states) and must "
                     "show exactly the value the value-semantics model holds for it; non-trivial = at least 3 steps executed "
                     "while several automata were alive and at least one mutation",
                assumptions=PROOF_ASSUME),
    "C12": dict(level="proof", kinds=[("tah_store", 1)], n=dict(quick=3000, thorough=300000, search=4000),
                rule="sequences (4–24) of AddTransition (both overloads; repeated rules, nullary rules, one symbol number at "
                     "several arities), SetStateFinal, SetStatesFinal, EraseFinalStates, Clear on one automaton, interleaved with "
                     "ContainsTransition / IsStateFinal probes (present rules, near misses); after every step the iteration "
                     "(multiset), GetAcceptTrans, operator[] for every used state and two others (with empty()), GetUsedStates, "
                     "AreTransitionsEmpty are compared with the abstract rule / final sets; non-trivial = at least one mutation",
                assumptions=PROOF_ASSUME),
    "C17": dict(level="proof", kinds=[("mth", 1)], n=dict(quick=2500, thorough=200000, search=3000),
                rule="histories (5–15 steps) of construct (cubes with don't-care positions), leaf, copy, assign, self-assign, "
                     "unary / binary / ternary apply with several leaf operations, in-place apply, Project, Rename, ExtendWith, "
                     "GetMtbddForPrefix, GetPaths, GetValue with don't-cares, destroy, inside one process-wide node store; after "
                     "EVERY step EVERY live diagram is read on all 64 total assignments of 6 variables and the operator== matrix "
                     "of all live handles is compared with equality of the model's canonical values; non-trivial = at least "
                     "one apply in the history",
                assumptions=PROOF_ASSUME + ["pointer equality of the C++ is structural equality of the model's reduced ordered diagrams (canonicity theorem); the unique-table discipline that justifies this is C18's subject"]),
    "C18": dict(level="proof", kinds=[("mthrc", 1)], n=dict(quick=2500, thorough=200000, search=3000),
                rule="the same histories as C17 without Project, different seeds; after EVERY step the sizes of the two unique tables (read "
                     "through the guarded hooks) must equal the numbers of distinct leaves / internal nodes reachable from the "
                     "live handles of the model (no leak, no premature release), values of all live diagrams must be unchanged "
                     "by operations on other handles, and after destroying every handle both tables are back to their initial "
                     "sizes; ASan reports use-after-free / double free; non-trivial = at least one apply in the history",
                assumptions=PROOF_ASSUME),
    "C13": dict(level="proof", kinds=[("parse", 24), ("parse2", 4), ("ownalpha", 2), ("nfah_ops", 2), ("bddh", 1), ("glue", 1), ("nfas", 1), ("bddload", 1)], n=dict(quick=14400, thorough=200000, search=13000),
                rule="texts: valid files with adversarial names, ranked tree automata, word automata, byte- and token-level "
                     "mutations of them, keyword soups, random bytes (incl. NUL, 0x80, 0xff, VT, FF, CR), shipped small files and "
                     "their mutations; TimbukParser::ParseString is compared with the model parser (accept / throw, the whole "
                     "description, the serialisation byte for byte, parse∘serialise = id); the four loaders must throw or "
                     "load→dump→load→dump to the same rules and final states under the same names; automata that are RESULTS of operations "
                     "(NFA and both BDD encodings, whose only rule observer is the dump) are dumped, reloaded and dumped again inside "
                     "operation histories, with the NFA start states also read through the API; the watchdog and the "
                     "sanitizers watch for hangs and memory errors; non-trivial = the text is accepted by the parser",
                assumptions=PROOF_ASSUME),
    "C19": dict(level="proof", kinds=[("meta", 6), ("metaf", 1)], n=dict(quick=1000, thorough=8000, search=1000), timeout=240,
                rule="metamorphic runs on generated pairs AND on shipped corpus automata (tests/aut_timbuk_smaller with its 400 "
                     "expected verdicts, small_timbuk, moderate_artmc_timbuk, artmc_timbuk; no brute-force reference exists for "
                     "them): each pair and a twin pair (random bijective renaming onto sparse numbers, shuffled rule insertion "
                     "order, permuted symbol numbers); all 8 inclusion selections on both must agree with each other, across the "
                     "twins, with the shipped expected verdict and (small operands) with the proved reference; emptiness equal; "
                     "downward / upward simulation mapped through the renaming (count + order-independent hash); numbers of "
                     "states after Reduce / trimming equal; 16 law instances (A⊆A, A⊆A∪B, A∩B⊆A, transitivity, A ≡ reduced / "
                     "trimmed / re-indexed forms) with three selections; per-call budgets, overruns counted, never judged; "
                     "non-trivial = a verdict was obtained and ≥ 30 law instances answered",
                assumptions=PROOF_ASSUME + ["a broken law or a twin disagreement is a failing input by itself: each relation is a theorem for any exact implementation (Properties/C19.lean)"]),
    "C20": dict(level="other", only_crashes=True,
                kinds=[("incl", 6), ("inclall", 1), ("union", 2), ("unionpre", 2), ("uniondisj", 2), ("isect", 2), ("isectbu", 2),
                       ("trim", 3), ("cand", 2), ("reduce", 3), ("simdown", 2), ("simup", 2), ("compl", 3), ("rename", 3),
                       ("nfah_incl", 4), ("nfah_ops", 4), ("nfah_hist", 2), ("tah_store", 3), ("tah_hist", 4), ("lts", 4),
                       ("mth", 3), ("mthrc", 2), ("bddincl", 5), ("bddinclall", 1), ("bddh", 5), ("bddtd", 1), ("parse", 8), ("parse2", 1),
                       ("meta", 1), ("apisweep", 3), ("binrel", 2), ("achain", 1), ("ordvec", 1), ("cacheh", 1), ("glue", 1), ("ltsutil", 1),
                       ("bddsim", 1), ("mapsx", 1), ("nfah_inclsim", 1), ("ltsc", 1), ("ownalpha", 1)],
                n=dict(quick=6000, thorough=150000, search=6000),
                rule="a sample of EVERY workload of C01–C19 (all case kinds, fresh seeds) executed in-process on the library built "
                     "with AddressSanitizer + UndefinedBehaviorSanitizer (-fno-sanitize-recover) and "
                     "-ftrivial-auto-var-init=pattern; only memory errors / undefined behaviour are judged here (a sanitizer "
                     "report or a crash of the process is the violation; functional verdicts belong to the other properties); "
                     "non-trivial = the case executed library code to completion without a report; distinct = case text",
                assumptions=["what no model can exhibit (reads of uninitialised or freed memory, out-of-bounds accesses, signed overflow, iterator invalidation) is observed, not proved: the claim is partial",
                             "uninitialised reads are only exposed through the poisoning pattern and, in the thorough tier, valgrind memcheck",
                             "the bookkeeping whose failure IS the undefined behaviour is proved on the models: reference counts and table membership (C18), copy-on-write uniqueness before mutation (C11), the non-emptiness invariants the iterators rely on (C12), freshness of product-state numbers (C02)"]),
    "C14": dict(level="proof", kinds=[("rename", 1)], n=dict(quick=3000, thorough=300000, search=4000),
                rule="ReindexStates (functor / functor without final states / into an existing destination / weak translator / "
                     "fresh translator), CollapseStates, TranslateSymbols with injective, merging, identity and sparse maps, "
                     "one symbol at several arities; exact equality with the image automaton; non-trivial = merging map",
                assumptions=PROOF_ASSUME),
    "C15": dict(level="proof", cli=dict(kinds=[("cliop_c15", 1)], quick=150, thorough=4000), kinds=[("cand", 1)], n=dict(quick=4000, thorough=200000, search=4000),
                rule="automata with leaf-only languages, deep witnesses, unproductive final states; GetCandidateTree judged by "
                     "sub-automaton test (else inclM) and emptyM on both; non-trivial = L(A) non-empty",
                assumptions=PROOF_ASSUME),
}



# additions to the rule texts (what else runs inside the check since the first version)
RULE_EXTRA = {
    "C01": "a fresh slice of the pairs also runs on the UNSANITISED build (address reuse is invisible under ASan); the certifying models of the upward, upward+simulation and (small operands) downward algorithms must return and agree with the implementation; `achain` histories compare the real antichain containers with their model (correspondence only)",
    "C02": "a CLI slice runs `vata union` / `vata isect` on generated files and judges the printed automaton with isUnionM / isIsectM; `mapsx` cases (Union with one map object for both translators, Intersection / IntersectionBU with a pre-filled product map: outside the documented contracts) compare the library with the models of Vata/UnionIsectMaps.lean through the characterisations proved for them (correspondence only, except the in-contract corners: state-disjoint operands, empty product map)",
    "C03": "a CLI slice runs `vata load`, `-p load`, `-s load` and judges the printed automaton (language, exact reload, post-conditions)",
    "C04": "a CLI slice runs `vata sim` in both directions (relation mapped back through the printed index); `binrel` histories compare the real BinaryRelation / DiscontBinaryRelation with their model (correspondence only)",
    "C05": "35 % chain-shaped automata (every state owns the leaf rule, binary rules over earlier states); a CLI slice runs `vata red`; `binrel` histories (correspondence only)",
    "C06": "a CLI slice runs `vata cmpl` with the alphabet given by the file's Ops line",
    "C07": "a fresh slice of the pairs also runs on the unsanitised build; `bddsim` compares ComputeSimulation of bottom-up BDD automata matrix for matrix with its proved model; `achain` / `ordvec` histories (correspondence only)",
    "C08": "`rt` steps dump / reload / dump operands and results; a CLI slice runs load / -p / -s / union / isect of both BDD representations; `ordvec` histories (correspondence only)",
    "C09": "a fresh slice of the pairs also runs on the unsanitised build; `achain` / `ordvec` histories (correspondence only)",
    "C10": "`rt` steps (dump / reload, start states through the API); a CLI slice runs load / -p / -s / witness / union / isect of `-r expl_fa`; product nesting level of histories bounded (no intersection of an intersection of an intersection)",
    "C11": "per-step views leave out AreTransitionsEmpty() (it unshares the table) – explicit `te` steps instead",
    "C15": "a CLI slice runs `vata witness`",
    "C16": "1 %: 66–150-state systems whose partition grows past 64 / 128 blocks (there the proved engine model is the oracle); the model of the engine as coded must return and produce exactly the real engine's relation in every case; `binrel` histories (correspondence only)",
    "C17": "projections use non-idempotent leaf operations and masks with several variables in most cases",
    "C20": "plus the API sweep (`apisweep`): every remaining public entry point of the four automaton classes called once on well-formed operands (may return or throw a std::exception; a sanitizer report / crash is the finding)",
}
for _k, _v in RULE_EXTRA.items():
    PROPS[_k]["rule"] += "; " + _v

def generate(prop, n, seed, tier):
    cfg = PROPS[prop]
    return gen.generate(cfg["kinds"], n, seed * 1000003 + sum(map(ord, prop)) * 7919)


def corpus_cases(prop):
    out = []
    for d in ["corpus"]:
        for p in sorted(glob.glob(os.path.join(VERIF, d, prop, "*.case"))):
            for ln in open(p):
                ln = ln.strip()
                if ln and not ln.startswith("#"):
                    out.append(ln)
    return out


def nontrivial(prop, r):
    v = r["verdict"]
    c = r["case"]
    if prop == "C01":
        return "emptyA=0" in v or c.startswith("inclall")
    if prop == "C02":
        return "empty=0" in v or c.startswith("union")
    if prop == "C03":
        return "dropped1=0 dropped2=0" not in v
    if prop == "C04":
        return "between=1" in v
    if prop == "C05":
        import re
        m = re.search(r"states=(\d+)->(\d+)", v)
        return bool(m) and int(m.group(2)) < int(m.group(1))
    if prop == "C06":
        return "emptyA=0 emptyC=0" in v
    if prop == "C14":
        return "inj=0" in v
    if prop == "C20":
        return "crash" not in v and "exception" not in v
    if prop == "C19":
        import re
        m = re.search(r"laws=(\d+)", v)
        return "verdict=?" not in v and bool(m) and int(m.group(1)) >= 30
    if prop == "C13":
        return "accepted=1" in v or "rt=1" in v
    if prop == "C07":
        return "emptyA=0" in v or c.startswith("bddinclall")
    if prop == "C08":
        return "isectempty=0" in v or "empty=0" in v
    if prop in ("C17", "C18"):
        return "applies=0" not in v
    if prop == "C11":
        return ("shared=1" in v and "mut=0" not in v) or c.startswith("nfah")
    if prop == "C12":
        return "mut=0" not in v
    if prop == "C16":
        return "between=1" in v
    if prop == "C09":
        return "emptyA=0" in v
    if prop == "C10":
        return "isectempty=0" in v or "candempty=0" in v or "candexact" in v
    if prop == "C15":
        return "empty=0" in v
    return True
