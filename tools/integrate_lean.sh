#!/bin/bash
# integrate_lean.sh <agent working copy> : copies files that are new w.r.t. /tmp/lp/base into /verif/lean (and harness / tools
# snippets into /verif/harness/ops, /verif/tools), lists the existing files the agent changed (to be merged by hand)
src=$1
cd $src
for f in $(find Vata Driver -name '*.lean'); do
  if [ ! -e /tmp/lp/base/$f ]; then mkdir -p /verif/lean/$(dirname $f); cp $f /verif/lean/$f; echo "new  $f"; 
  elif ! cmp -s $f /tmp/lp/base/$f; then echo "CHANGED $f"; fi
done
if ! cmp -s Vata.lean /tmp/lp/base/Vata.lean; then echo "--- Vata.lean imports added:"; diff Vata.lean /tmp/lp/base/Vata.lean | grep '^<'; fi
ls harness tools 2>/dev/null
