#!/usr/bin/env python3
"""mutation_sweep.py [names...] – applies each seeded change (seeded/*/patch.diff) and each reverted fix (D1..D16) to a
scratch worktree of /repo (never /repo itself), runs the quick check of the property it breaks with VERIF_REPO pointing
at the worktree, and records whether the check reported a VIOLATION.  Results: seeded/RESULTS.json."""
import glob, json, os, subprocess, sys, time
VERIF = os.path.dirname(os.path.dirname(os.path.abspath(__file__)))
WT = os.environ.get("MUT_WT", "/tmp/wt/mut")


def sh(cmd, **kw):
    p = subprocess.run(cmd, shell=True, stdout=subprocess.PIPE, stderr=subprocess.STDOUT, text=True, **kw)
    return p.returncode, p.stdout


def main():
    sel = set(sys.argv[1:])
    jobs = []
    for d in sorted(glob.glob(os.path.join(VERIF, "seeded", "*", "patch.diff"))):
        name = os.path.basename(os.path.dirname(d))
        meta = json.load(open(os.path.join(os.path.dirname(d), "meta.json")))
        jobs.append((name, [meta["property"]], d, False))
    kf = json.load(open(os.path.join(VERIF, "known_findings.json")))
    for e in kf["findings"]:
        if e["status"] == "fixed":
            props = [e["property"]]
            jobs.append(("revert-" + e["id"], props, e["commit"], True))
    res_path = os.path.join(VERIF, "seeded", "RESULTS.json")
    results = json.load(open(res_path)) if os.path.exists(res_path) else {}
    for name, props, src, is_rev in jobs:
        if sel and name not in sel:
            continue
        sh("git checkout -- . && git clean -fdq", cwd=WT)
        sh("git checkout -q --detach $(git -C /repo rev-parse HEAD)", cwd=WT)
        if is_rev:
            rc, out = sh(f"git diff {src} {src}~1 | git apply", cwd=WT)
        else:
            rc, out = sh(f"git apply {src}", cwd=WT)
        if rc != 0:
            results[name] = dict(applied=False, note=out[-300:])
            continue
        for prop in props:
            t0 = time.time()
            env = dict(os.environ, VERIF_REPO=WT, VERIF_JOBS=os.environ.get("VERIF_JOBS", "10"),
                       VERIF_EVIDENCE_DIR="/tmp/wt/mut-evidence")
            p = subprocess.run([sys.executable, os.path.join(VERIF, "tools", "check.py"), prop], env=env, stdout=subprocess.PIPE,
                               stderr=subprocess.STDOUT, text=True)
            lines = [l for l in p.stdout.splitlines() if l.startswith("VIOLATION") or l.startswith("KNOWN")]
            replay = None
            for l in lines:
                if "replay=" in l:
                    rp = l.split("replay=")[1].split()[0]
                    try:
                        rj = json.load(open(rp))
                        replay = dict(case=rj.get("case", "")[:300], verdict=rj.get("verdict", "")[:300])
                    except Exception:
                        pass
            results[name] = dict(applied=True, property=prop, exit=p.returncode, detected=p.returncode == 1 and bool(lines),
                                 lines=lines[:2], replay=replay, wall_s=round(time.time() - t0, 1), date=time.strftime("%Y-%m-%d %H:%M"))
            print(name, prop, "DETECTED" if results[name]["detected"] else "MISSED", lines[:1], flush=True)
        json.dump(results, open(res_path, "w"), indent=1)
    sh("git checkout -- . && git clean -fdq", cwd=WT)


if __name__ == "__main__":
    main()
