"""late-bound access to the core generators (gen.py imports the gen_* modules)"""


def _g():
    import gen
    return gen


def rand_ta(*a, **k):
    return _g().rand_ta(*a, **k)


def pick_alpha(*a, **k):
    return _g().pick_alpha(*a, **k)


def mutate_ta(*a, **k):
    return _g().mutate_ta(*a, **k)
