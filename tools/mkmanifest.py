#!/usr/bin/env python3
"""Regenerates MANIFEST.json from tools/props.py (claimed checks) – run after adding a property check."""
import json, os, sys
HERE = os.path.dirname(os.path.abspath(__file__))
VERIF = os.path.dirname(HERE)
sys.path.insert(0, HERE)
import props

ALL = [json.loads(l) for l in open(os.path.join(VERIF, "properties.jsonl"))]
TEXT = json.load(open(os.path.join(HERE, "manifest_text.json")))

checks = []
na = []
for p in ALL:
    pid = p["id"]
    if pid in props.PROPS and pid in TEXT:
        cfg = props.PROPS[pid]
        t = TEXT[pid]
        checks.append(dict(
            property_id=pid,
            quick_cmd=f"python3 tools/check.py {pid} --tier quick",
            thorough_cmd=f"python3 tools/check.py {pid} --tier thorough",
            evidence_file=f"/verif/evidence/{pid}.json",
            replay_cmd_template=f"python3 tools/check.py {pid} --replay {{path}}",
            engine="lean4-proof+correspondence",
            level_claimed=dict(category=cfg["level"], text=t["level_text"], design_ref=t.get("design_ref", "DESIGN.md §7 " + pid)),
            level_note=t["level_note"],
            technique=t["technique"]))
    else:
        na.append(dict(property_id=pid, reason=TEXT.get(pid, {}).get("na_reason", "check not built yet (build phase in progress); will be claimed")))

m = dict(
    version=1,
    setup_cmd="python3 tools/setup.py",
    hooks=dict(guard="VATA_VERIF",
               enable="checks copy /repo's working tree to /verif/.work/repo-<hash>-asan and build it with "
                      "-DVATA_VERIF -fsanitize=address,undefined (tools/build_repo.py)",
               baseline_off_cmd="python3 tools/baseline_off.py",
               source_commits=TEXT.get("_hook_commits", []), add_only=True),
    engines=[dict(name="lean4-proof+correspondence", path="tools/check.py", serves_properties=[c["property_id"] for c in checks],
                  kind_free_text="Lean 4 theorems about hand-written models (lean/Vata) + correspondence check: the real C++ "
                                 "(harness/vharness.cc, sanitised build of the working tree) and the compiled Lean driver "
                                 "(lean/Driver/Main.lean) run the same generated cases; proved deciders judge the outputs")],
    checks=checks,
    notes="See DESIGN.md. Fixed defects and known findings: known_findings.json. Seeded changes used to test the checks: seeded/.",
    not_applicable=na)
json.dump(m, open(os.path.join(VERIF, "MANIFEST.json"), "w"), indent=1)
print("checks:", [c["property_id"] for c in checks], "not_applicable:", [n["property_id"] for n in na])
