#!/usr/bin/env python3
"""Generator of `binrel` cases: histories over live BinaryRelation / DiscontBinaryRelation objects (and Identity).

A case is `binrel <step> <step> ...`, a step is `op!arg!arg...` (see harness/op_binrel.inc for the vocabulary).
The generator tracks the size of every live relation so that most steps are inside the contract of the class
(about 4 % are deliberately outside: index >= size, unequal sizes for &=, dead pool entry, rowSize 0, ragged rows:
harness and model must both refuse them), and steers towards the branches of the class:
capacity exactly reached / exceeded (small rowSize parameters, the default 16 with sizes 15..17 and 31..33),
shrinking and growing again inside the capacity (stale cells), split/alloc at the capacity boundary,
transposed into a smaller / larger / the same object, index builds into non-empty vectors, equivalences,
preorders and arbitrary relations for RestrictToSymmetric / GetQuotientProjection / buildClasses.

usage: gen_binrel.py <seed> <count>      prints `C <id> binrel ...` lines
"""
import random
import sys


def bit(rng, p=0.5):
    return "1" if rng.random() < p else "0"


def rows_tok(rows):
    if not rows:
        return "-"
    return "/".join("".join("1" if b else "0" for b in r) for r in rows)


def rand_matrix(rng, n, kind=None):
    kind = kind or rng.choice(["equiv", "equiv", "preorder", "random", "sym", "sparse", "full", "diag"])
    if kind == "equiv":
        k = rng.randint(1, max(1, n))
        cls = [rng.randrange(k) for _ in range(n)]
        return [[cls[i] == cls[j] for j in range(n)] for i in range(n)]
    if kind == "preorder":
        k = rng.randint(1, max(1, n))
        cls = [rng.randrange(k) for _ in range(n)]
        return [[cls[i] <= cls[j] for j in range(n)] for i in range(n)]
    if kind == "sym":
        m = [[False] * n for _ in range(n)]
        for i in range(n):
            for j in range(i, n):
                m[i][j] = m[j][i] = rng.random() < 0.4
        return m
    if kind == "sparse":
        return [[rng.random() < 0.15 for _ in range(n)] for _ in range(n)]
    if kind == "full":
        return [[True] * n for _ in range(n)]
    if kind == "diag":
        return [[i == j for j in range(n)] for i in range(n)]
    return [[rng.random() < 0.5 for _ in range(n)] for _ in range(n)]


def idx_tok(rng, nrows_hint):
    """a pre-filled vector<vector<size_t>> for the index builders (mostly empty)"""
    c = rng.random()
    if c < 0.6:
        return "-"
    n = rng.choice([0, 1, nrows_hint, nrows_hint + 2, max(0, nrows_hint - 1)])
    if n == 0:
        return "-"
    rows = []
    for _ in range(n):
        if rng.random() < 0.5:
            rows.append("_")
        else:
            rows.append(",".join(str(rng.randrange(0, 50)) for _ in range(rng.randint(1, 3))))
    return ";".join(rows)


def nats_tok(rng, hint):
    if rng.random() < 0.5:
        return "-"
    n = rng.choice([1, hint, hint + 3, max(1, hint - 1)])
    return ",".join(str(rng.randrange(0, 40)) for _ in range(max(1, n)))


class Hist:
    def __init__(self, rng):
        self.rng = rng
        self.steps = []
        self.size = []     # size of R[i]
        self.dsize = []    # size of D[i]
        self.dkeys = []    # known states of D[i]
        self.dcnt = []     # indexCnt_ of D[i]
        self.dfree = []    # True when the inner indices of D[i] come from a dictionary (counter restarts at 0)

    # ---- BinaryRelation
    def new(self, size=None, rs=None):
        rng = self.rng
        if size is None:
            size = rng.choice([0, 0, 1, 2, 3, 4, 5, 6, 8])
        c = rng.random()
        if rs is not None:
            self.steps.append(f"new!{size}!{bit(rng)}!{rs}")
        elif c < 0.1:
            self.steps.append("new")
            size = 0
        elif c < 0.2:
            self.steps.append(f"new!{size}")
        elif c < 0.35:
            self.steps.append(f"new!{size}!{bit(rng)}")
        else:
            self.steps.append(f"new!{size}!{bit(rng)}!{rng.choice([1, 1, 2, 2, 3, 4, 4, 5, 7, 8, 16])}")
        self.size.append(size)
        return len(self.size) - 1

    def rows(self, n=None, kind=None):
        rng = self.rng
        if n is None:
            n = rng.choice([0, 1, 2, 3, 4, 5, 6, 7])
        self.steps.append("rows!" + rows_tok(rand_matrix(rng, n, kind)))
        self.size.append(n)
        return len(self.size) - 1

    def pick(self):
        return self.rng.randrange(len(self.size))

    def cell(self, k):
        n = self.size[k]
        return (self.rng.randrange(n), self.rng.randrange(n)) if n > 0 else None

    def mutate(self, k=None):
        """one in-contract step on the R pool"""
        rng = self.rng
        if k is None:
            k = self.pick()
        n = self.size[k]
        c = rng.random()
        if c < 0.22:
            rc = self.cell(k)
            if rc is None:
                return self.grow(k)
            # boundary positions more often
            if rng.random() < 0.3:
                rc = (rng.choice([0, n - 1]), rng.choice([0, n - 1]))
            self.steps.append(f"set!{k}!{rc[0]}!{rc[1]}!{bit(rng)}")
        elif c < 0.26:
            self.steps.append(f"reset!{k}!{bit(rng)}")
        elif c < 0.40:
            self.grow(k)
        elif c < 0.48:
            m = rng.choice([0, max(0, n - 1), max(0, n - 2), n // 2, n])
            self.steps.append(f"resize!{k}!{m}" + ("" if rng.random() < 0.4 else "!" + bit(rng)))
            self.size[k] = m
        elif c < 0.56:
            self.steps.append(f"alloc!{k}")
            self.size[k] = n + 1
        elif c < 0.70:
            if n == 0:
                return self.grow(k)
            i = rng.choice([0, n - 1, rng.randrange(n)])
            self.steps.append(f"split!{k}!{i}" + ("" if rng.random() < 0.3 else "!" + bit(rng, 0.7)))
            self.size[k] = n + 1
        elif c < 0.76:
            self.steps.append(f"copy!{k}")
            self.size.append(n)
        elif c < 0.81:
            j = self.pick()
            self.steps.append(f"assign!{k}!{j}")
            self.size[k] = self.size[j]
        elif c < 0.89:
            j = self.pick() if rng.random() < 0.8 else k
            self.steps.append(f"tr!{k}!{j}")
            self.size[j] = n
        elif c < 0.94:
            same = [j for j in range(len(self.size)) if self.size[j] == n]
            j = rng.choice(same)
            self.steps.append(f"and!{k}!{j}")
        else:
            self.steps.append(f"rsym!{k}")

    def grow(self, k):
        rng = self.rng
        n = self.size[k]
        m = n + rng.choice([1, 1, 1, 2, 3, 5])
        self.steps.append(f"resize!{k}!{m}" + ("" if rng.random() < 0.4 else "!" + bit(rng)))
        self.size[k] = m

    def query(self, k=None):
        rng = self.rng
        if k is None:
            k = self.pick()
        n = self.size[k]
        c = rng.random()
        if c < 0.15:
            self.steps.append(f"bi!{k}!{idx_tok(rng, n)}")
        elif c < 0.30:
            self.steps.append(f"binv!{k}!{idx_tok(rng, n)}")
        elif c < 0.42:
            self.steps.append(f"bi2!{k}!{idx_tok(rng, n)}!{idx_tok(rng, n)}")
        elif c < 0.60:
            self.steps.append(f"qp!{k}!{nats_tok(rng, n)}")
        elif c < 0.70:
            self.steps.append(f"bc1!{k}!{nats_tok(rng, n)}")
        elif c < 0.80:
            self.steps.append(f"bc2!{k}!{nats_tok(rng, n)}!{nats_tok(rng, n)}")
        elif c < 0.86:
            self.steps.append(f"print!{k}")
        else:
            rc = self.cell(k)
            if rc is not None:
                self.steps.append(f"{rng.choice(['get', 'sym'])}!{k}!{rc[0]}!{rc[1]}")

    def outside(self):
        """a step outside the contract: refused by harness and model alike"""
        rng = self.rng
        k = self.pick()
        n = self.size[k]
        c = rng.randrange(7)
        if c == 0:
            self.steps.append(f"set!{k}!{n}!{rng.randrange(n + 1)}!1")
        elif c == 1:
            self.steps.append(f"get!{k}!{rng.randrange(n + 1)}!{n + rng.randrange(3)}")
        elif c == 2:
            self.steps.append(f"split!{k}!{n}")
        elif c == 3:
            other = [j for j in range(len(self.size)) if self.size[j] != n]
            if other:
                self.steps.append(f"and!{k}!{rng.choice(other)}")
        elif c == 4:
            self.steps.append(f"copy!{len(self.size) + rng.randrange(3)}")
        elif c == 5:
            self.steps.append(f"new!{rng.randrange(3)}!{bit(rng)}!0")
        else:
            self.steps.append("rows!01/1")

    # ---- DiscontBinaryRelation
    def dfrom(self, k, full=True):
        rng = self.rng
        n = self.size[k]
        keys = rng.sample(range(0, 60), n)
        idx = list(range(n))
        rng.shuffle(idx)
        pairs = list(zip(keys, idx))
        if not full and pairs:
            pairs = pairs[: rng.randrange(len(pairs))]
        rng.shuffle(pairs)
        tok = ",".join(f"{a}>{b}" for a, b in pairs) if pairs else "-"
        self.steps.append(f"dfrom!{k}!{tok}!{rng.randrange(4)}")
        self.dsize.append(n)
        self.dkeys.append([a for a, _ in pairs])
        self.dcnt.append(0)
        self.dfree.append(False)
        return len(self.dsize) - 1

    def dnew(self):
        rng = self.rng
        size = rng.choice([0, 1, 2, 3, 4, 5])
        c = rng.random()
        if c < 0.1:
            self.steps.append("dnew")
            size = 0
        elif c < 0.3:
            self.steps.append(f"dnew!{size}")
        elif c < 0.5:
            self.steps.append(f"dnew!{size}!{bit(rng)}")
        else:
            self.steps.append(f"dnew!{size}!{bit(rng)}!{rng.choice([1, 2, 3, 4, 16])}")
        self.dsize.append(size)
        self.dkeys.append([])
        self.dcnt.append(0)
        self.dfree.append(True)
        return len(self.dsize) - 1

    def dstep(self):
        rng = self.rng
        x = rng.randrange(len(self.dsize))
        keys = self.dkeys[x]
        c = rng.random()
        if c < 0.30:
            # set: known states; new states only while the counter stays below the size
            room = self.dsize[x] - self.dcnt[x]
            allow_new = room >= 2 and (self.dfree[x] or rng.random() < 0.15)
            def key():
                if keys and (not allow_new or rng.random() < 0.6):
                    return rng.choice(keys)
                if allow_new:
                    return rng.randrange(60, 90)
                return None
            a, b = key(), key()
            if a is None or b is None:
                return
            for q in (b, a):
                if q not in keys:
                    keys.append(q)
                    self.dcnt[x] += 1
            self.steps.append(f"dset!{x}!{a}!{b}!{bit(rng)}")
        elif c < 0.42:
            if keys and rng.random() < 0.85:
                self.steps.append(f"dget!{x}!{rng.choice(keys)}!{rng.choice(keys)}")
            else:
                self.steps.append(f"dget!{x}!{rng.randrange(90, 95)}!{rng.choice(keys) if keys else 91}")
        elif c < 0.54:
            self.steps.append(f"dbi!{x}")
        elif c < 0.62:
            self.steps.append(f"dbi2!{x}")
        elif c < 0.70:
            self.steps.append(f"drsym!{x}")
        elif c < 0.82:
            self.steps.append(f"dqp!{x}")
        elif c < 0.90:
            self.steps.append(f"dstr!{x}")
        elif c < 0.96:
            self.steps.append(f"{rng.choice(['dcopy', 'dmove'])}!{x}")
            self.dsize.append(self.dsize[x])
            self.dkeys.append(list(keys))
            self.dcnt.append(self.dcnt[x])
            self.dfree.append(self.dfree[x])
        else:
            y = rng.randrange(len(self.dsize))
            self.steps.append(f"dassign!{x}!{y}")
            self.dsize[x] = self.dsize[y]
            self.dkeys[x] = list(self.dkeys[y])
            self.dcnt[x] = self.dcnt[y]
            self.dfree[x] = self.dfree[y]

    def tok(self):
        return "binrel " + " ".join(self.steps)


def g_core(rng):
    """mutators and queries interleaved over several live relations with small capacities"""
    h = Hist(rng)
    h.new()
    if rng.random() < 0.6:
        (h.new if rng.random() < 0.6 else h.rows)()
    for _ in range(rng.randint(6, 28)):
        c = rng.random()
        if c < 0.04:
            h.outside()
        elif c < 0.66:
            h.mutate()
        elif c < 0.70 and len(h.size) < 5:
            (h.new if rng.random() < 0.5 else h.rows)()
        else:
            h.query()
    return h.tok()


def g_boundary(rng):
    """the default capacity 16 (and 32): sizes around the boundary, split/alloc across it, shrink and regrow"""
    h = Hist(rng)
    base = rng.choice([14, 15, 16, 17, 30, 31, 32, 33])
    c = rng.random()
    if c < 0.4:
        h.steps.append(f"new!{base}!{bit(rng)}")
        h.size.append(base)
    elif c < 0.7:
        h.rows(min(base, 18), rng.choice(["equiv", "random", "preorder"]))
    else:
        h.new(rng.choice([0, 1, 3]), rs=16)
        h.steps.append(f"resize!0!{base}!{bit(rng)}")
        h.size[0] = base
    for _ in range(rng.randint(3, 9)):
        n = h.size[0]
        c = rng.random()
        if c < 0.25 and n > 0:
            h.steps.append(f"split!0!{rng.randrange(n)}!{bit(rng, 0.7)}")
            h.size[0] = n + 1
        elif c < 0.4:
            h.steps.append("alloc!0")
            h.size[0] = n + 1
        elif c < 0.6 and n > 0:
            h.steps.append(f"set!0!{rng.choice([0, n - 1, rng.randrange(n)])}!{rng.choice([0, n - 1, rng.randrange(n)])}!{bit(rng)}")
        elif c < 0.7:
            m = rng.choice([n - 1, n - 3, 15, 16, 17]) if n > 3 else n + 1
            h.steps.append(f"resize!0!{m}!{bit(rng)}")
            h.size[0] = m
        elif c < 0.8:
            if len(h.size) < 3:
                h.steps.append("copy!0")
                h.size.append(n)
            else:
                h.steps.append("tr!0!1")
                h.size[1] = n
        else:
            h.query(0)
    return h.tok()


def g_equiv(rng):
    """equivalences, preorders and near-equivalences: RestrictToSymmetric, GetQuotientProjection, buildClasses, split"""
    h = Hist(rng)
    n = rng.choice([1, 2, 3, 4, 5, 6, 7, 8, 9])
    h.rows(n, rng.choice(["equiv", "equiv", "preorder", "preorder", "sym", "random", "diag", "full"]))
    for _ in range(rng.randint(3, 12)):
        c = rng.random()
        k = h.pick()
        m = h.size[k]
        if c < 0.2:
            h.steps.append(f"rsym!{k}")
        elif c < 0.45:
            h.steps.append(f"qp!{k}!{nats_tok(rng, m)}")
        elif c < 0.55:
            h.steps.append(f"bc1!{k}!{nats_tok(rng, m)}")
        elif c < 0.65:
            h.steps.append(f"bc2!{k}!{nats_tok(rng, m)}!{nats_tok(rng, m)}")
        elif c < 0.75 and m > 0:
            h.steps.append(f"split!{k}!{rng.randrange(m)}!{bit(rng, 0.8)}")
            h.size[k] = m + 1
        elif c < 0.82 and m > 0:
            h.steps.append(f"set!{k}!{rng.randrange(m)}!{rng.randrange(m)}!{bit(rng)}")
        elif c < 0.88:
            h.steps.append(f"copy!{k}")
            h.size.append(m)
        elif c < 0.94:
            j = h.pick()
            h.steps.append(f"tr!{k}!{j}")
            h.size[j] = m
        else:
            h.query(k)
    return h.tok()


def g_disc(rng):
    """DiscontBinaryRelation: from a relation and a dictionary (all four constructors), or from a size and set()"""
    h = Hist(rng)
    n = rng.choice([0, 1, 2, 3, 4, 5, 6])
    if rng.random() < 0.7:
        h.rows(n)
    else:
        h.new(n)
        for _ in range(rng.randint(0, 6)):
            if h.size[0] > 0:
                rc = h.cell(0)
                h.steps.append(f"set!0!{rc[0]}!{rc[1]}!{bit(rng)}")
    h.dfrom(0, full=rng.random() < 0.85)
    if rng.random() < 0.5:
        h.dnew()
    for _ in range(rng.randint(4, 18)):
        c = rng.random()
        if c < 0.06:
            h.mutate(0)          # the relation the object was copied from changes: the copy must not
        elif c < 0.10 and len(h.dsize) < 4:
            (h.dnew if rng.random() < 0.5 else (lambda: h.dfrom(h.pick(), full=rng.random() < 0.8)))()
        else:
            h.dstep()
    return h.tok()


def g_ident(rng):
    h = Hist(rng)
    for _ in range(rng.randint(1, 3)):
        h.steps.append(f"id!{rng.choice([0, 1, 2, 3, 4, 5, 6, 9, 17])}")
    h.new()
    for _ in range(rng.randint(0, 4)):
        h.mutate()
    return h.tok()


def g_binrel(rng):
    """one `binrel` case"""
    c = rng.random()
    if c < 0.45:
        return g_core(rng)
    if c < 0.55:
        return g_boundary(rng)
    if c < 0.75:
        return g_equiv(rng)
    if c < 0.95:
        return g_disc(rng)
    return g_ident(rng)


if __name__ == "__main__":
    seed = int(sys.argv[1]) if len(sys.argv) > 1 else 1
    count = int(sys.argv[2]) if len(sys.argv) > 2 else 10
    rng = random.Random(seed)
    for i in range(count):
        print("C", i, g_binrel(rng))
