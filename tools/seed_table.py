#!/usr/bin/env python3
"""seed_table.py <round-tag> : markdown rows (change | property | detected by the quick check | first finding) for the seeded changes whose
name contains the tag, from seeded/*/meta.json and seeded/RESULTS.json – the raw material of DESIGN.md §12."""
import glob, json, os, sys
here = os.path.dirname(os.path.dirname(os.path.abspath(__file__)))
tag = sys.argv[1]
res = json.load(open(os.path.join(here, "seeded", "RESULTS.json")))
for d in sorted(glob.glob(os.path.join(here, "seeded", f"*{tag}*"))):
    name = os.path.basename(d)
    meta = json.load(open(os.path.join(d, "meta.json")))
    r = res.get(name, {})
    verdict = ((r.get("replay") or {}).get("verdict") or "").split(" ;; ")[0][:110]
    tail = " ".join(r.get("lines", []))
    how = "DETECTED" if r.get("detected") else ("MISSED" if r else "not swept")
    if "no-failing-input-found" in tail:
        how += " (no-failing-input-found)"
    print(f"| {name} | {meta['property']} | {how} | {verdict} |")
