#!/usr/bin/env python3
"""check.py <Cxx> --tier quick|thorough [--replay file]   – the only entry point of the checks (DESIGN.md §6).

(P) proof obligations: lake build + axiom audit of the theorems listed for the property in lean/obligations.json.
(K) correspondence: generated + corpus cases run on the real library (vharness, ASan+UBSan build of /repo's working
    tree) and judged by the compiled Lean driver (vdriver) with the proved L1 deciders and the L2 models.
(S) search: on a broken obligation or a mismatch the property predicate is evaluated on further generated cases.
Writes evidence/<Cxx>.json; prints VIOLATION / KNOWN-FINDING lines; exit 1 on an unlisted violation.
"""
import argparse, concurrent.futures as cf, json, os, re, subprocess, sys, time

HERE = os.path.dirname(os.path.abspath(__file__))
VERIF = os.path.dirname(HERE)
sys.path.insert(0, HERE)
import build_repo, gen, props, cli_slice  # noqa: E402

LEAN = os.path.join(VERIF, "lean")
WORK = os.path.join(VERIF, ".work")
ALLOWED_AXIOMS = {"propext", "Classical.choice", "Quot.sound"}
NWORKERS = int(os.environ.get("VERIF_JOBS", "16"))
# evidence goes to /verif/evidence; mutation sweeps (tools/mutation_sweep.py) redirect it so that the committed evidence
# always comes from runs against /repo itself
EVID = os.environ.get("VERIF_EVIDENCE_DIR", os.path.join(VERIF, "evidence"))


def sh(cmd, cwd=None, inp=None, timeout=None):
    p = subprocess.run(cmd, cwd=cwd, input=inp, shell=isinstance(cmd, str), stdout=subprocess.PIPE,
                       stderr=subprocess.PIPE, text=True, timeout=timeout)
    return p.returncode, p.stdout, p.stderr


# ------------------------------------------------------------------------------------------ (P) proofs
def ensure_lean(build, prop=None):
    """regenerate the tables from the repo, build the Lean library and the driver, audit the obligations – all under one lock
    (concurrent checks may run against different trees); returns (ok, log, private copy of the driver, audit dict)"""
    import fcntl, shutil
    os.makedirs(WORK, exist_ok=True)
    lock = open(os.path.join(WORK, "lean.lock"), "w")
    fcntl.flock(lock, fcntl.LOCK_EX)
    try:
        tlog = ""
        try:
            import extract_tables
            tlog = extract_tables.regenerate(os.environ.get("VERIF_REPO", "/repo"), os.path.join(LEAN, "Vata", "Generated", "Tables.lean"))
        except ImportError:
            pass
        rc, out, err = sh(["lake", "build", "Vata", "vdriver"], cwd=LEAN)
        if rc != 0:
            # the library may fail (a theorem over the regenerated table no longer checks) while the driver still builds
            sh(["lake", "build", "vdriver"], cwd=LEAN)
        drv = os.path.join(LEAN, ".lake", "build", "bin", "vdriver")
        priv = os.path.join(WORK, f"vdriver-{os.getpid()}")
        if os.path.exists(drv):
            shutil.copy(drv, priv)
        aud = audit(prop, rc == 0, tlog + out + err) if prop else None
        return rc == 0, tlog + out + err, priv, aud
    finally:
        fcntl.flock(lock, fcntl.LOCK_UN)
        lock.close()


def audit(prop, lean_ok, lean_log):
    """#print axioms for every obligation of the property; grep the sources; returns dict"""
    obl = json.load(open(os.path.join(LEAN, "obligations.json")))
    names = obl.get(prop, [])
    res = dict(obligations=len(names), discharged=0, names=names, broken=[], axioms={}, forbidden_tokens=[])
    if not lean_ok:
        # which modules failed?  obligations proved in modules that still build are confirmed individually below through
        # the modules that were built; the others are reported as broken
        failed = re.findall(r"^- (Vata[\w.]*)$", lean_log, flags=re.M)
        res["failed_modules"] = failed
        res["build_log_tail"] = lean_log[-3000:]
        mods = [l.split()[1] for l in open(os.path.join(LEAN, "Vata.lean")) if l.startswith("import ")]
        good = [m for m in mods if m not in failed and os.path.exists(os.path.join(LEAN, ".lake", "build", "lib", "lean", *m.split(".")) + ".olean")]
        src = "".join(f"import {m}\n" for m in good) + "".join(f"#print axioms {n}\n" for n in names)
    else:
        src = "import Vata\n" + "".join(f"#print axioms {n}\n" for n in names)
    if False:
        pass
    path = os.path.join(WORK, f"Audit_{prop}.lean")
    open(path, "w").write(src)
    rc, out, err = sh(["lake", "env", "lean", path], cwd=LEAN)
    text = out + err
    for n in names:
        m = re.search(r"'" + re.escape(n) + r"' depends on axioms: \[([^\]]*)\]", text)
        m0 = re.search(r"'" + re.escape(n) + r"' does not depend on any axioms", text)
        if m0:
            res["axioms"][n] = []
            res["discharged"] += 1
        elif m:
            ax = [a.strip() for a in m.group(1).replace("\n", " ").split(",") if a.strip()]
            res["axioms"][n] = ax
            bad = [a for a in ax if a not in ALLOWED_AXIOMS]
            if bad:
                res["broken"].append(dict(theorem=n, reason="axioms " + ",".join(bad)))
            else:
                res["discharged"] += 1
        else:
            res["broken"].append(dict(theorem=n, reason="theorem not found / does not check"))
    # forbidden tokens in the sources (comments stripped roughly)
    pat = re.compile(r"\b(sorry|admit|native_decide|bv_decide|implemented_by|unsafe)\b|^axiom |maxHeartbeats 0")
    for root, _, fs in os.walk(os.path.join(LEAN, "Vata")):
        for f in fs:
            if f.endswith(".lean"):
                txt = open(os.path.join(root, f)).read()
                txt = re.sub(r"/-.*?-/", "", txt, flags=re.S)
                for ln in txt.splitlines():
                    ln = ln.split("--")[0]
                    if pat.search(ln):
                        res["forbidden_tokens"].append(f"{f}: {ln.strip()[:80]}")
    if res["forbidden_tokens"]:
        res["broken"].append(dict(theorem="*", reason="forbidden token in sources: " + "; ".join(res["forbidden_tokens"][:3])))
    return res


# ------------------------------------------------------------------------------------------ (K) correspondence
def run_harness(harness, lines, timeout_s):
    """lines: list of '<id> <kind> <args>'; returns dict id -> result text. Restarts the harness after a crash/timeout."""
    results = {}
    pending = list(lines)
    while pending:
        inp = "\n".join(pending) + "\n"
        try:
            p = subprocess.run([harness, str(timeout_s)], input=inp, stdout=subprocess.PIPE, stderr=subprocess.PIPE,
                               text=True, timeout=timeout_s * len(pending) + 60)
            out, err, rc = p.stdout, p.stderr, p.returncode
        except subprocess.TimeoutExpired as e:
            out, err, rc = (e.stdout or b"").decode() if isinstance(e.stdout, bytes) else (e.stdout or ""), "outer timeout", -9
        done = 0
        for ln in out.splitlines():
            parts = ln.split(" ", 1)
            if len(parts) == 2 and done < len(pending) and pending[done].split(" ", 1)[0] == parts[0]:
                results[parts[0]] = parts[1]
                done += 1
        if done == len(pending):
            break
        if done > 0 and results[pending[done - 1].split(" ", 1)[0]] == "TIMEOUT":
            pending = pending[done:]
            continue
        # the case without a result line crashed the process
        cid = pending[done].split(" ", 1)[0]
        summary = "rc=%s " % rc
        m = re.search(r"(ERROR: AddressSanitizer: [^\n]*|runtime error: [^\n]*|SUMMARY: [^\n]*)", err)
        if m:
            summary += m.group(1)[:200]
        else:
            summary += (err.strip().splitlines() or ["no stderr"])[-1][:200]
        results[cid] = "CRASH " + summary.replace("\n", " ")
        pending = pending[done + 1:]
    return results


def run_driver(driver, lines, results):
    merged = []
    for ln in lines:
        cid = ln.split(" ", 1)[0]
        merged.append("C " + ln)
        merged.append("R " + cid + " " + results.get(cid, "CRASH no result"))
    try:
        rc, out, err = sh([driver], inp="\n".join(merged) + "\n", timeout=1800)
    except subprocess.TimeoutExpired as e:
        # the model side must never decide a case by not answering: unjudged cases are internal errors, not verdicts
        out = (e.stdout or b"").decode() if isinstance(e.stdout, bytes) else (e.stdout or "")
        rc, err = -9, "driver budget exhausted"
    verdicts = {}
    for ln in out.splitlines():
        parts = ln.split(" ", 1)
        verdicts[parts[0]] = parts[1] if len(parts) > 1 else ""
    if rc != 0:
        for ln in lines:
            cid = ln.split(" ", 1)[0]
            verdicts.setdefault(cid, "error driver crashed: " + err.strip()[-200:])
    return verdicts


def run_cases(build, driver, cases, timeout_s=10, isolate=False):
    """cases: list of case texts (without id). Returns list of dict(case, result, verdict).
    isolate: every case in its own harness process (process-wide state such as the MTBDD node store starts fresh)."""
    lines = [f"{i} {c}" for i, c in enumerate(cases)]
    if isolate:
        chunks = [[ln] for ln in lines]
    else:
        chunks = [lines[i::NWORKERS] for i in range(NWORKERS)]
    chunks = [c for c in chunks if c]

    def work(chunk):
        res = run_harness(build["harness"], chunk, timeout_s)
        # a TIMEOUT is only judged after the case has been re-run alone with a doubled budget
        for ln in chunk:
            cid = ln.split(" ", 1)[0]
            if res.get(cid) == "TIMEOUT":
                r2 = run_harness(build["harness"], [ln], 2 * timeout_s)
                res[cid] = r2.get(cid, "TIMEOUT")
        ver = run_driver(driver, chunk, res)
        return res, ver

    allres, allver = {}, {}
    with cf.ThreadPoolExecutor(max_workers=NWORKERS) as ex:
        for res, ver in ex.map(work, chunks):
            allres.update(res)
            allver.update(ver)
    out = []
    for i, c in enumerate(cases):
        r = allres.get(str(i), "CRASH no result")
        v = allver.get(str(i), "error no verdict")
        if r.startswith("OPDISABLED"):
            # the histories of this utility class no longer compile against the tree under test (build_repo switched the op off)
            v = (f"mismatch the harness code for kind `{c.split(' ', 1)[0]}` does not compile against the tree under test: the "
                 "correspondence between this utility class and its model cannot be checked")
        out.append(dict(case=c, result=r, verdict=v))
    return out


def valgrind_pass(cases, timeout_s):
    """runs the cases in an unsanitised harness under valgrind memcheck, one process per chunk; a chunk with an error report is
    bisected to the case; returns result dicts with verdict `violation crash valgrind …` or `ok valgrind`"""
    plain = build_repo.ensure_build("plain")
    env = dict(os.environ, VHARNESS_NOASLR="1")

    def run_chunk(chunk):
        inp = "\n".join(f"{i} {c}" for i, c in enumerate(chunk)) + "\n"
        try:
            p = subprocess.run(["valgrind", "-q", "--error-exitcode=9", "--child-silent-after-fork=no", "--trace-children=no",
                                plain["harness"], str(20 * timeout_s), str(60)], input=inp, stdout=subprocess.PIPE,
                               stderr=subprocess.PIPE, text=True, timeout=3600, env=env)
            return p.returncode, p.stderr
        except subprocess.TimeoutExpired:
            return 0, ""

    def bisect(chunk):
        if len(chunk) == 1:
            rc, err = run_chunk(chunk)
            if rc == 9:
                first = (re.findall(r"==\d+== ([A-Z][^\n]*)", err) or ["valgrind error"])[0]
                where = (re.findall(r"==\d+==\s+(?:at|by) 0x[0-9A-F]+: ([^\n]*)", err) or [""])[:3]
                return [dict(case=chunk[0], result="CRASH valgrind " + first, verdict="violation crash valgrind: " + first + " @ " + " < ".join(where))]
            return [dict(case=chunk[0], result="valgrind clean", verdict="ok valgrind")]
        rc, err = run_chunk(chunk)
        if rc != 9:
            return [dict(case=c, result="valgrind clean", verdict="ok valgrind") for c in chunk]
        mid = len(chunk) // 2
        return bisect(chunk[:mid]) + bisect(chunk[mid:])

    chunks = [cases[i::NWORKERS] for i in range(NWORKERS)]
    out = []
    with cf.ThreadPoolExecutor(max_workers=NWORKERS) as ex:
        for rs in ex.map(bisect, [c for c in chunks if c]):
            out += rs
    return out


def run_cli(build, driver, cases):
    outs = cli_slice.run(build["vata"], cases, jobs=NWORKERS)
    lines = [f"{i} {c}" for i, c in enumerate(cases)]
    res = {str(i): o for i, o in enumerate(outs)}
    ver = run_driver(driver, lines, res)
    return [dict(case=c, result=res[str(i)], verdict=ver.get(str(i), "error no verdict"), via="cli") for i, c in enumerate(cases)]


# ------------------------------------------------------------------------------------------ shrinking
def finding_class(verdict):
    """stable identifier of a finding: first finding's leading words without numbers"""
    first = verdict.split(" ;; ")[0]
    w = first.split(" ")
    return " ".join(w[:2])


def shrink(build, driver, case, cls, budget=200):
    """delta debugging on the automata tokens of a case: drop rules / final states while the finding class persists"""
    def variants(text):
        toks = text.split(" ")
        for ti, t in enumerate(toks):
            if "|" not in t:
                continue
            pre = ""
            if t.startswith("def:"):
                pre, t = "def:", t[4:]
            parts = t.split("|")
            rules = [r for r in parts[0].split(";") if r]
            for ri in range(len(rules)):
                nr = rules[:ri] + rules[ri + 1:]
                yield " ".join(toks[:ti] + [pre + "|".join([";".join(nr)] + parts[1:])] + toks[ti + 1:])
            for pi in range(1, len(parts)):
                fs = [f for f in parts[pi].split(",") if f]
                for fi in range(len(fs)):
                    nf = fs[:fi] + fs[fi + 1:]
                    yield " ".join(toks[:ti] + [pre + "|".join(parts[:pi] + [",".join(nf)] + parts[pi + 1:])] + toks[ti + 1:])

    def drop_steps(text):
        toks = text.split(" ")
        if toks[0] in ("nfah", "tah", "bddh", "mtbddh", "storeh"):
            for i in range(len(toks) - 1, 0, -1):
                if not toks[i].startswith("def:"):
                    yield " ".join(toks[:i] + toks[i + 1:])

    cur = case
    steps = 0
    improved = True
    while improved and steps < budget:
        improved = False
        cands = (list(drop_steps(cur)) + list(variants(cur)))[: 96]
        if not cands:
            break
        rs = run_cases(build, driver, cands, isolate=True)
        steps += len(cands)
        for r in rs:
            v = r["verdict"]
            if (v.startswith("violation") or v.startswith("mismatch")) and finding_class(v) == cls:
                cur = r["case"]
                improved = True
                break
    return cur


# ------------------------------------------------------------------------------------------ known findings
def load_known():
    p = os.path.join(VERIF, "known_findings.json")
    if not os.path.exists(p):
        return []
    return [e for e in json.load(open(p)).get("findings", []) if e.get("status") == "known"]


def match_known(known, prop, case, verdict):
    for e in known:
        if e["property"] != prop:
            continue
        if e.get("kind") and not case.startswith(e["kind"] + " "):
            continue
        if e.get("predicate") and e["predicate"] not in verdict:
            continue
        if e.get("case_regex") and not re.search(e["case_regex"], case):
            continue
        return e
    return None


# ------------------------------------------------------------------------------------------ main
def main():
    ap = argparse.ArgumentParser()
    ap.add_argument("prop")
    ap.add_argument("--tier", default=os.environ.get("VERIF_TIER", "quick"))
    ap.add_argument("--replay")
    ap.add_argument("--n", type=int)
    args = ap.parse_args()
    prop, tier = args.prop, args.tier
    seed = int(os.environ.get("VERIF_SEED", "1"))
    t0 = time.time()
    cfg = props.PROPS[prop]
    os.makedirs(os.path.join(EVID, "replays"), exist_ok=True)

    timing = {}
    try:
        build = build_repo.ensure_build()
        timing["build_repo_s"] = round(time.time() - t0, 1)
    except RuntimeError as e:
        # the tree does not build: nothing can be shown to hold
        rp = os.path.join(EVID, "replays", f"{prop}-build.json")
        json.dump(dict(property=prop, broken="build of /repo's working tree", log=str(e)[-4000:]), open(rp, "w"), indent=1)
        print(f"VIOLATION property={prop} replay={rp} no-failing-input-found")
        write_evidence(prop, tier, seed, cfg, dict(obligations=0, discharged=0, names=[], broken=[]), [], [], time.time() - t0, 1, {})
        return 1
    t1 = time.time()
    lean_ok, lean_log, driver, aud = ensure_lean(build, prop)
    timing["lean_build_audit_s"] = round(time.time() - t1, 1)
    import atexit
    atexit.register(lambda: os.path.exists(driver) and os.remove(driver))
    if not os.path.exists(driver):
        print("internal error: driver not built\n" + lean_log[-3000:])
        return 2

    # thorough tier: the compiled property modules are replayed through the kernel once more by the toolchain's independent
    # re-checker (`leanchecker`: declarations of the module are re-added to a fresh environment and type-checked)
    if tier == "thorough" and lean_ok and not args.replay and not args.n:
        import glob as _glob
        t1 = time.time()
        mods = ["Vata.Properties." + os.path.basename(f)[:-5] for f in sorted(_glob.glob(os.path.join(LEAN, "Vata", "Properties", prop + "*.lean")))]
        mods += ["Vata.Properties.Dispatch", "Vata.Properties.CacheWiring"] if prop in ("C01", "C07", "C09") else []
        mods += ["Vata.Properties.WrapperForward"] if prop in ("C02", "C03", "C08", "C10", "C14") else []
        rechecked = {}
        for m in mods:
            rc, out, err = sh(["lake", "env", "leanchecker", m], cwd=LEAN)
            rechecked[m] = rc
            if rc != 0:
                aud["broken"].append(dict(theorem=m, reason="leanchecker rejects the compiled module: " + (out + err)[-300:]))
        aud["leanchecker"] = rechecked
        timing["leanchecker_s"] = round(time.time() - t1, 1)

    if args.replay:
        rp = json.load(open(args.replay))
        cases = rp.get("cases") or [rp["case"]]
        if rp.get("via") == "plain":
            build = build_repo.ensure_build("plain")
        rs = run_cli(build, driver, cases) if rp.get("via") == "cli" else run_cases(build, driver, cases, cfg.get("timeout", 10))
        bad = 0
        for r in rs:
            print(r["case"], "=>", r["result"][:300], "=>", r["verdict"])
            if not r["verdict"].startswith("ok"):
                bad = 1
        return bad

    # corpus first, then generated
    corpus = props.corpus_cases(prop)
    n = args.n or cfg["n"][tier]
    gen_cases = props.generate(prop, n, seed, tier)
    enum_desc, enum_cases = None, []
    if tier == "thorough" and not args.n:
        e = gen.enumerated(prop)
        if e:
            enum_desc, enum_cases = e
    corpus_cli = [c for c in corpus if c.startswith("cliop ")]       # witnesses that live in the command-line glue
    corpus = [c for c in corpus if not c.startswith("cliop ")]
    cases = corpus + enum_cases + gen_cases
    t1 = time.time()
    results = run_cases(build, driver, cases, cfg.get("timeout", 10))
    timing["cases_s"] = round(time.time() - t1, 1)

    # a slice of the cases goes through the real `vata` binary (glue: option parsing, dictionaries, sanitising, simulation set-up)
    if (cfg.get("cli") and not args.n) or corpus_cli:
        cli_cases = list(corpus_cli)
        if cfg.get("cli") and not args.n:
            cli_cases += gen.generate(cfg["cli"]["kinds"], cfg["cli"][tier], seed * 7919 + 13)
        t1 = time.time()
        results += run_cli(build, driver, cli_cases)
        timing["cli_s"] = round(time.time() - t1, 1)

    # a slice of FRESH cases on the unsanitised build: AddressSanitizer keeps freed memory in quarantine, so anything that
    # depends on an address being reused at once (memo tables keyed by pointers, containers ordered by address) behaves
    # differently there than in the build users run
    if cfg.get("plain") and not args.n:
        t1 = time.time()
        bplain = build_repo.ensure_build("plain")
        pcases = props.generate(prop, cfg["plain"][tier], seed * 104729 + 7, tier)
        rs = run_cases(bplain, driver, pcases, cfg.get("timeout", 10))
        for r in rs:
            r["via"] = "plain"
        results += rs
        timing["plain_s"] = round(time.time() - t1, 1)

    # C20 thorough: a valgrind-memcheck pass (uninitialised values, invalid reads the sanitizers' redzones miss) of an
    # unsanitised build over the corpus and a sample of every kind
    if cfg.get("only_crashes") and tier == "thorough":
        results += valgrind_pass(corpus + gen_cases[:: max(1, len(gen_cases) // 400)], cfg.get("timeout", 10))

    known = load_known()
    violations, knowns, errors = [], [], []
    for r in results:
        v = r["verdict"]
        if v.startswith("ok"):
            continue
        if v.startswith("error"):
            errors.append(r)
            continue
        if cfg.get("only_crashes") and not (v.startswith("violation crash") or "uninitialised" in v):
            # C20 judges memory errors / undefined behaviour only; the functional verdict of the case belongs to another property
            continue
        e = match_known(known, prop, r["case"], v)
        if e:
            knowns.append((e, r))
        else:
            violations.append(r)

    # (S) a broken obligation without a failing input found so far: search further
    extra_searched = 0
    if aud["broken"] and not violations:
        more = props.generate(prop, cfg["n"]["search"], seed + 7919, tier)
        rs2 = run_cases(build, driver, more, cfg.get("timeout", 10))
        extra_searched = len(more)
        for r in rs2:
            v = r["verdict"]
            if cfg.get("only_crashes") and not (v.startswith("violation crash") or "uninitialised" in v):
                continue
            if not v.startswith("ok") and not v.startswith("error") and not match_known(known, prop, r["case"], v):
                violations.append(r)
        results += rs2
    # ... and on the UNSANITISED build: AddressSanitizer quarantines freed memory, so behaviour that needs an address to be
    # reused at once (a stale memo entry keyed by a pointer) cannot show in the sanitised harness
    if aud["broken"] and not violations and not cfg.get("only_crashes") and not args.n:
        try:
            bplain = build_repo.ensure_build("plain")
            rs3 = run_cases(bplain, driver, gen_cases + more, cfg.get("timeout", 10))
            extra_searched += len(rs3)
            for r in rs3:
                r["via"] = "plain"
                v = r["verdict"]
                if not v.startswith("ok") and not v.startswith("error") and not match_known(known, prop, r["case"], v):
                    violations.append(r)
            results += rs3
        except Exception as e:  # noqa
            print("note: search on the unsanitised build skipped:", str(e)[:200])

    exit_code = 0
    printed = set()
    for e, r in knowns:
        if e["id"] not in printed:
            print(f"KNOWN-FINDING: property={prop} {e['what']}")
            printed.add(e["id"])
    replays = []
    if violations:
        # genuine violations first (a proved checker refutes the predicate), then mismatches
        violations.sort(key=lambda r: (0 if r["verdict"].startswith("violation") else 1, len(r["case"])))
        # prefer a case that also fails when run alone in a fresh process (not a victim of process-wide state left
        # behind by an earlier failing case)
        first = violations[0]
        if first.get("via") == "plain":
            build = build_repo.ensure_build("plain")      # found on the unsanitised build: confirm / shrink / replay there
        for cand in violations[:12]:
            if cand.get("via") == "cli":
                continue
            r1 = run_cases(build, driver, [cand["case"]], cfg.get("timeout", 10), isolate=True)[0]
            r1["via"] = cand.get("via", "api")
            if not r1["verdict"].startswith("ok") and not r1["verdict"].startswith("error"):
                first = r1
                break
        cls = finding_class(first["verdict"])
        if first.get("via") == "cli":
            small, rs = first["case"], first          # found through the command-line binary: replayed through it, not shrunk
        else:
            small = shrink(build, driver, first["case"], cls)
            rs = run_cases(build, driver, [small], cfg.get("timeout", 10), isolate=True)[0]
            if rs["verdict"].startswith("ok"):
                small, rs = first["case"], first
        k = 0
        while os.path.exists(os.path.join(EVID, "replays", f"{prop}-{k}.json")):
            k += 1
        rp = os.path.join(EVID, "replays", f"{prop}-{k}.json")
        json.dump(dict(property=prop, seed=seed, tier=tier, case=small, original_case=first["case"], via=first.get("via", "api"),
                       implementation_output=rs["result"], verdict=rs["verdict"], finding=cls,
                       n_failing_cases=len(violations), other_failing_cases=[v["case"] for v in violations[1:6]],
                       how_to_replay=f"python3 tools/check.py {prop} --replay {rp}"), open(rp, "w"), indent=1)
        replays.append(rp)
        genuine = first["verdict"].startswith("violation")
        if genuine:
            print(f"VIOLATION property={prop} replay={rp}")
        else:
            # model and implementation differ but no proved checker refuted the property on any explored input
            print(f"VIOLATION property={prop} replay={rp} no-failing-input-found")
        exit_code = 1
    elif aud["broken"]:
        k = 0
        while os.path.exists(os.path.join(EVID, "replays", f"{prop}-obl-{k}.json")):
            k += 1
        rp = os.path.join(EVID, "replays", f"{prop}-obl-{k}.json")
        json.dump(dict(property=prop, broken_obligations=aud["broken"], searched_cases=len(results),
                       note="proof obligations no longer check; no failing input found on the implementation",
                       build_log_tail=aud.get("build_log_tail", "")), open(rp, "w"), indent=1)
        print(f"VIOLATION property={prop} replay={rp} no-failing-input-found")
        exit_code = 1
    if errors:
        # internal errors of the machinery are reported, never judged as verdicts
        print(f"note: {len(errors)} case(s) could not be judged (internal): {errors[0]['verdict'][:120]} :: {errors[0]['case'][:200]}")

    write_evidence(prop, tier, seed, cfg, aud, results, [r for _, r in knowns], time.time() - t0,
                   len(violations) if exit_code else 0, dict(build_hash=build["hash"], corpus=len(corpus), errors=len(errors), timing=timing,
                                      enumerated_scope=(dict(description=enum_desc, cases=len(enum_cases), complete=True) if enum_desc else None),
                                      extra_searched=extra_searched, replays=replays))
    return exit_code


def write_evidence(prop, tier, seed, cfg, aud, results, knowns, wall, nviol, extra):
    oks = [r for r in results if r["verdict"].startswith("ok") or (cfg.get("only_crashes") and "crash" not in r["verdict"])]
    distinct = {}
    for r in oks:
        if props.nontrivial(prop, r):
            distinct[r["case"]] = 1
    tags = {}
    for r in oks:
        for t in r["verdict"].split(" ")[1:]:
            tags[t] = tags.get(t, 0) + 1
    kinds = {}
    for r in results:
        k = r["case"].split(" ", 1)[0] + ("(cli)" if r.get("via") == "cli" else "(unsanitised build)" if r.get("via") == "plain" else "")
        kinds[k] = kinds.get(k, 0) + 1
    samples = [dict(case=r["case"], implementation=r["result"][:400], verdict=r["verdict"]) for r in results[:3]]
    mid = len(results) // 2
    samples += [dict(case=r["case"], implementation=r["result"][:400], verdict=r["verdict"]) for r in results[mid:mid + 3]]
    if not samples:
        samples = [dict(note="no case was run")]
    level = cfg["level"]
    ev = dict(
        property_id=prop, tier=tier, seed=seed, level=level,
        coverage=dict(
            obligations=max(aud["obligations"], 0), discharged=aud["discharged"],
            checker_cmd="cd lean && lake build Vata vdriver && lake env lean ../.work/Audit_%s.lean   (#print axioms on every obligation; grep for sorry/admit/axiom/native_decide/bv_decide/implemented_by/unsafe)" % prop,
            trusted_base=[
                "Lean 4.33 kernel; axioms allowed: propext, Classical.choice, Quot.sound (audited per theorem: see axioms_per_theorem)",
                "Lean compiler/runtime executing the compiled L1 deciders and L2 models in vdriver",
                "the correspondence check: harness/vharness.cc (real library, ASan+UBSan build of /repo's working tree), tools/gen.py generators, canonicalisation",
                "reading of the property into the L0 statement (lean/Vata/Properties/%s.lean)" % prop,
            ],
            theorems=aud.get("names", []), axioms_per_theorem=aud.get("axioms", {}), broken_obligations=aud.get("broken", []),
            leanchecker=aud.get("leanchecker"),
            evaluations=len(results), distinct_nontrivial=len(distinct),
            rule=cfg["rule"], samples=samples, kinds=kinds, tag_histogram=dict(sorted(tags.items(), key=lambda kv: -kv[1])[:40]),
            traces_validated_against_impl=len(oks), known_finding_cases=len(knowns), exhaustive=False, **extra),
        assumptions=cfg.get("assumptions", []),
        wall_s=round(wall, 2), violations=nviol)
    os.makedirs(EVID, exist_ok=True)
    json.dump(ev, open(os.path.join(EVID, f"{prop}.json"), "w"), indent=1)


if __name__ == "__main__":
    sys.exit(main())
