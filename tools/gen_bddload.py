#!/usr/bin/env python3
"""Case generator for the `bddload` kind: histories of LoadFromString / DumpToAutDesc on the two BDD encodings.

    g_bddload(rng) -> "bddload <enc> <step> <step> ..."     (rng: random.Random; step syntax: harness/op_bddload.inc)

All automata of a case live on one fresh alphabet.  What is aimed at:
  * explicit loads (params "" and another word) of ranked and unranked descriptions (one symbol name with several arities),
    arities 0..6, rule order shuffled, duplicate lines, odd spacing, Ops / States lines present, absent or wrong (they
    are not read), final states that occur in no transition, states that are only parents / only children;
  * several automata on the alphabet with overlapping symbol names, with and without a state dictionary (numeric names
    show the numbering: parent first), a second load into a loaded automaton (the state counter restarts at 0);
  * symbolic loads: 16-character symbols over 0 1 X with X in every position (X in the highest positions makes the
    symbolic dump print SHORTER symbols; all-X prints the empty symbol), overlapping cubes, and malformed symbols (15 / 17
    characters, other characters, a name) in the first, a middle and the last transition (exception leaves a partially
    loaded automaton); explicit texts loaded with "symbolic" and symbolic texts loaded explicitly (the strings are names);
  * reloads of the explicit and of the symbolic dump (the latter succeeds only if every path has 16 characters);
  * the symbol counter: descriptions with hundreds to thousands of symbol names (codes beyond the low byte);
  * the arity boundary of the top-down encoding: 62..65, 70, 128 children;
  * texts the parser rejects;
  * rarely (CROSS, default 1/700; environment variable BDDLOAD_CROSS=<probability>) the boundary of the alphabet: a filler
    of 65 535 names (`F:65535:1024:0`), then loads that introduce the 65 536th, 65 537th … name: the new names get the
    codes of the first ones again.  These cases are slow (≈ 10 s in the sanitised harness, minutes in the driver the first
    time, the driver caches the standard filler).
Expected results are NOT generated here (the driver computes them).
"""
import os
import random
import sys

CROSS = float(os.environ.get("BDDLOAD_CROSS", "0"))   # never inside the shared harness: the alphabet is process-wide, a filled alphabet aliases the symbols of every later case

STATES = ["q0", "q1", "q2", "q3", "q4", "q5", "p", "r", "s", "0", "1", "2", "7", "qq", "fin", "Q1", "st-a", "x.y"]
SYMS = ["a", "b", "c", "d", "f", "g", "h", "nil", "cons", "A", "a1", "a2", "+", "*", "f'", "0101010101010101",
        "XXXXXXXXXXXXXXXX", "1111111111111111", "z0", "z1", "z65534"]


def enc_text(t):
    assert "_" not in t and "~" not in t, t
    return t.replace(" ", "_").replace("\n", "~")


def fmt_rule(rng, kids, sym, parent):
    style = rng.random()
    if not kids:
        lhs = sym if style < 0.8 else (sym + "()" if style < 0.9 else sym + "( )")
    elif style < 0.6:
        lhs = "%s(%s)" % (sym, ",".join(kids))
    elif style < 0.85:
        lhs = "%s(%s)" % (sym, ", ".join(kids))
    else:
        lhs = "%s ( %s )" % (sym, " , ".join(kids))
    arrow = " -> " if style < 0.7 or style >= 0.85 else "->"
    return lhs + arrow + parent


def make_text(rng, finals, rules, states=None, ops="right", name="aut"):
    """rules: list of (kids, sym, parent)"""
    lines = []
    head = []
    if ops != "none":
        ranks = {}
        for k, s, _ in rules:
            ranks.setdefault(s, len(k))
        toks = []
        for s, r in ranks.items():
            if ":" in s:
                continue
            if ops == "wrong":
                r = rng.randint(0, 5)
            toks.append("%s:%d" % (s, r) if ops != "norank" else s)
        if ops == "wrong" and rng.random() < 0.5:
            toks.append("unused:3")
        head.append("Ops " + " ".join(toks))
    if name is not None:
        head.append("Automaton " + name)
    if states is not None:
        head.append("States " + " ".join(states))
    if finals is not None:
        head.append("Final States " + " ".join(finals))
    if rng.random() < 0.3:
        rng.shuffle(head)
    lines += head
    lines.append("Transitions")
    for k, s, p in rules:
        lines.append(fmt_rule(rng, k, s, p))
    sep = "\n" if rng.random() < 0.9 else "\n\n"
    return sep.join(lines) + ("\n" if rng.random() < 0.8 else "")


def rand_aut(rng, states, syms, nrules, max_ar=3, ranked=None):
    """a random description; ranked: every symbol name with one arity"""
    if ranked is None:
        ranked = rng.random() < 0.6
    rank = {}
    rules = []
    for _ in range(nrules):
        s = rng.choice(syms)
        if ranked:
            ar = rank.setdefault(s, rng.choice([0, 0, 1, 2, 2, rng.randint(0, max_ar)]))
        else:
            ar = rng.choice([0, 0, 1, 2, rng.randint(0, max_ar)])
        kids = [rng.choice(states) for _ in range(ar)]
        rules.append((kids, s, rng.choice(states)))
    if rules and rng.random() < 0.3:
        rules += [rng.choice(rules) for _ in range(rng.randint(1, 3))]        # duplicate lines
    r = rng.random()
    if r < 0.15:
        finals = []
    elif r < 0.25:
        finals = None
    else:
        finals = rng.sample(states, rng.randint(1, min(3, len(states))))
        if rng.random() < 0.2:
            finals.append("lonely")                                            # a final state in no transition
        if rng.random() < 0.15:
            finals += finals[:1]
    return finals, rules


def explicit_text(rng, states, syms, nrules=None, max_ar=3, ranked=None):
    if nrules is None:
        nrules = rng.choice([0, 1, 2, 3, 4, 5, 6, 8, 12])
    finals, rules = rand_aut(rng, states, syms, nrules, max_ar, ranked)
    st = None
    r = rng.random()
    if r < 0.5:
        st = sorted(set(states))
    elif r < 0.6:
        st = ["other", "q0"]
    ops = rng.choice(["right", "right", "none", "wrong", "norank"])
    return make_text(rng, finals, rules, st, ops, rng.choice(["aut", "A1", None]))


def rand_cube(rng):
    r = rng.random()
    if r < 0.15:
        n = rng.randrange(65536) if rng.random() < 0.5 else rng.randrange(8)
        return "".join("1" if (n >> i) & 1 else "0" for i in range(16))
    if r < 0.22:
        return "X" * 16
    s = [rng.choice("01") for _ in range(16)]
    k = rng.random()
    if k < 0.35:                                  # X in the highest positions: the symbolic dump cuts them off
        for i in range(16 - rng.randint(1, 15), 16):
            s[i] = "X"
    elif k < 0.55:                                # X in the lowest positions
        for i in range(rng.randint(1, 10)):
            s[i] = "X"
    elif k < 0.9:
        for i in rng.sample(range(16), rng.randint(1, 6)):
            s[i] = "X"
    if rng.random() < 0.5:                        # few distinct values: overlapping cubes
        for i in range(3, 16):
            if s[i] != "X":
                s[i] = "0"
    return "".join(s)


BAD_SYMS = ["0" * 15, "1" * 17, "a", "", "000000000000000x", "0000000000000002", "01X01X01X01X01Xx", "xxxxxxxxxxxxxxxx",
            "0" * 32, "X" * 15]


def symbolic_text(rng, states, bad=None):
    nrules = rng.choice([1, 2, 3, 4, 6, 9])
    cubes = [rand_cube(rng) for _ in range(rng.randint(1, 4))]
    rules = []
    for _ in range(nrules):
        ar = rng.choice([0, 0, 1, 2, 3])
        c = rng.choice(cubes) if rng.random() < 0.7 else rand_cube(rng)
        rules.append(([rng.choice(states) for _ in range(ar)], c, rng.choice(states)))
    if bad is not None:
        b = rng.choice([x for x in BAD_SYMS if x != ""])
        kids, _, par = rng.choice(rules)
        pos = {"first": 0, "mid": len(rules) // 2, "last": len(rules)}[bad]
        # the loader walks the transitions in std::set order (tuple, symbol, parent): put the bad one at a chosen place
        # by its tuple (the empty tuple comes first, a tuple of late names last)
        if bad == "first":
            rules.append(([], b, rng.choice(states)))
        elif bad == "last":
            rules.append((["zz", "zz", "zz"], b, rng.choice(states)))
        else:
            rules.insert(pos, (kids, b, par))
    finals = rng.sample(states, rng.randint(0, min(2, len(states))))
    rng.shuffle(rules)
    return make_text(rng, finals, rules, None, "none", rng.choice(["aut", None]))


def bad_text(rng):
    return rng.choice([
        "Ops a:0\nAutomaton A\nStates q\nFinal States q\n",                   # no Transitions
        "Transitions\na b -> q\n",
        "Transitions\na(q -> q\n",
        "Ops a:x\nTransitions\n",
        "Automaton A\nAutomaton B\nTransitions\na -> q\n",
        "Transitions\n(q) -> q\n",
        "foo\nTransitions\n",
        "",
    ])


def g_bddload(rng):
    enc = rng.choice(["bu", "td"])
    steps = []
    nobj = 0
    states = rng.sample(STATES, rng.randint(1, 6))
    syms = rng.sample(SYMS, rng.randint(1, 7))
    scen = rng.random()

    def par_e():
        return rng.choice(["e", "e", "o"])

    def dm():
        return "d" if rng.random() < 0.75 else "n"

    def follow(nsteps, sym_ok):
        nonlocal nobj
        for _ in range(nsteps):
            r = rng.random()
            live = list(range(nobj))
            if r < 0.35 and live:
                steps.append("R%d:%s" % (rng.choice(live), "s" if (sym_ok and rng.random() < 0.5) else rng.choice(["e", "e", "s"])))
                nobj += 1                       # an upper bound: a failed reload adds no automaton (parser) or an empty one
                return False
            elif r < 0.5 and live:
                steps.append("A%d:%s:%s" % (rng.choice(live), par_e(),
                                           enc_text(explicit_text(rng, states + ["n1"], syms + ["k"]))))
            elif r < 0.6 and live and sym_ok:
                steps.append("A%d:s:%s" % (rng.choice(live), enc_text(symbolic_text(rng, states))))
            else:
                steps.append("L:%s:%s:%s" % (par_e(), dm(), enc_text(explicit_text(rng, states, syms))))
                nobj += 1
        return True

    if rng.random() < CROSS:
        # the boundary of the alphabet
        steps.append("F:65535:1024:0")
        nobj = 1
        news = ["b", "c", "d", "new1", "new2"]
        olds = ["z0", "z1", "z1024", "z65534", "z33"]
        for _ in range(rng.randint(1, 3)):
            sy = rng.sample(news, rng.randint(1, 3)) + rng.sample(olds, rng.randint(0, 2))
            steps.append("L:e:%s:%s" % (dm(), enc_text(explicit_text(rng, states, sy, rng.randint(2, 6)))))
            nobj += 1
        if rng.random() < 0.5:
            steps.append("R%d:e" % rng.randint(1, nobj - 1))
    elif scen < 0.45:
        # explicit histories
        for _ in range(rng.randint(1, 3)):
            steps.append("L:%s:%s:%s" % (par_e(), dm(), enc_text(explicit_text(rng, states, syms))))
            nobj += 1
        n = rng.choice([0, 1, 1, 2, 3])
        while n > 0:
            if not follow(1, False):
                # after a reload the number of live automata is uncertain: only reloads / loads of low indices follow
                n -= 1
                while n > 0:
                    steps.append("L:%s:%s:%s" % (par_e(), dm(), enc_text(explicit_text(rng, states, syms))))
                    n -= 1
                break
            n -= 1
    elif scen < 0.72:
        # symbolic histories
        r = rng.random()
        bad = None
        if r < 0.25:
            bad = rng.choice(["first", "mid", "last"])
        steps.append("L:s:%s:%s" % (dm(), enc_text(symbolic_text(rng, states, bad))))
        nobj = 1
        k = rng.random()
        if k < 0.3:
            steps.append("L:%s:d:%s" % (par_e(), enc_text(symbolic_text(rng, states))))     # the strings as names
            nobj += 1
        elif k < 0.45:
            steps.append("L:s:d:%s" % enc_text(explicit_text(rng, states, syms)))           # names as strings: exception
            nobj += 1
        elif k < 0.6:
            steps.append("L:%s:d:%s" % (par_e(), enc_text(explicit_text(rng, states, ["0000000000000000", "a", "b"]))))
            nobj += 1
        n = rng.choice([0, 1, 1, 2])
        for _ in range(n):
            r = rng.random()
            if r < 0.6:
                steps.append("R%d:%s" % (rng.randrange(nobj), rng.choice(["s", "s", "e"])))
                break
            elif r < 0.8:
                steps.append("A%d:s:%s" % (rng.randrange(nobj), enc_text(symbolic_text(rng, states))))
            else:
                steps.append("L:s:%s:%s" % (dm(), enc_text(symbolic_text(rng, states))))
                nobj += 1
    elif scen < 0.82:
        # many symbols: the counter (a dump costs #symbols x size of the tables: big automata are quiet fillers)
        if rng.random() < 0.5:
            n = rng.choice([40, 100, 257, 300, 700])
            st = ["q%d" % i for i in range(rng.choice([1, 2, 3]))]
            syms2 = ["y%d" % i for i in range(n)]
            rules = [([rng.choice(st) for _ in range(rng.choice([0, 0, 1]))], s, rng.choice(st)) for s in syms2]
            rng.shuffle(rules)
            steps.append("L:e:d:%s" % enc_text(make_text(rng, st[:1], rules, None, "none", None)))
            nobj = 1
        else:
            n = rng.choice([255, 256, 300, 1000, 2500, 5000])
            steps.append("F:%d:%d:0" % (n, rng.choice([1, 7, 64])))
            nobj = 1
        steps.append("L:e:%s:%s" % (dm(), enc_text(explicit_text(rng, states, syms + ["y1", "z2"]))))
        nobj += 1
        if rng.random() < 0.4:
            steps.append("R%d:e" % (nobj - 1))
    elif scen < 0.92:
        # the arity boundary
        ars = rng.sample([62, 63, 64, 65, 70, 128, 0, 1, 6, 5], rng.randint(2, 4))
        rules = []
        for ar in ars:
            s = rng.choice(["f", "g", "a"])
            rules.append(([rng.choice(states) for _ in range(ar)], s, rng.choice(states)))
        rules.append(([], rng.choice(["a", "f"]), rng.choice(states)))
        rng.shuffle(rules)
        steps.append("L:%s:%s:%s" % (par_e(), dm(), enc_text(make_text(rng, states[:1], rules, None, "none", None))))
        nobj = 1
        if rng.random() < 0.5:
            steps.append("R0:e")
        if rng.random() < 0.3:
            steps.append("L:e:d:%s" % enc_text(explicit_text(rng, states, ["f", "g", "a"], 4, 6)))
    else:
        # texts the parser rejects, among good ones
        seq = [bad_text(rng), explicit_text(rng, states, syms), bad_text(rng)]
        rng.shuffle(seq)
        for t in seq[:rng.randint(1, 3)]:
            steps.append("L:%s:%s:%s" % (rng.choice(["e", "s"]), dm(), enc_text(t)))
            nobj += 1
        if rng.random() < 0.5:
            steps.append("A0:e:%s" % enc_text(bad_text(rng)))
    # every index used by R / A steps must denote a live automaton: trim to what is certainly live
    return "bddload %s %s" % (enc, " ".join(_sanitize(steps)))


def _sanitize(steps):
    """drop steps whose automaton index may not exist (a reload whose dump or parse fails adds no automaton)"""
    out = []
    certain = 0          # automata that certainly exist
    for st in steps:
        if st[0] in "LF":
            out.append(st)
            certain += 1
        elif st[0] in "RA":
            k = int(st[1:st.index(":")])
            if k < certain:
                out.append(st)
                # a successful reload adds an automaton, but it may fail: do not count it
        else:
            out.append(st)
    return out


if __name__ == "__main__":
    n = int(sys.argv[1]) if len(sys.argv) > 1 else 10
    seed = int(sys.argv[2]) if len(sys.argv) > 2 else 1
    rng = random.Random(seed)
    for k in range(n):
        print("C bl%d_%d %s" % (seed, k, g_bddload(rng)))
