#!/usr/bin/env python3
"""Case generator for the kind `achain`: histories on the antichain containers (Antichain1C, SequentialAntichain1C,
Antichain2Cv2, OrderedAntichain2C).  Formats: harness/op_achain.inc.  Every random choice derives from `rng`.

    python3 tools/gen_achain.py <seed> <N>      prints N lines  `C <id> achain ...`
"""
import random
import sys

CMPS_REFL = "bpe"        # subset, superset, equality: reflexive and transitive
CMPS_ODD = "nst"         # "differs", "smaller size", "always": outside the assumptions of the theorems (model still exact)


def set_tok(s):
    return ".".join(map(str, sorted(s))) if s else "e"


def keys_tok(ks):
    return ",".join(map(str, ks)) if ks else "-"


def cmp_fn(c):
    return {
        "b": lambda P, Q: P <= Q,
        "p": lambda P, Q: P >= Q,
        "e": lambda P, Q: P == Q,
        "n": lambda P, Q: P != Q,
        "s": lambda P, Q: len(P) < len(Q),
        "t": lambda P, Q: True,
    }[c]


def closure(n, pairs):
    rel = set(pairs) | {(i, i) for i in range(n)}
    changed = True
    while changed:
        changed = False
        for (a, b) in list(rel):
            for (c, d) in list(rel):
                if b == c and (a, d) not in rel:
                    rel.add((a, d))
                    changed = True
    return rel


def rand_preorder(rng, n):
    """returns (kind, set of pairs a<=b)"""
    r = rng.random()
    if r < 0.40:
        return "id", {(i, i) for i in range(n)}
    if r < 0.85:
        k = rng.randint(1, max(1, n))
        pairs = [(rng.randrange(n), rng.randrange(n)) for _ in range(k)]
        if rng.random() < 0.3 and n >= 3:      # a chain 0 <= 1 <= 2 ...
            pairs += [(i, i + 1) for i in range(n - 1)]
        return "pre", closure(n, pairs)
    # not a preorder: missing reflexive pairs and / or not transitive
    pairs = {(rng.randrange(n), rng.randrange(n)) for _ in range(rng.randint(0, 2 * n))}
    if rng.random() < 0.5:
        pairs |= {(i, i) for i in range(n)}
    return "odd", pairs


def rand_sets(rng):
    """a small pool of sets with many inclusions, equalities and the empty set"""
    U = rng.randint(2, 6)
    base = frozenset(x for x in range(U) if rng.random() < 0.6)
    pool = [base, frozenset()]
    for _ in range(rng.randint(2, 6)):
        s = rng.choice(pool)
        r = rng.random()
        if r < 0.35:
            s = frozenset(x for x in s if rng.random() < 0.6)                # subset
        elif r < 0.7:
            s = s | frozenset(x for x in range(U) if rng.random() < 0.4)     # superset
        elif r < 0.85:
            s = frozenset(x for x in range(U) if rng.random() < 0.5)         # unrelated
        pool.append(frozenset(s))
    if rng.random() < 0.15:
        pool.append(frozenset(range(U)))
    return pool


class Two:
    """what the generator has to know about an Antichain2Cv2 to keep `rm` inside its contract"""

    def __init__(self):
        self.d = {}          # key -> list of (id, set)
        self.known = True    # False after a `get` whose choice of key depends on the hash order

    def contains(self, ks, Q, c):
        f = cmp_fn(c)
        return any(f(P, Q) for p in ks for (_, P) in self.d.get(p, []))

    def refine(self, ks, Q, f):
        for p in ks:
            if p in self.d:
                self.d[p] = [(i, P) for (i, P) in self.d[p] if not f(P, Q)]
                if not self.d[p]:
                    del self.d[p]

    def insert(self, i, q, Q):
        self.d.setdefault(q, []).append((i, Q))


def rand_keys(rng, n, long=False):
    r = rng.random()
    if r < 0.08:
        return []
    k = rng.randint(1, 6 if long else 3)
    ks = [rng.randrange(n + 2) if rng.random() < 0.2 else rng.randrange(n) for _ in range(k)]
    if rng.random() < 0.2 and ks:
        ks.append(rng.choice(ks))       # a duplicate candidate
    return ks


def g_achain(rng):
    cls = rng.choices(["two", "ord", "one", "seq"], [40, 30, 15, 15])[0]
    ty = rng.choice(["set", "ov"])
    m = rng.choice([1, 1, 2, 2, 3]) if cls in ("two", "one") else rng.choice([1, 1, 2])
    less = rng.choice([0, 0, 0, 2, 2, 1]) if cls == "ord" else 0
    n = rng.randint(1, 5)
    pk, rel = rand_preorder(rng, n)
    pool = rand_sets(rng)
    up = {q: sorted(b for (a, b) in rel if a == q) for q in range(n)}
    down = {q: sorted(a for (a, b) in rel if b == q) for q in range(n)}
    # mode: `algo` = the combination the algorithms use, with a reflexive transitive comparator; `raw` = every member
    mode = rng.choices(["algo", "raw", "mixed"], [35, 35, 30])[0]
    r = rng.random()
    nsteps = rng.randint(1, 8) if r < 0.15 else rng.randint(8, 40) if r < 0.9 else rng.randint(80, 160)
    main_cmp = rng.choice("bbbppe") if rng.random() < 0.88 else rng.choice(CMPS_ODD)
    nd_get = rng.random() < 0.5

    def pick_cmp():
        if mode == "algo" or rng.random() < 0.6:
            return main_cmp
        return rng.choice(CMPS_REFL + CMPS_ODD)

    def pick_set():
        return rng.choice(pool)

    steps = []
    hdr = "H!%s!%s!%d!%d!%d!%s" % (cls, ty, m, less, n, ",".join("%d.%d" % p for p in sorted(rel)) if rel else "-")
    nxt = 0                                   # the id counter (class two only needs it)
    objs = [Two() for _ in range(m)]
    ids_known = True

    for _ in range(nsteps):
        o = rng.randrange(m)
        if cls == "seq":
            if rng.random() < 0.04:
                steps.append("cl!%d" % o)
            else:
                steps.append("i!%d!%s!%s" % (o, set_tok(pick_set()), pick_cmp()))
            continue
        if cls == "one":
            ops = ["of"] * 6 + ["c", "n"] if mode == "algo" else ["c", "c", "r", "r", "i", "i", "i", "n", "of", "of"] + (["cl"] if rng.random() < 0.3 else [])
            op = rng.choice(ops)
            if op == "c":
                steps.append("c!%d!%s" % (o, keys_tok(rand_keys(rng, n))))
            elif op == "r":
                steps.append("r!%d!%s" % (o, keys_tok(rand_keys(rng, n, True))))
            elif op == "i":
                steps.append("i!%d!%d" % (o, rng.randrange(n + 2)))
            elif op == "n":
                steps.append("n!%d" % o)
            elif op == "cl":
                steps.append("cl!%d" % o)
            else:
                steps.append("of!%d!%d" % (o, rng.randrange(n)))
            continue
        # two / ord
        if mode == "algo":
            ops = ["of"] * 8 + ["g", "g", "c", "l"] + (["sz", "em"] if cls == "two" else ["em"])
        elif mode == "mixed":
            ops = ["of"] * 4 + ["i", "i", "c", "r", "g", "l", "em"] + (["sz", "rm", "sw"] if cls == "two" else [])
        else:
            ops = ["i"] * 4 + ["c", "c", "r", "r", "g", "l", "em"] + (["sz", "rm", "rm", "sw"] if cls == "two" else [])
        if rng.random() < 0.03:
            ops = ["cl"]
        op = rng.choice(ops)
        T = objs[o]
        if op == "c":
            ks, Q, c = rand_keys(rng, n), pick_set(), pick_cmp()
            steps.append("c!%d!%s!%s!%s" % (o, keys_tok(ks), set_tok(Q), c))
        elif op == "r":
            ks, Q, c = rand_keys(rng, n, True), pick_set(), pick_cmp()
            steps.append("r!%d!%s!%s!%s" % (o, keys_tok(ks), set_tok(Q), c))
            T.refine(ks, Q, lambda P, Q_, f=cmp_fn(c): f(P, Q_))
        elif op == "i":
            q, Q = (rng.randrange(n + 2) if rng.random() < 0.15 else rng.randrange(n)), pick_set()
            steps.append("i!%d!%d!%s" % (o, q, set_tok(Q)))
            T.insert(nxt, q, Q)
            nxt += 1
        elif op == "of":
            q, Q, c = rng.randrange(n), pick_set(), pick_cmp()
            steps.append("of!%d!%d!%s!%s" % (o, q, set_tok(Q), c))
            if T.known:
                if not T.contains(up[q], Q, c):
                    f = cmp_fn(c)
                    T.refine(down[q], Q, lambda P, Q_: f(Q_, P))
                    T.insert(nxt, q, Q)
                    nxt += 1
            else:
                ids_known = False
        elif op == "g":
            if cls == "two":
                if len(T.d) > 1 and not nd_get:
                    steps.append("sz!%d" % o)
                    continue
                steps.append("g!%d" % o)
                if len(T.d) > 1:
                    T.known = False
                elif len(T.d) == 1 and T.known:
                    k0 = next(iter(T.d))
                    T.d[k0].pop(0)
                    if not T.d[k0]:
                        del T.d[k0]
            else:
                steps.append("g!%d" % o)
        elif op == "l":
            steps.append("l!%d!%d" % (o, rng.randrange(n + 1)))
        elif op in ("sz", "em"):
            steps.append("%s!%d" % (op, o))
        elif op == "cl":
            steps.append("cl!%d" % o)
            objs[o] = Two()
        elif op == "sw":
            o2 = rng.randrange(m)
            steps.append("sw!%d!%d" % (o, o2))
            objs[o], objs[o2] = objs[o2], objs[o]
        elif op == "rm":
            if T.known and ids_known and T.d:
                q = rng.choice(sorted(T.d))
                lst = T.d[q]
                r2 = rng.random()
                j = 0 if r2 < 0.3 else len(lst) - 1 if r2 < 0.6 else rng.randrange(len(lst))
                steps.append("rm!%d!%d!%d" % (o, q, lst[j][0]))
                del lst[j]
                if not lst:
                    del T.d[q]
            else:
                steps.append("em!%d" % o)
    return "achain " + hdr + (" " if steps else "") + " ".join(steps)


if __name__ == "__main__":
    seed = int(sys.argv[1]) if len(sys.argv) > 1 else 1
    N = int(sys.argv[2]) if len(sys.argv) > 2 else 10
    rng = random.Random(seed)
    for i in range(N):
        print("C a%d_%d %s" % (seed, i, g_achain(rng)))
