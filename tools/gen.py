#!/usr/bin/env python3
"""Case generators for the correspondence checks.  Every random choice derives from the `random.Random` passed in.

A case is one text line `<kind> <args...>` (the orchestrator prepends the id).  Token formats: see harness/vharness.cc.
"""
import itertools, os, random

# ranked alphabet used for explicit tree automata: symbol number -> rank
ALPHA = [(0, 0), (1, 0), (2, 0), (3, 1), (4, 2), (5, 2), (6, 3), (7, 1)]


class TA:
    def __init__(self, rules=None, finals=None):
        self.rules = list(rules or [])      # (sym, (kids...), parent)
        self.finals = list(finals or [])

    def states(self):
        s = set(self.finals)
        for (f, ks, p) in self.rules:
            s.add(p)
            s.update(ks)
        return sorted(s)

    def tok(self):
        rs = ";".join(f"{f}:{','.join(map(str, ks))}>{p}" for (f, ks, p) in self.rules)
        return rs + "|" + ",".join(map(str, self.finals))

    def copy(self):
        return TA(list(self.rules), list(self.finals))

    def renamed(self, m):
        return TA([(f, tuple(m[k] for k in ks), m[p]) for (f, ks, p) in self.rules], [m[q] for q in self.finals])

    @staticmethod
    def parse(tok):
        rs, fs = tok.split("|")
        rules = []
        for r in filter(None, rs.split(";")):
            f, rest = r.split(":")
            ks, p = rest.split(">")
            rules.append((int(f), tuple(int(k) for k in ks.split(",") if k), int(p)))
        return TA(rules, [int(q) for q in fs.split(",") if q])


def pick_alpha(rng, max_rank=2, nsyms=None):
    cands = [a for a in ALPHA if a[1] <= max_rank]
    leaves = [a for a in cands if a[1] == 0]
    inner = [a for a in cands if a[1] > 0]
    k = nsyms or rng.randint(2, 4)
    out = [rng.choice(leaves)]
    while len(out) < k:
        a = rng.choice(leaves if rng.random() < 0.35 else inner)
        if a not in out:
            out.append(a)
    return out


def rand_ta(rng, alpha=None, nmax=4, states=None, dense=True, dials=None):
    """structured random automaton; `dials` is a dict of shape probabilities"""
    d = dict(multi_leaf=0.3, no_final=0.06, final_norule=0.15, dead_child=0.2, selfloop=0.2, dup_rule=0.1, norule_state=0.15)
    d.update(dials or {})
    alpha = alpha or pick_alpha(rng)
    n = rng.randint(1, nmax)
    if states is None:
        states = list(range(n)) if dense else rng.sample(range(0, 40), n)
    n = len(states)
    leaves = [a for a in alpha if a[1] == 0]
    inner = [a for a in alpha if a[1] > 0]
    rules = []
    # leaf rules
    nleaf = rng.randint(0 if rng.random() < 0.08 else 1, max(1, n))
    for _ in range(nleaf):
        if not leaves:
            break
        q = rng.choice(states)
        rules.append((rng.choice(leaves)[0], (), q))
        if rng.random() < d["multi_leaf"] and len(leaves) > 1:
            for a in rng.sample(leaves, rng.randint(1, len(leaves))):
                rules.append((a[0], (), q))
    owners = [r[2] for r in rules] or states
    # inner rules
    for _ in range(rng.randint(0, 2 * n + 1)):
        if not inner:
            break
        f, rk = rng.choice(inner)
        pool = states if rng.random() < d["dead_child"] else owners
        kids = tuple(rng.choice(pool) for _ in range(rk))
        p = rng.choice(states)
        if rng.random() < d["selfloop"] and kids:
            p = kids[rng.randrange(len(kids))]
        rules.append((f, kids, p))
        if rng.random() < 0.5:
            owners = owners + [p]
    if rng.random() < d["dup_rule"] and rules:
        rules.append(rng.choice(rules))
    # final states
    if rng.random() < d["no_final"]:
        finals = []
    else:
        pool = [r[2] for r in rules] or states
        finals = list({rng.choice(pool) for _ in range(rng.randint(1, 2))})
        if rng.random() < d["final_norule"]:
            finals.append(rng.choice(states))
    if rng.random() < d["norule_state"]:
        # a state that occurs only as a child / final state
        extra = (max(states) + 1) if dense else rng.randrange(41, 60)
        if inner and rng.random() < 0.6:
            f, rk = rng.choice(inner)
            kids = [rng.choice(states) for _ in range(rk)]
            kids[rng.randrange(rk)] = extra
            rules.append((f, tuple(kids), rng.choice(states)))
        else:
            finals.append(extra)
    rng.shuffle(rules)
    return TA(rules, sorted(set(finals)))


def mutate_ta(rng, A, alpha):
    """B derived from A: add / delete / redirect a rule, toggle a final state"""
    B = A.copy()
    st = B.states() or [0]
    for _ in range(rng.randint(1, 2)):
        c = rng.random()
        if c < 0.3 and B.rules:
            B.rules.pop(rng.randrange(len(B.rules)))
        elif c < 0.55:
            f, rk = rng.choice(alpha)
            B.rules.append((f, tuple(rng.choice(st) for _ in range(rk)), rng.choice(st)))
        elif c < 0.8 and B.rules:
            i = rng.randrange(len(B.rules))
            f, ks, p = B.rules[i]
            if ks and rng.random() < 0.5:
                ks = list(ks)
                ks[rng.randrange(len(ks))] = rng.choice(st)
                B.rules[i] = (f, tuple(ks), p)
            else:
                B.rules[i] = (f, ks, rng.choice(st))
        else:
            q = rng.choice(st)
            if q in B.finals:
                B.finals.remove(q)
            else:
                B.finals.append(q)
    return B


def correlated_pair(rng):
    """the D9 shape: several leaf symbols reach one state of A; B tracks which leaf started a branch and drops some
    combinations from the non-unary rules"""
    leaves = [0, 1, 2][: rng.randint(2, 3)]
    g = rng.choice([4, 5])
    A = TA([(a, (), 1) for a in leaves] + [(g, (1, 1), 2)], [2])
    if rng.random() < 0.5:
        A.rules.append((g, (2, 1), 2))
    B = TA([], [9])
    tr = {a: 3 + i for i, a in enumerate(leaves)}
    for a in leaves:
        B.rules.append((a, (), tr[a]))
    combos = list(itertools.product(leaves, repeat=2))
    keep = [c for c in combos if rng.random() < 0.7]
    for (x, y) in keep:
        B.rules.append((g, (tr[x], tr[y]), 9))
    if rng.random() < 0.5:
        for a in leaves:
            if rng.random() < 0.7:
                B.rules.append((g, (9, tr[a]), 9))
    return A, B


def split_ta(rng, A, keep=0.6):
    """B obtained from A by splitting every state into 1-3 copies and distributing the rules over the copies with some
    combinations dropped: L(B) ⊆ L(A), highly nondeterministic, inclusion A ⊆ B is decided only deep in the search
    (the shape on which antichain / downward caches, work-sets and choice functions matter)"""
    st = A.states()
    nxt = 0
    copies = {}
    for q in st:
        k = rng.choice([1, 2, 2, 2, 3])
        copies[q] = list(range(nxt, nxt + k))
        nxt += k
    rules = []
    for (f, ks, p) in A.rules:
        for pc in copies[p]:
            combos = list(itertools.product(*[copies[k] for k in ks]))
            chosen = [c for c in combos if rng.random() < keep]
            if not chosen and rng.random() < 0.7:
                chosen = [rng.choice(combos)]
            for c in chosen:
                rules.append((f, tuple(c), pc))
    finals = []
    for q in A.finals:
        fc = [c for c in copies[q] if rng.random() < 0.8] or [rng.choice(copies[q])]
        finals += fc
    rng.shuffle(rules)
    return TA(rules, sorted(set(finals)))


def rand_pair(rng, nmax=4, overlap=True):
    alpha = pick_alpha(rng, max_rank=1 if rng.random() < 0.3 else 2)
    c = rng.random()
    A = rand_ta(rng, alpha, nmax=nmax, dense=rng.random() < 0.6)
    if c < 0.25:
        B = mutate_ta(rng, A, alpha)
        if rng.random() < 0.5:
            st = B.states()
            tgt = rng.sample(range(0, 30), len(st))
            B = B.renamed(dict(zip(st, tgt)))
    elif c < 0.60:
        A = py_trim(A) if rng.random() < 0.7 else A
        B = split_ta(rng, A, keep=rng.choice([0.5, 0.7, 0.9]))
        if rng.random() < 0.3:
            B = mutate_ta(rng, B, alpha)
        if len(B.states()) > 8:
            B = mutate_ta(rng, A, alpha)
        if rng.random() < 0.15:
            return B, A, alpha
        return A, B, alpha
    elif c < 0.66:
        A, B = correlated_pair(rng)
    elif c < 0.71:
        return (*combo_pair(rng), ALPHA)
    elif c < 0.76:
        return (*leafset_pair(rng), ALPHA)
    elif c < 0.82:
        # leaf symbols present in one operand only
        alpha2 = pick_alpha(rng)
        B = rand_ta(rng, alpha2, nmax=nmax, dense=rng.random() < 0.6)
    else:
        B = rand_ta(rng, alpha, nmax=nmax, dense=rng.random() < 0.6)
    if rng.random() < 0.5:
        A, B = B, A
    return A, B, alpha


def combo_pair(rng):
    """A: k leaf symbols into one state, one rule of rank 2 (or 3) over that state into a final state.  B keeps the leaves apart
    and sends every COMBINATION of its leaf states through the wide symbol to a final state, to a useful non-final state or
    nowhere – so that while the upward algorithm enumerates the combinations of child macro-states of one rule, accepting,
    non-accepting and empty posts follow each other in an order given by hash / registration order.  State and symbol
    numbers are shuffled to vary that order."""
    k = rng.choice([2, 2, 3])
    leaves = rng.sample([0, 1, 2], k)
    wide, rk = rng.choice([(4, 2), (5, 2), (6, 3)])
    una = rng.choice([3, 7])
    q, p = 0, 1
    A = TA([(a, (), q) for a in leaves] + [(wide, tuple([q] * rk), p)], [p])
    if rng.random() < 0.3:
        A.rules.append((una, (p,), p))
    r = list(range(k))                       # leaf i -> r[i]
    s_fin, s_non = k, k + 1
    rules = [(a, (), r[i]) for i, a in enumerate(leaves)]
    import itertools
    used_non = False
    for comb in itertools.product(range(k), repeat=rk):
        c = rng.random()
        if c < 0.62:
            rules.append((wide, tuple(r[i] for i in comb), s_fin))
        elif c < 0.92:
            rules.append((wide, tuple(r[i] for i in comb), s_non)); used_non = True
    if used_non:
        rules.append((una, (s_non,), s_fin))  # keeps the non-final target useful (the operands are trimmed first)
    if rng.random() < 0.3:
        rules.append((una, (s_fin,), s_fin))
    B = TA(rules, [s_fin])
    rng.shuffle(B.rules)
    rng.shuffle(A.rules)
    if rng.random() < 0.7:
        st = B.states()
        B = B.renamed(dict(zip(st, rng.sample(range(0, 12), len(st)))))
    return A, B


def leafset_pair(rng):
    """A: states whose leaf languages are nested / overlapping SETS of leaf symbols, each wrapped by one unary (or binary) symbol
    into a final state.  B: one state per leaf symbol (for a subset of the symbols), wrapped the same way – so a state of A
    is covered only by a UNION of states of B, several states of A are comparable by simulation, and the cached answer for
    one of them must not be reused for a bigger one."""
    leaves = [0, 1, 2]
    wrap, rk = rng.choice([(3, 1), (7, 1), (4, 2)])
    m = rng.randint(2, 3)
    sets = []
    base = rng.sample(leaves, rng.randint(1, 2))
    sets.append(set(base))
    for _ in range(m - 1):
        c = rng.random()
        if c < 0.6:
            sets.append(set(sets[-1]) | set(rng.sample(leaves, 1)))        # a superset (simulates the previous state)
        else:
            sets.append(set(rng.sample(leaves, rng.randint(1, 3))))
    top = m
    rulesA = []
    for i, S in enumerate(sets):
        rulesA += [(a, (), i) for a in sorted(S)]
        rulesA.append((wrap, tuple([i] * rk), top))
    A = TA(rulesA, [top])
    U = [a for a in leaves if rng.random() < 0.75] or [rng.choice(leaves)]
    rulesB = []
    for j, a in enumerate(U):
        rulesB.append((a, (), j))
    topB = len(U)
    import itertools
    for comb in itertools.product(range(len(U)), repeat=rk):
        if rk == 1 or rng.random() < 0.85:
            rulesB.append((wrap, tuple(comb), topB))
    B = TA(rulesB, [topB])
    rng.shuffle(A.rules)
    rng.shuffle(B.rules)
    if rng.random() < 0.7:
        st = A.states()
        A = A.renamed(dict(zip(st, rng.sample(range(0, 10), len(st)))))
    if rng.random() < 0.7:
        st = B.states()
        B = B.renamed(dict(zip(st, rng.sample(range(0, 10), len(st)))))
    return A, B


def make_disjoint(rng, A, B):
    sa = A.states()
    sb = B.states()
    pool = rng.sample(range(0, 60), len(sa) + len(sb))
    return A.renamed(dict(zip(sa, pool[: len(sa)]))), B.renamed(dict(zip(sb, pool[len(sa):])))


def rand_map(rng, keys, kind=None):
    kind = kind or rng.choice(["inj", "merge", "id", "sparse"])
    keys = list(keys)
    if kind == "id":
        return {k: k for k in keys}
    if kind == "inj":
        vals = rng.sample(range(0, max(8, 2 * len(keys))), len(keys))
        return dict(zip(keys, vals))
    if kind == "sparse":
        vals = rng.sample(range(100, 100000), len(keys))
        return dict(zip(keys, vals))
    tg = [rng.randrange(0, max(1, len(keys) - 1)) for _ in keys]
    return dict(zip(keys, tg))


def map_tok(m):
    return ",".join(f"{a}>{b}" for a, b in sorted(m.items())) or "-"


# ---------------------------------------------------------------- per-kind generators -> case text
def g_incl(rng):
    A, B, _ = rand_pair(rng)
    return f"incl {A.tok()} {B.tok()}"


def g_inclall(rng):
    A, B, _ = rand_pair(rng, nmax=3)
    return f"inclall {A.tok()} {B.tok()}"


def g_union(rng):
    A, B, _ = rand_pair(rng)
    return f"union {high_states(rng, A, 0.05).tok()} {high_states(rng, B, 0.05).tok()}"


def g_unionpre(rng):
    A, B, _ = rand_pair(rng)
    # pre-filled maps: injective, disjoint images (what a caller chaining unions supplies)
    sa, sb = A.states(), B.states()
    ka = [q for q in sa if rng.random() < 0.6]
    kb = [q for q in sb if rng.random() < 0.6]
    vals = rng.sample(range(0, 12), len(ka) + len(kb))
    ml = dict(zip(ka, vals[: len(ka)]))
    mr = dict(zip(kb, vals[len(ka):]))
    return f"unionpre {A.tok()} {B.tok()} {map_tok(ml)} {map_tok(mr)}"


def g_mapsx(rng):
    """Union with ONE map object for both translators / Intersection(BU) with a pre-filled product map (outside the documented
    contracts: compared with the models of Vata/UnionIsectMaps.lean, no property judged except the in-contract corners)"""
    A, B, _ = rand_pair(rng)
    mode = rng.choice(["alias", "alias", "td", "td", "bu"])
    sa, sb = A.states(), B.states()
    if mode == "alias":
        if rng.random() < 0.5 and sa:
            # state-disjoint operands: the aliased call is then exact (C02_union_same_map_lang)
            off = max(sa) + 1 + rng.randint(0, 2)
            B = B.renamed({q: off + i for i, q in enumerate(sb)})
            sb = B.states()
        keys = [q for q in sorted(set(sa) | set(sb)) if rng.random() < 0.4]
        vals = rng.sample(range(0, 14), min(len(keys), 14))
        return f"mapsx alias {A.tok()} {B.tok()} {map_tok(dict(zip(keys, vals)))}"
    pairs = [(a, b) for a in sa for b in sb]
    c = rng.random()
    if c < 0.25 or not pairs:
        pm = {}
    elif c < 0.6:
        # what an earlier product returns: dense numbers 0..k-1 (pmapOkB), pairs of final states preferred
        fin = [(a, b) for a in A.finals for b in B.finals]
        pool = fin if (fin and rng.random() < 0.6) else pairs
        ks = rng.sample(pool, min(len(pool), rng.randint(1, 3)))
        pm = {k: i for i, k in enumerate(ks)}
    else:
        ks = rng.sample(pairs, min(len(pairs), rng.randint(1, 3)))
        pm = {k: rng.randint(0, 6) for k in ks}
    tok = ",".join(f"{a}.{b}>{v}" for (a, b), v in sorted(pm.items())) or "-"
    return f"mapsx {mode} {A.tok()} {B.tok()} {tok}"


def g_uniondisj(rng):
    A, B, _ = rand_pair(rng)
    A, B = make_disjoint(rng, A, B)
    return f"uniondisj {A.tok()} {B.tok()}"


def g_isect(rng):
    A, B, _ = rand_pair(rng)
    return f"isect {A.tok()} {B.tok()}"


def g_isectbu(rng):
    A, B, _ = rand_pair(rng)
    return f"isectbu {A.tok()} {B.tok()}"


def g_trim(rng):
    c = rng.random()
    if c < 0.15:
        # the shape of the shortcut: |reachable| == |rule owners| with different sets
        alpha = pick_alpha(rng)
        A = rand_ta(rng, alpha, nmax=3)
        st = A.states() or [0]
        x, y = max(st) + 1, max(st) + 2
        inner = [a for a in alpha if a[1] > 0] or [(3, 1)]
        f, rk = rng.choice(inner)
        kids = [rng.choice(st) for _ in range(rk)]
        kids[rng.randrange(rk)] = x            # reachable, owns no rule
        A.rules.append((f, tuple(kids), rng.choice(A.finals or st)))
        leaf = [a for a in alpha if a[1] == 0][0][0]
        A.rules.append((leaf, (), y))          # owns a rule, unreachable
        return f"trim {A.tok()}"
    A = rand_ta(rng, nmax=5, dense=rng.random() < 0.7, dials=dict(dead_child=0.4, final_norule=0.3, no_final=0.1))
    return f"trim {A.tok()}"


def g_cand(rng):
    A = rand_ta(rng, nmax=5, dials=dict(dead_child=0.35, final_norule=0.3))
    if rng.random() < 0.3:
        # deep witness: chain of unary rules
        st = A.states() or [0]
        base = max(st) + 1
        k = rng.randint(2, 5)
        A.rules = [(0, (), base)] + [(3, (base + i,), base + i + 1) for i in range(k)]
        A.finals = [base + k] + ([rng.choice(st)] if rng.random() < 0.5 else [])
    return f"cand {high_states(rng, A).tok()}"


def high_states(rng, A, p=0.12):
    """state numbers are `size_t`: with probability p the states are renamed into a range that does not fit 32 bits (order-preserving or
    folded so that two states agree on their low 32 bits)"""
    if rng.random() >= p:
        return A
    st = A.states()
    if rng.random() < 0.5:
        m = {q: (1 << 32) + q for q in st}
    else:
        m = {q: ((i % 3) << 32) + (q % 7) + 8 * i for i, q in enumerate(st)}
        lows = {}
        for q, v in m.items():
            lows.setdefault(v & 0xFFFFFFFF, []).append(q)
    return A.renamed(m)


def chain_ta(rng):
    """4-6 states that all own the same leaf rule, binary rules over earlier states (the shape on which the simulation engine
    has to split blocks while removals are pending: root-only states that never occur at some child position)"""
    n = rng.randint(3, 6)
    st = list(range(n)) if rng.random() < 0.5 else sorted(rng.sample(range(30), n))
    leaf, f2 = 1, 4
    rules = [(leaf, (), q) for q in st if rng.random() < 0.9]
    for i in range(1, n):
        for _ in range(rng.choice([1, 1, 2])):
            a, b = rng.choice(st[:i + (1 if rng.random() < 0.2 else 0)]), rng.choice(st[:i + (1 if rng.random() < 0.2 else 0)])
            rules.append((f2, (a, b), st[i]))
    if rng.random() < 0.3:
        rules.append((3, (rng.choice(st),), rng.choice(st)))
    finals = sorted({rng.choice(st) for _ in range(rng.choice([1, 2, 2]))})
    return TA(rules, finals)


def g_reduce(rng):
    A = chain_ta(rng) if rng.random() < 0.35 else rand_ta(rng, nmax=4, dense=rng.random() < 0.5)
    if rng.random() < 0.6 and A.states():
        # duplicate a state (simulation-equivalent copy)
        st = A.states()
        q = rng.choice(st)
        q2 = max(st) + rng.randint(1, 20)
        extra = []
        for (f, ks, p) in A.rules:
            if p == q:
                extra.append((f, ks, q2))
            if q in ks and rng.random() < 0.7:
                extra.append((f, tuple(q2 if k == q else k for k in ks), p))
        A.rules += extra
        if q in A.finals and rng.random() < 0.8:
            A.finals.append(q2)
    return f"reduce {A.tok()}"


def py_trim(A):
    """useless-state removal (python oracle used only to *construct* inputs that satisfy a precondition)"""
    prod = set()
    ch = True
    while ch:
        ch = False
        for (f, ks, p) in A.rules:
            if p not in prod and all(k in prod for k in ks):
                prod.add(p)
                ch = True
    rules = [r for r in A.rules if r[2] in prod and all(k in prod for k in r[1])]
    reach = set(q for q in A.finals if q in prod)
    ch = True
    while ch:
        ch = False
        for (f, ks, p) in rules:
            if p in reach:
                for k in ks:
                    if k not in reach:
                        reach.add(k)
                        ch = True
    rules = [r for r in rules if r[2] in reach]
    return TA(list(dict.fromkeys(rules)), sorted(q for q in set(A.finals) if q in reach))


def dense_shuffled(rng, A):
    st = A.states()
    perm = list(range(len(st)))
    rng.shuffle(perm)
    return A.renamed(dict(zip(st, perm))), len(st)


def big_unary_ta(rng):
    """25-48 states, mostly unary rules with loops and several successors per state (so that the LTS has more than 31 / 63
    (label, state) pairs with successors: the engine's counters then live in several rows, some of them sparsely used)"""
    n = rng.randint(25, 48)
    una = [3, 7]
    rules = [(rng.choice([0, 1]), (), q) for q in range(n) if rng.random() < 0.25]
    for q in range(n):
        if rng.random() < 0.6:
            rules.append((rng.choice(una), (q,), q))                        # loop
        for _ in range(rng.choice([0, 1, 1, 2, 3])):
            rules.append((rng.choice(una), (rng.randrange(n),), q))
    if rng.random() < 0.4:
        rules.append((4, (rng.randrange(n), rng.randrange(n)), rng.randrange(n)))
    if not any(len(ks) == 0 for (_, ks, _) in rules):
        rules.append((0, (), rng.randrange(n)))
    finals = sorted({rng.randrange(n) for _ in range(rng.randint(1, 3))})
    return TA(rules, finals)


def g_simdown(rng):
    if rng.random() < 0.06:
        A, n = dense_shuffled(rng, big_unary_ta(rng))
        return f"simdown {A.tok()} {n}"
    A = rand_ta(rng, nmax=5, dense=True, dials=dict(norule_state=0.2, dead_child=0.3))
    A, n = dense_shuffled(rng, A)
    return f"simdown {A.tok()} {n}"


def g_simup(rng):
    for _ in range(50):
        A = py_trim(rand_ta(rng, nmax=5, dense=True, dials=dict(norule_state=0.0, dead_child=0.05, no_final=0.0)))
        if A.rules:
            break
    A, n = dense_shuffled(rng, A)
    return f"simup {A.tok()} {n}"


def g_compl(rng):
    k = rng.randint(1, 4)
    ranks = [0] + [rng.choice([0, 0, 1, 2]) for _ in range(k - 1)]
    if rng.random() < 0.15:
        ranks = [0] * k
    rng.shuffle(ranks)
    alpha = list(enumerate(ranks))
    used = [a for a in alpha if rng.random() < 0.8] or alpha[:1]
    if not any(r == 0 for _, r in used):
        used.append([a for a in alpha if a[1] == 0][0])
    A = rand_ta(rng, used, nmax=3, dials=dict(norule_state=0.05))
    c = rng.random()
    if c < 0.08:
        A = TA([(f, tuple([0] * r), 0) for f, r in alpha], [0])     # universal
    elif c < 0.14:
        A.finals = []
    return f"compl {A.tok()} {','.join(map(str, ranks))}"


def g_rename(rng):
    multi = rng.random() < 0.2
    A = rand_ta(rng, nmax=5, dense=rng.random() < 0.5)
    if multi and A.rules:
        # one symbol number at several arities
        f = A.rules[0][0]
        st = A.states()
        A.rules.append((f, tuple(rng.choice(st) for _ in range(rng.randint(0, 3))), rng.choice(st)))
    sm = rand_map(rng, A.states())
    syms = sorted({r[0] for r in A.rules})
    ym = rand_map(rng, syms, rng.choice(["inj", "merge", "id"]))
    D = rand_ta(rng, nmax=3) if rng.random() < 0.7 else TA()
    if rng.random() < 0.4 and sm:
        # destination overlapping the image
        tgt = list(sm.values())
        D.rules.append((0, (), rng.choice(tgt)))
    # the state on which the throwing functor throws: mostly a state of A, sometimes a number that does not occur
    st = A.states()
    miss = rng.choice(st) if (st and rng.random() < 0.8) else 77
    return f"rename {A.tok()} {map_tok(sm)} {map_tok(ym)} {D.tok()} {miss}"



# ---------------------------------------------------------------- word automata
class NFA:
    def __init__(self, trans=None, starts=None, finals=None):
        self.trans = list(trans or [])      # (src, sym, dst)
        self.starts = list(starts or [])
        self.finals = list(finals or [])

    def states(self):
        s = set(self.starts) | set(self.finals)
        for (a, _, c) in self.trans:
            s.add(a)
            s.add(c)
        return sorted(s)

    def tok(self):
        return (";".join(f"{a},{b},{c}" for (a, b, c) in self.trans) + "|" + ",".join(map(str, self.starts)) + "|" +
                ",".join(map(str, self.finals)))

    def renamed(self, m):
        return NFA([(m[a], b, m[c]) for (a, b, c) in self.trans], [m[q] for q in self.starts], [m[q] for q in self.finals])

    def copy(self):
        return NFA(self.trans, self.starts, self.finals)


def rand_nfa(rng, nmax=5, nsyms=3, base=0, sparse=False):
    n = rng.randint(1, nmax)
    states = rng.sample(range(base, base + 30), n) if sparse else list(range(base, base + n))
    syms = list(range(rng.randint(1, nsyms)))
    trans = []
    for _ in range(rng.randint(0, 2 * n + 2)):
        trans.append((rng.choice(states), rng.choice(syms), rng.choice(states)))
    if rng.random() < 0.3 and trans:
        trans.append(rng.choice(trans))
    starts = list({rng.choice(states) for _ in range(rng.choice([1, 1, 2, 2, 3]))})
    if rng.random() < 0.05:
        starts = []
    finals = list({rng.choice(states) for _ in range(rng.choice([1, 1, 2]))})
    if rng.random() < 0.05:
        finals = []
    if rng.random() < 0.25 and starts:
        finals.append(rng.choice(starts))          # epsilon accepted
    if rng.random() < 0.2:
        # a dead / unreachable tail
        x = max(states) + 1
        trans.append((x, rng.choice(syms), rng.choice(states)) if rng.random() < 0.5 else (rng.choice(states), rng.choice(syms), x))
    return NFA(trans, sorted(set(starts)), sorted(set(finals)))


def mutate_nfa(rng, A):
    B = A.copy()
    st = B.states() or [0]
    syms = sorted({b for (_, b, _) in B.trans}) or [0]
    for _ in range(rng.randint(1, 2)):
        c = rng.random()
        if c < 0.3 and B.trans:
            B.trans.pop(rng.randrange(len(B.trans)))
        elif c < 0.6:
            B.trans.append((rng.choice(st), rng.choice(syms + [max(syms) + 1]), rng.choice(st)))
        elif c < 0.8:
            q = rng.choice(st)
            B.finals = [x for x in B.finals if x != q] if q in B.finals else B.finals + [q]
        else:
            q = rng.choice(st)
            B.starts = [x for x in B.starts if x != q] if q in B.starts else B.starts + [q]
    return B


def split_nfa(rng, A, keep=0.7):
    st = A.states()
    copies, nxt = {}, 0
    for q in st:
        k = rng.choice([1, 2, 2, 3])
        copies[q] = list(range(nxt, nxt + k))
        nxt += k
    trans = []
    for (a, b, c) in A.trans:
        for x in copies[a]:
            for y in copies[c]:
                if rng.random() < keep:
                    trans.append((x, b, y))
    starts = [c for q in A.starts for c in copies[q] if rng.random() < 0.8]
    finals = [c for q in A.finals for c in copies[q] if rng.random() < 0.8]
    return NFA(trans, sorted(set(starts)), sorted(set(finals)))


def nfa_pair(rng):
    A = rand_nfa(rng, sparse=rng.random() < 0.3)
    c = rng.random()
    if c < 0.35:
        B = mutate_nfa(rng, A)
    elif c < 0.7:
        B = split_nfa(rng, A, keep=rng.choice([0.6, 0.8, 0.95]))
        if len(B.states()) > 9:
            B = mutate_nfa(rng, A)
    else:
        B = rand_nfa(rng, sparse=rng.random() < 0.3)
    if rng.random() < 0.4:
        A, B = B, A
    return A, B


def g_nfah_incl(rng):
    A, B = nfa_pair(rng)
    steps = [f"def:{A.tok()}", f"def:{B.tok()}", "incl:0:1", "incl:1:0"]
    if rng.random() < 0.3:
        steps += ["union:0:1", "incl:0:2", "incl:2:1"]
    if rng.random() < 0.03:
        steps += ["inclall:0:1"]
    return "nfah " + " ".join(steps)


def nfa_greatest_sim(trans, finals, states):
    """greatest forward simulation (p, q): q simulates p – naive refinement"""
    R = {(p, q) for p in states for q in states if (p not in finals) or (q in finals)}
    succ = {}
    for (a, b, c) in trans:
        succ.setdefault((a, b), set()).add(c)
    syms = sorted({b for (_, b, _) in trans})
    changed = True
    while changed:
        changed = False
        for (p, q) in sorted(R):
            ok = True
            for b in syms:
                for p2 in succ.get((p, b), ()):
                    if not any((p2, q2) in R for q2 in succ.get((q, b), ())):
                        ok = False
                        break
                if not ok:
                    break
            if not ok:
                R.discard((p, q))
                changed = True
    return R


def g_nfah_inclsim(rng):
    """the two selections that take a simulation: state-disjoint dense operands and a simulation PREORDER on their union
    (the greatest one, the identity, or – 10 % – the greatest one restricted to the states of B plus the identity)"""
    A, B = nfa_pair(rng)
    sa = A.states()
    A = A.renamed({q: i for i, q in enumerate(sa)})
    sb = B.states()
    B = B.renamed({q: len(sa) + i for i, q in enumerate(sb)})
    states = sorted(set(A.states()) | set(B.states()))
    trans = list(A.trans) + list(B.trans)
    finals = set(A.finals) | set(B.finals)
    c = rng.random()
    if c < 0.3:
        R = {(q, q) for q in states}
    else:
        R = nfa_greatest_sim(trans, finals, states)
        if c < 0.4:
            bs = set(B.states())
            R = {(p, q) for (p, q) in R if (p in bs and q in bs) or p == q}
    tok = ",".join(f"{p}.{q}" for (p, q) in sorted(R)) or "-"
    steps = [f"def:{A.tok()}", f"def:{B.tok()}", f"inclsim:0:1:{tok}", f"inclsim:1:0:{tok}"]
    return "nfah " + " ".join(steps)


def g_nfah_cli(rng):
    A, B = nfa_pair(rng)
    return f"nfah def:{A.tok()} def:{B.tok()} incl:0:1"


def g_nfah_ops(rng):
    A, B = nfa_pair(rng)
    # entry 2: numbers disjoint from A (for UnionDisjointStates); entry 3: same numbers as entry 2, other automaton
    off = (max(A.states() or [0]) + 1) + rng.randint(0, 3)
    stB = B.states()
    B2 = B.renamed({q: off + i for i, q in enumerate(stB)})
    C = rand_nfa(rng, base=off, nmax=max(1, len(stB)))
    steps = [f"def:{A.tok()}", f"def:{B.tok()}", f"def:{B2.tok()}", f"def:{C.tok()}"]
    n = 4
    for _ in range(rng.randint(2, 7)):
        c = rng.random()
        i = rng.randrange(n)
        j = rng.randrange(n)
        if c < 0.16:
            if rng.random() < 0.35 and i < 4 and j < 4:
                # caller-supplied pre-filled maps: injective, disjoint images (what a caller chaining unions supplies)
                defs = [A, B, B2, C]
                ka = [q for q in defs[i].states() if rng.random() < 0.6]
                kb = [q for q in defs[j].states() if rng.random() < 0.6]
                vals = rng.sample(range(0, 14), min(14, len(ka) + len(kb)))
                ka, kb = ka[: len(vals)], kb[: max(0, len(vals) - len(ka))]
                ml = dict(zip(ka, vals[: len(ka)]))
                mr = dict(zip(kb, vals[len(ka):]))
                steps.append(f"unionpre:{i}:{j}:{map_tok(ml)}:{map_tok(mr)}")
            else:
                steps.append(f"union:{i}:{j}")
        elif c < 0.36:
            steps.append(f"uniondisj:0:{rng.choice([2, 3])}")
        elif c < 0.54:
            steps.append(f"isect:{i}:{j}")
        elif c < 0.66:
            steps.append(f"rev:{i}")
        elif c < 0.76:
            steps.append(f"unreach:{i}")
        elif c < 0.86:
            steps.append(f"useless:{i}")
        else:
            steps.append(f"cand:{i}")
        n += 1
        if rng.random() < 0.35:
            steps.append(f"rt:{rng.randrange(n)}")          # dump / reload round trip of an operand or a result (C13)
    return "nfah " + " ".join(steps)


def g_nfah_hist(rng):
    """copy / assign / mutate / destroy interleavings over NFAs that share storage (C11)"""
    A = rand_nfa(rng, nmax=4)
    B = rand_nfa(rng, nmax=4, base=rng.choice([0, 10]))
    steps = [f"def:{A.tok()}", f"def:{B.tok()}"]
    live = [0, 1]
    n = 2
    for _ in range(rng.randint(4, 14)):
        if not live:
            break
        c = rng.random()
        i = rng.choice(live)
        j = rng.choice(live)
        if c < 0.2:
            steps.append(f"copy:{i}")
            live.append(n)
            n += 1
        elif c < 0.3:
            steps.append(f"assign:{i}:{j}")
        elif c < 0.55:
            steps.append(f"add:{i}:{rng.randrange(0, 14)},{rng.randrange(0, 3)},{rng.randrange(0, 14)}")
        elif c < 0.65:
            steps.append(f"final:{i}:{rng.randrange(0, 14)}")
        elif c < 0.72:
            steps.append(f"start:{i}:{rng.randrange(0, 14)}")
        elif c < 0.80 and len(live) > 1:
            steps.append(f"kill:{i}")
            live.remove(i)
        elif c < 0.86:
            steps.append(f"move:{i}")
            live.remove(i)
            live.append(n)
            n += 1
        else:
            op = rng.choice(["rev", "unreach", "useless", "cand", "union", "isect"])
            steps.append(f"{op}:{i}" if op in ("rev", "unreach", "useless", "cand") else f"{op}:{i}:{j}")
            live.append(n)
            n += 1
    return "nfah " + " ".join(steps)



# ---------------------------------------------------------------- bounding product growth in histories
_CREATING = {"def", "defo", "new", "copy", "copynt", "copynf", "move", "union", "unionpre", "uniondisj", "isect", "isectbu", "rev", "unreach",
             "useless", "cand", "reduce", "reindex", "reidx", "totd"}


def _tok_size(tok, sep):
    """(number of states, number of transitions / rules) of an automaton token (NFA `src,sym,dst;…|…|…` or TA `sym:k,k>p;…|…`)"""
    parts = tok.split("|")
    items = [x for x in parts[0].split(";") if x]
    st = set()
    for it in items:
        if sep == ":":                       # NFA
            f = it.split(",")
            if len(f) == 3:
                st.add(f[0]); st.add(f[2])
        else:                                # TA
            if ">" in it:
                lhs, p_ = it.split(">")
                st.add(p_)
                ks = lhs.split(":", 1)[1] if ":" in lhs else ""
                st.update(k for k in ks.split(",") if k)
    for extra in parts[1:]:
        st.update(x for x in extra.replace(".", ",").split(",") if x)
    return max(1, len(st)), max(1, len(items))


def cap_products(case, sep, cap, max_states=150, max_trans=2500):
    """Repeated intersections of results grow as n^(2^k) (a 5-state NFA intersected with itself three times has 390 625 product
    states, an 8-state NFA with 36 transitions intersected with itself twice 1.7 million transitions: minutes of honest work,
    reported as TIMEOUT by the watchdog).  Tracks the product nesting level and an upper bound of the size of every entry through
    the history and turns an intersection that would exceed the caps into a trimming step of its first operand (the number of
    entries created stays the same, so later indices keep their meaning)."""
    toks = case.split(" ")
    head, steps = toks[0], toks[1:]
    pre = []
    if head in ("bddh", "bddpre"):
        pre, steps = steps[:1], steps[1:]
    level, size = [], []
    out = []
    for st in steps:
        f = st.split(sep)
        op = f[0]

        def ix(k):
            try:
                v = int(f[k])
                return v if 0 <= v < len(level) else None
            except (ValueError, IndexError):
                return None

        def lv(k):
            return level[ix(k)] if ix(k) is not None else 0

        def sz(k):
            return size[ix(k)] if ix(k) is not None else (1, 1)
        if op in ("isect", "isectbu"):
            l = max(lv(1), lv(2)) + 1
            ns, nt = sz(1)[0] * sz(2)[0], sz(1)[1] * sz(2)[1]
            if l > cap or ns > max_states or nt > max_trans:
                st = sep.join(["useless", f[1]])
                l, ns, nt = lv(1), sz(1)[0], sz(1)[1]
            level.append(l); size.append((ns, nt))
        elif op in ("union", "unionpre", "uniondisj"):
            level.append(max(lv(1), lv(2))); size.append((sz(1)[0] + sz(2)[0], sz(1)[1] + sz(2)[1]))
        elif op in ("assign", "moveassign", "massign"):
            if ix(1) is not None:
                level[ix(1)] = lv(2); size[ix(1)] = sz(2)
        elif op in ("def", "defo", "load"):
            level.append(0); size.append(_tok_size(st[len(op) + 1:], sep))
        elif op == "new":
            level.append(0); size.append((1, 1))
        elif op in _CREATING:
            level.append(lv(1)); size.append(sz(1))
        elif op in ("add", "addt", "final", "finals", "start", "loadinto"):
            if ix(1) is not None:
                a, b = size[ix(1)]
                size[ix(1)] = (a + 4, b + (8 if op == "loadinto" else 1))
        out.append(st)
    return " ".join([head] + pre + out)

# ---------------------------------------------------------------- labelled transition systems
def g_lts(rng):
    big = rng.random() < 0.12
    huge = rng.random() < 0.01
    n = rng.randint(13, 30) if big else rng.randint(1, 8)
    nl = rng.randint(1, 4 if big else 3)
    ne = rng.randint(n, 3 * n) if big else rng.randint(0, 3 * n)
    edges = []
    if huge:
        # 66-150 states most of which end in blocks of their own (a chain: the distance to the end separates them), so that
        # the partition grows one block at a time past 64 and 128 – the sizes at which bit vectors indexed by blocks get a new word
        n = rng.randint(66, 150)
        nl = rng.randint(1, 2)
        order = list(range(n))
        if rng.random() < 0.5:
            rng.shuffle(order)
        edges = [(order[i], 0, order[i + 1]) for i in range(n - 1)]
        ne = rng.randint(0, n // 4)
    for _ in range(ne):
        edges.append((rng.randrange(n), rng.randrange(nl), rng.randrange(n)))
    if rng.random() < 0.4 and edges:
        edges.append(rng.choice(edges))                  # parallel edge
    if rng.random() < 0.2:
        nl_extra = nl + 1                                # a label with a single edge far away
        edges.append((rng.randrange(n), nl_extra, rng.randrange(n)))
    overload = rng.choice([0, 0, 0, 1, 2])
    out = rng.choice([n, n, n, rng.randint(0, n), max(0, n - 1)])
    part, rel = "-", "-"
    if overload == 0:
        nb = rng.randint(1, min(n, 4))
        blocks = [[] for _ in range(nb)]
        for q in range(n):
            blocks[rng.randrange(nb)].append(q)
        blocks = [b for b in blocks if b]
        nb = len(blocks)
        # random preorder on blocks: reflexive-transitive closure of random pairs
        r = {(i, i) for i in range(nb)}
        for _ in range(rng.randint(0, nb * nb)):
            r.add((rng.randrange(nb), rng.randrange(nb)))
        ch = True
        while ch:
            ch = False
            for (a, b) in list(r):
                for (c, d) in list(r):
                    if b == c and (a, d) not in r:
                        r.add((a, d))
                        ch = True
        part = "/".join(",".join(map(str, b)) for b in blocks)
        rel = ",".join(f"{a}.{b}" for (a, b) in sorted(r))
    stage = ""
    if len(edges) >= 2 and rng.random() < 0.12:
        # two-stage construction: k edges, init(), the remaining edges, init() again – as a client does that extends a system between two
        # simulation computations; in half of the cases the second stage only uses labels the first stage already used
        k = rng.randint(1, len(edges) - 1)
        if rng.random() < 0.5:
            seen = {b for (_, b, _) in edges[:k]}
            mx = max(seen)
            edges = edges[:k] + [e for e in edges[k:] if e[1] <= mx]
        if len(edges) > k:
            stage = f" st={k}"
    es = ";".join(f"{a},{b},{c}" for (a, b, c) in edges) or "-"
    return f"lts {n} {es} {part} {rel} {out} {overload}{stage}"


# ---------------------------------------------------------------- explicit tree automata: histories
def rule_tok(r):
    f, ks, p = r
    return f"{f}:{','.join(map(str, ks))}>{p}"


def rand_rule(rng, nstates=5, multi_arity=True):
    if multi_arity:
        f = rng.randrange(0, 4)
        rk = rng.choice([0, 0, 1, 2, 2, 3])       # one symbol number at several arities
    else:
        f, rk = rng.choice([a for a in ALPHA if a[1] <= 2])   # ranked alphabet shared by all operands
    return (f, tuple(rng.randrange(nstates) for _ in range(rk)), rng.randrange(nstates))


def g_tah_store(rng):
    """C12: the five mutators on one automaton interleaved with all read-only views"""
    steps = ["new"]
    # in a third of the histories the per-step views leave out AreTransitionsEmpty() (it unshares the rule container) and a SNAPSHOT
    # (copy) is taken right before a Clear / a mutation: the mutators then run on a container that is still shared
    note = rng.random() < 0.33
    if note:
        steps.append("opt!note")
    added = []
    for _ in range(rng.randint(4, 24)):
        c = rng.random()
        if note and rng.random() < 0.15:
            steps.append("copy!0")
        if c < 0.45:
            r = rng.choice(added) if (added and rng.random() < 0.3) else rand_rule(rng)
            added.append(r)
            steps.append(("add!0!" if rng.random() < 0.7 else "addt!0!") + rule_tok(r))
        elif c < 0.58:
            steps.append(f"final!0!{rng.randrange(0, 7)}")
        elif c < 0.66:
            steps.append("finals!0!" + ",".join(str(rng.randrange(0, 7)) for _ in range(rng.randint(1, 3))))
        elif c < 0.72:
            steps.append("erasefinal!0")
        elif c < 0.80:
            if note and rng.random() < 0.6:
                steps.append("copy!0")
            steps.append("clear!0")
        else:
            probes = [rng.choice(added) for _ in range(min(len(added), 2))] + [rand_rule(rng) for _ in range(2)]
            if added:
                f, ks, p = rng.choice(added)
                probes.append((f, ks, (p + 1) % 6))                       # near miss: other parent
                probes.append((f, ks + (0,), p))                          # near miss: other arity
            steps.append("probe!0!" + ";".join(rule_tok(r) for r in probes) + "!" + ",".join(str(q) for q in range(0, 7)))
    return "tah " + " ".join(steps)


def g_tah_hist(rng):
    """C11: copy / assign / move / mutate / clear / destroy / derive over several live automata sharing storage"""
    A = rand_ta(rng, nmax=4, dense=True)
    steps = ["def!" + A.tok()]
    if rng.random() < 0.5:
        steps.append("def!" + rand_ta(rng, nmax=3, dense=True).tok())
    else:
        steps.append("new")
    live = [0, 1]
    n = 2
    # AreTransitionsEmpty() unshares the rule table: in most histories it is not part of the per-step views (so that copies
    # really share storage when the next step comes) and only called through explicit `te` steps
    note = rng.random() < 0.85
    if note:
        steps.append("opt!note")
    for _ in range(rng.randint(5, 18)):
        if not live:
            break
        c = rng.random()
        i = rng.choice(live)
        j = rng.choice(live)
        if note and rng.random() < 0.04:
            steps.append(f"te!{i}")
        if c < 0.14:
            steps.append(rng.choice(["copy", "copy", "copy", "copynt", "copynf"]) + f"!{i}")
            live.append(n); n += 1
        elif c < 0.22:
            steps.append(f"assign!{i}!{j}" if i != j or rng.random() < 0.5 else f"selfassign!{i}")
        elif c < 0.26:
            steps.append(f"move!{i}")
            live.remove(i); live.append(n); n += 1
        elif c < 0.29 and i != j:
            steps.append(f"moveassign!{i}!{j}")
            live.remove(j)
        elif c < 0.52:
            steps.append(f"add!{i}!" + rule_tok(rand_rule(rng, multi_arity=False)))
        elif c < 0.60:
            steps.append(f"final!{i}!{rng.randrange(0, 6)}")
        elif c < 0.64:
            steps.append(f"erasefinal!{i}")
        elif c < 0.655:
            # text loaded into an existing (possibly sharing) automaton; distinct rules only, ranked symbols
            L = rand_ta(rng, nmax=3, dense=True)
            L = TA(list(dict.fromkeys(L.rules)), sorted(set(L.finals)))
            if L.rules:
                steps.append(f"loadinto!{i}!{L.tok()}")
        elif c < 0.69:
            steps.append(f"clear!{i}")
        elif c < 0.75 and len(live) > 1:
            steps.append(f"kill!{i}")
            live.remove(i)
        elif c < 0.93:
            op = rng.choice(["unreach", "unreach", "useless", "useless", "cand", "reduce", "union", "isect", "isectbu", "reindex"])
            if op in ("union", "isect", "isectbu"):
                steps.append(f"{op}!{i}!{j}")
            elif op == "reindex":
                steps.append(f"reindex!{i}!" + map_tok({q: rng.randrange(0, 8) for q in range(0, 12)}))
            else:
                steps.append(f"{op}!{i}")
            live.append(n); n += 1
        else:
            if i != j:
                steps.append(f"reindexinto!{i}!{j}!" + map_tok({q: rng.randrange(0, 8) for q in range(0, 12)}))
    return "tah " + " ".join(steps)


# ---------------------------------------------------------------- MTBDD histories
MT_NV, MT_NQ = 4, 6


def rand_asgn(rng, n, px=0.45):
    return "".join("X" if rng.random() < px else rng.choice("01") for _ in range(n))


def g_mth(rng, rc=False):
    steps = []
    live = []        # (index, upper bound on variables used)
    n = 0

    def new(maxvar):
        nonlocal n
        live.append((n, maxvar))
        n += 1

    for _ in range(rng.randint(2, 3)):
        c = rng.random()
        if c < 0.85:
            steps.append(f"con!{rand_asgn(rng, MT_NV)}!{rng.randint(1, 5)}!{rng.choice([0, 0, 0, 1])}")
            new(MT_NV)
        else:
            steps.append(f"leaf!{rng.randint(0, 4)}")
            new(0)
    for _ in range(rng.randint(3, 12)):
        if not live:
            break
        c = rng.random()
        (i, mi) = rng.choice(live)
        (j, mj) = rng.choice(live)
        (l, ml) = rng.choice(live)
        if c < 0.10:
            steps.append(f"con!{rand_asgn(rng, MT_NV)}!{rng.randint(1, 5)}!{rng.choice([0, 0, 1])}")
            new(MT_NV)
        elif c < 0.20:
            steps.append(f"copy!{i}")
            new(mi)
        elif c < 0.28:
            if i == j or rng.random() < 0.2:
                steps.append(f"selfassign!{i}")
            else:
                steps.append(f"assign!{i}!{j}")
                live[:] = [(x, (mj if x == i else m)) for (x, m) in live]
        elif c < 0.36 and len(live) > 1:
            steps.append(f"kill!{i}")
            live[:] = [(x, m) for (x, m) in live if x != i]
        elif c < 0.44:
            steps.append(f"ap1!{i}!{rng.randrange(0, 4)}")
            new(mi)
        elif c < 0.62:
            steps.append(f"ap2!{i}!{j}!{rng.randrange(0, 4)}")
            new(max(mi, mj))
        elif c < 0.68:
            steps.append(f"ap2to!{i}!{j}!{rng.randrange(0, 4)}")
            live[:] = [(x, (max(mi, mj) if x == i else m)) for (x, m) in live]
        elif c < 0.80:
            steps.append(f"ap3!{i}!{j}!{l}!{rng.randrange(0, 3)}")
            new(max(mi, mj, ml))
        elif c < 0.87 and not rc:
            # non-idempotent leaf operations matter: with them op(x, x) != x, so a node whose two projected children
            # coincide must still be combined; masks with several variables make such nodes
            mask = rng.randrange(1, 1 << MT_NQ) | (rng.randrange(1, 1 << MT_NV) if rng.random() < 0.5 else 0)
            steps.append(f"proj!{i}!{mask}!{rng.choice([0, 0, 1, 2, 3])}")
            new(mi)
        elif c < 0.90 and mi <= MT_NV:
            off = rng.randint(0, MT_NQ - MT_NV)
            steps.append(f"ren!{i}!{off}")
            new(mi + off)
        elif c < 0.93 and mi <= MT_NV:
            k = MT_NQ - MT_NV
            steps.append(f"ext!{i}!{rand_asgn(rng, k, 0.3)}!{MT_NV}")
            new(MT_NQ)
        elif c < 0.955:
            off = rng.randint(0, MT_NQ)
            steps.append(f"pre!{i}!{rand_asgn(rng, MT_NQ - off + 1, 0.2)}!{off}")
            new(mi)
        elif c < 0.98:
            steps.append(f"paths!{i}")
        else:
            steps.append(f"getv!{i}!{rand_asgn(rng, MT_NQ, 0.4)}")
    if rc and live and rng.random() < 0.03:
        # a BURST of copies of one diagram (more simultaneous references to a node than a narrow counter can hold), all destroyed again
        steps.insert(rng.randint(2, len(steps)), f"burst!{live[0][0]}!{rng.choice([300, 70000, 66000])}") if live[0][0] < 2 else None
    return ("mthrc " if rc else "mth ") + " ".join(steps)


def g_mthrc(rng):
    """C18: as g_mth without Project (which is outside the property's quantifier and leaves count-0 nodes behind)"""
    return g_mth(rng, rc=True)


# ---------------------------------------------------------------- BDD encodings
def g_bddincl(rng):
    A, B, _ = rand_pair(rng)
    return f"bddincl {A.tok()} {B.tok()}"


def g_bddinclall(rng):
    A, B, _ = rand_pair(rng, nmax=3)
    return f"bddinclall {A.tok()} {B.tok()}"


def g_bddtd(rng):
    if rng.random() < 0.012:
        # one automaton with 260-330 distinct leaf symbols (ids 8k, 8k+1, 8k+2: the nullary rank classes): the symbol dictionary
        # of the BDD encodings and its code counter are pushed past 256 inside ONE case
        m = rng.randint(260, 330)
        ids = rng.sample([8 * k + r for k in range(200) for r in (0, 1, 2)], m)
        rules = [(f, (), rng.choice([0, 0, 1])) for f in ids]
        rules.append((4, (0, 1), 0))
        rules.append((3, (1,), 1))
        rng.shuffle(rules)
        return f"bddtd {TA(rules, [0]).tok()}"
    if rng.random() < 0.6:
        # the converted automaton meets a natively loaded one (intersection, union, inclusion in both directions)
        A, B, _ = rand_pair(rng, nmax=4)
        A = TA(list(dict.fromkeys(A.rules)), sorted(set(A.finals)))
        B = TA(list(dict.fromkeys(B.rules)), sorted(set(B.finals)))
        return f"bddtd {A.tok()} {B.tok()}"
    A = rand_ta(rng, nmax=5, dials=dict(dead_child=0.3, final_norule=0.2))
    return f"bddtd {A.tok()}"


def g_bddh(rng):
    enc = rng.choice(["bu", "td"])
    alpha = pick_alpha(rng)
    steps = []
    live = []
    fam = {}             # entry -> table family (automata that may share one transition table)
    fblocks = {}         # family -> number blocks that occur in the table or in final sets of its members
    n = 0
    nfam = 0

    lvl = {}             # entry -> product nesting level (repeated intersections of results grow as n^(2^k))

    def new(family=None, bl=(), level=0):
        nonlocal n, nfam
        if family is None:
            family = nfam
            nfam += 1
            fblocks[family] = set()
        fam[n] = family
        fblocks[family] |= set(bl)
        lvl[n] = level
        live.append(n)
        n += 1

    def block(q):
        return q // 100 if q >= 100 else "f"

    for _ in range(rng.randint(2, 3)):
        A = rand_ta(rng, alpha, nmax=4)
        if rng.random() < 0.3 and live:
            A = mutate_ta(rng, A, alpha)
        steps.append("def!" + A.tok())
        new(None, {len(steps)})
    for _ in range(rng.randint(2, 7)):
        c = rng.random()
        i = rng.choice(live)
        j = rng.choice(live)
        if 0.68 <= c < 0.82 and max(lvl[i], lvl[j]) >= 1:
            c = 0.95                                         # no intersection of an intersection: trim instead
        if c < 0.12:
            steps.append(f"copy!{i}"); new(fam[i], level=lvl[i])
        elif c < 0.18:
            steps.append(f"assign!{i}!{j}"); fam[i] = fam[j]; lvl[i] = lvl[j]
        elif c < 0.24 and len(live) > 2:
            steps.append(f"kill!{i}"); live.remove(i)
        elif c < 0.34 and "f" not in fblocks[fam[i]]:
            steps.append(f"loadinto!{i}!" + rand_ta(rng, alpha, nmax=3).tok()); fblocks[fam[i]].add("f")
        elif c < 0.40:
            q = rng.choice([100, 101, 200, 201, 300, 0, 1])
            steps.append(f"final!{i}!{q}"); fblocks[fam[i]].add(block(q))
        elif c < 0.55:
            if fam[i] != fam[j] and rng.random() < 0.4:
                # caller-supplied PRE-FILLED maps (injective, disjoint images); keys among the small numbers loading hands out
                ka = [q for q in range(0, 5) if rng.random() < 0.4]
                kb = [q for q in range(0, 5) if rng.random() < 0.4]
                vals = rng.sample(range(0, 9), len(ka) + len(kb))
                ml = dict(zip(ka, vals[: len(ka)]))
                mr = dict(zip(kb, vals[len(ka):]))
                steps.append(f"unionpre!{i}!{j}!{map_tok(ml)}!{map_tok(mr)}")
            else:
                steps.append(f"union!{i}!{j}")
            if fam[i] == fam[j]:
                # shared-table branch (a view of the same table) – or, when a member of the family is a trimming result with
                # a table of its own, a fresh table with small numbers: cover both
                new(fam[i], {"f"}, level=max(lvl[i], lvl[j]))
            else:
                new(None, {"f"}, level=max(lvl[i], lvl[j]))
        elif c < 0.68:
            cands = [(a, b) for a in live for b in live if fam[a] != fam[b] and not (fblocks[fam[a]] & fblocks[fam[b]])]
            if cands:
                a, b = rng.choice(cands)
                steps.append(f"uniondisj!{a}!{b}")
                # the result starts as a copy of the left operand and writes the right operand's states into that table
                new(fam[a], fblocks[fam[b]], level=max(lvl[a], lvl[b]))
        elif c < 0.82:
            steps.append(f"isect!{i}!{j}"); new(None, {"f"}, level=max(lvl[i], lvl[j]) + 1)
        elif c < 0.91:
            steps.append(f"unreach!{i}"); new(fam[i], level=lvl[i])
        else:
            steps.append(f"useless!{i}"); new(fam[i], level=lvl[i])
        if rng.random() < 0.3:
            steps.append(f"rt!{rng.choice(live)}")            # dump / reload round trip of an operand or a result (C13)
    return f"bddh {enc} " + " ".join(steps)


# ---------------------------------------------------------------- Timbuk texts (C13)
import glob as _glob
_TB_ALPHA = list(b"ab q0:-+>(),  \t\r\n\x0b\x0c1x9") + [0x80, 0xff, 0]
_TB_KW = [b"Ops", b"Automaton", b"States", b"Final", b"Final States", b"Transitions", b"->", b"(", b")", b",", b":", b" ", b"\n", b"\r\n",
          b"a", b"b", b"q", b"q0", b"q1", b":0", b":2", b":-1", b":+3", b":2147483647", b":2147483648", b":-2147483648", b":-2147483649",
          b":99999999999999999999999", b":007", b":1x", b":x", b":", b"a()", b"a( )", b"a(q)", b"a(q, q)", b"a(q,q)", b"a(,)", b"a(b(c))", b"-", b">",
          b"- >", b"\t", b"\x0b", b"\x0c", b"\x00", b"\xc3\xa9"]
_TB_FILES = None


def _tb_name(rng):
    cs = b"abqxyz019_-><.+*[]{}'\"\\/\x80\xff"
    n = rng.randint(1, 3) if rng.random() < 0.85 else rng.choice([15, 16, 17, 33])
    return bytes(rng.choice(cs) for _ in range(n))


def tb_valid(rng, ranked=False):
    """a valid Timbuk file; ranked=True: ranks equal arities, so that the loaders accept it as a tree automaton"""
    if ranked:
        syms = [(b"s%d" % i, rng.choice([0, 0, 1, 2])) for i in range(rng.randint(1, 4))]
        sts = [b"q%d" % i for i in range(rng.randint(1, 4))]
    else:
        syms = [(_tb_name(rng), rng.choice([0, 0, 1, 2, 3, -1, 10])) for _ in range(rng.randint(0, 3))]
        sts = [_tb_name(rng) for _ in range(rng.randint(0, 3))]
    # an `Ops` entry may come without `:arity` (the parser records -1) – in a sixth of the unranked files one entry does
    bare = rng.randrange(len(syms)) if (syms and not ranked and rng.random() < 0.17) else -1
    out = b"Ops " + b"".join((s + b" ") if i == bare else (s + b":" + str(r).encode() + b" ") for i, (s, r) in enumerate(syms)) + b"\n"
    out += b"Automaton " + rng.choice([b"A", b"anonymous", _tb_name(rng)]) + b"\n"
    out += b"States " + b"".join(s + rng.choice([b"", b":0", b":1"]) + b" " for s in sts) + b"\n"
    out += b"Final States " + b"".join(s + b" " for s in sts if rng.random() < 0.5) + b"\n"
    out += b"Transitions\n"
    for _ in range(rng.randint(0, 5)):
        if ranked:
            s, k = rng.choice(syms)
        else:
            s = rng.choice(syms)[0] if syms else _tb_name(rng)
            k = rng.randint(0, 3)
        kids = [rng.choice(sts) if sts else _tb_name(rng) for _ in range(k)]
        sep = rng.choice([b", ", b",", b" , "])
        lhs = s + ((b"(" + sep.join(kids) + b")") if (k > 0 or rng.random() < 0.3) else b"")
        out += lhs + rng.choice([b" -> ", b"->", b"  ->  "]) + (rng.choice(sts) if sts else _tb_name(rng)) + b"\n"
    return out


def tb_nfa(rng):
    """a Timbuk file that is a word automaton (unary symbols, start rules `a -> q`)"""
    sts = [b"q%d" % i for i in range(rng.randint(1, 4))]
    syms = [b"a", b"b", b"c"][: rng.randint(1, 3)]
    out = b"Ops " + b"".join(s + b":1 " for s in syms) + b"x:0\nAutomaton A\nStates " + b" ".join(sts) + b"\nFinal States "
    out += b" ".join(s for s in sts if rng.random() < 0.5) + b"\nTransitions\n"
    for _ in range(rng.randint(1, 3)):
        out += rng.choice(syms + [b"x"]) + b" -> " + rng.choice(sts) + b"\n"
    for _ in range(rng.randint(0, 5)):
        out += rng.choice(syms) + b"(" + rng.choice(sts) + b") -> " + rng.choice(sts) + b"\n"
    return out


def tb_layout(rng, b):
    """legal layout variations: indentation-only lines (long enough to live on the heap: short strings are stored inside the
    std::string object, where an out-of-bounds access is invisible to ASan), trailing blanks, blank runs between tokens"""
    ls = b.split(b"\n")
    out = []
    for ln in ls:
        if rng.random() < 0.25:
            out.append(bytes(rng.choice(b" \t") for _ in range(rng.choice([1, 3, 15, 16, 17, 24, 40]))))
        if rng.random() < 0.3:
            ln = ln + bytes(rng.choice(b" \t") for _ in range(rng.choice([1, 2, 16, 33])))
        if rng.random() < 0.2:
            ln = bytes(rng.choice(b" \t") for _ in range(rng.choice([1, 17, 30]))) + ln
        if rng.random() < 0.15:
            ln = ln.replace(b" ", b" " * rng.choice([2, 17, 40]), 1)
        out.append(ln)
    return b"\n".join(out)


def tb_mutate(rng, b):
    b = bytearray(b)
    for _ in range(rng.randint(1, 4)):
        op = rng.randint(0, 4)
        pos = rng.randint(0, len(b))
        if op == 0 and b:
            del b[min(pos, len(b) - 1)]
        elif op == 1:
            b[pos:pos] = bytes([rng.choice(_TB_ALPHA)])
        elif op == 2:
            b[pos:pos] = rng.choice(_TB_KW)
        elif op == 3 and b:
            ls = bytes(b).split(b"\n")
            i = rng.randrange(len(ls))
            if rng.random() < 0.5:
                del ls[i]
            else:
                ls.insert(rng.randrange(len(ls) + 1), ls[i])
            b = bytearray(b"\n".join(ls))
        elif op == 4 and b:
            b[min(pos, len(b) - 1)] = rng.choice(_TB_ALPHA)
    return bytes(b)


def g_ownalpha(rng):
    """an automaton over a ranked alphabet (one arity per symbol), small symbol numbers: loaded from text into an automaton with its own alphabet"""
    A = rand_ta(rng, nmax=4)
    rank = {}
    rules = []
    for (f, ks, p) in A.rules:
        if rank.setdefault(f, len(ks)) == len(ks):
            rules.append((f, ks, p))
    return f"ownalpha {TA(rules, A.finals).tok()}"


def g_ltsc(rng):
    """histories on the container ExplicitLTS: construction in one go, extension between two init() calls (new labels, new states, parallel
    edges, consecutive duplicates), clear and rebuild"""
    steps = [f"new!{rng.choice([0, 0, 1, 2, 3, 5])}"]
    n, nl = rng.randint(1, 5), rng.randint(1, 3)

    def adds(k, n, nl):
        out = []
        for _ in range(k):
            e = (rng.randrange(n), rng.randrange(nl), rng.randrange(n))
            out.append("add!%d!%d!%d" % e)
            if rng.random() < 0.2:
                out.append("add!%d!%d!%d" % e)           # consecutive duplicate (parallel edge)
        return out
    steps += adds(rng.randint(0, 6), n, nl) + ["init"]
    for _ in range(rng.randint(0, 2)):
        c = rng.random()
        if c < 0.25:
            steps.append("clear")
            n, nl = rng.randint(1, 4), rng.randint(1, 3)
        elif c < 0.7:
            n, nl = n + rng.randint(0, 2), nl + rng.randint(0, 2)     # the extension may bring new states and labels
        steps += adds(rng.randint(0, 4), n, nl) + ["init"]
        if rng.random() < 0.2:
            steps.append("init")
    return "ltsc " + " ".join(steps)


def g_parse2(rng):
    """two spellings of ONE well-formed description: t0 as the serialiser writes it, t1 with every layout freedom the property's
    quantifier names ("nullary rules written with or without parentheses", blanks, tabs, CR, blank lines, trailing blanks)"""
    syms = [(b"s%d" % i, rng.choice([0, 0, 1, 2])) for i in range(rng.randint(1, 4))]
    if not any(r == 0 for _, r in syms):
        syms.append((b"c", 0))
    sts = [b"q%d" % i for i in range(rng.randint(1, 4))]
    fin = [s for s in sts if rng.random() < 0.5]
    rules = []
    for _ in range(rng.randint(1, 6)):
        s_, k = rng.choice(syms)
        rules.append((s_, [rng.choice(sts) for _ in range(k)], rng.choice(sts)))

    def ws(mn=0):
        return bytes(rng.choice(b" \t") for _ in range(rng.choice([mn, mn, 1, 2, 5, 17])))

    def render(fancy):
        sp = (lambda mn=0: ws(mn)) if fancy else (lambda mn=0: b" " * mn)
        eol = (lambda: rng.choice([b"\n", b"\r\n", b" \n", b"\t\n", b"\n\n", b"\n \t \n"])) if fancy else (lambda: b"\n")
        out = sp() + b"Ops" + sp(1) + b"".join(a + b":" + str(r).encode() + sp(1) for a, r in syms) + eol()
        out += sp() + b"Automaton" + sp(1) + b"A" + sp() + eol()
        out += sp() + b"States" + sp(1) + b"".join(q + sp(1) for q in sts) + eol()
        out += sp() + b"Final" + sp(1) + b"States" + sp(1) + b"".join(q + sp(1) for q in fin) + eol()
        out += sp() + b"Transitions" + sp() + eol()
        for (a, ks, q) in rules:
            if ks:
                lhs = a + sp() + b"(" + (sp() + b"," + sp()).join(sp() + k + sp() for k in ks) + b")"
            elif fancy:
                lhs = a + rng.choice([b"", b"()", b"( )", b"(\t)", b" ()", b"(  \t )", b" ( )"])
            else:
                lhs = a
            out += sp() + lhs + sp() + b"->" + sp() + q + sp() + eol()
        return out
    return "parse2 " + render(False).hex() + " " + render(True).hex()


def g_parse(rng):
    global _TB_FILES
    if _TB_FILES is None:
        _TB_FILES = [f for f in sorted(_glob.glob("/repo/automata/small_timbuk/*")) if os.path.getsize(f) < 6000]
    r = rng.random()
    if r < 0.12:
        t = tb_valid(rng)
    elif r < 0.27:
        t = tb_valid(rng, ranked=True)
    elif r < 0.35:
        t = tb_nfa(rng)
    elif r < 0.60:
        t = tb_mutate(rng, rng.choice([tb_valid(rng), tb_valid(rng, ranked=True), tb_nfa(rng)]))
    elif r < 0.75:
        t = b"".join(rng.choice(_TB_KW) for _ in range(rng.randint(0, 25)))
    elif r < 0.84:
        t = bytes(rng.choice(_TB_ALPHA) for _ in range(rng.randint(0, 40)))
    elif r < 0.92:
        t = b"Transitions\n" + b"".join(rng.choice(_TB_KW) for _ in range(rng.randint(0, 12)))
    elif _TB_FILES:
        t = open(rng.choice(_TB_FILES), "rb").read()
        if rng.random() < 0.5:
            t = tb_mutate(rng, t)
    else:
        t = tb_valid(rng)
    if rng.random() < 0.25:
        t = tb_layout(rng, t)
    return "parse " + t.hex()


# ---------------------------------------------------------------- metamorphic relations and laws (C19)
_C19_PAIRS = None


def c19_corpus_pairs():
    """shipped automata: tests/aut_timbuk_smaller with its expected verdicts, small_timbuk and moderate_artmc_timbuk pairs"""
    global _C19_PAIRS
    if _C19_PAIRS is None:
        out = []
        exp = "/repo/tests/aut_timbuk_smaller_incl.txt"
        if os.path.exists(exp):
            for ln in open(exp):
                p = ln.split()
                if len(p) == 3:
                    out.append((f"@/repo/tests/aut_timbuk_smaller/{p[0]}", f"@/repo/tests/aut_timbuk_smaller/{p[1]}", p[2]))
        for d, lim in [("/repo/automata/moderate_artmc_timbuk", 40000), ("/repo/automata/small_timbuk", 20000),
                       ("/repo/automata/artmc_timbuk", 60000)]:
            fs = [f for f in sorted(_glob.glob(d + "/*")) if os.path.isfile(f) and os.path.getsize(f) < lim
                  and not f.endswith("_result") and b"Transitions" in open(f, "rb").read()]
            for i in range(len(fs) - 1):
                out.append(("@" + fs[i], "@" + fs[i + 1], "?"))
                out.append(("@" + fs[i], "@" + fs[i], "?"))
        _C19_PAIRS = out
    return _C19_PAIRS


def g_meta(rng):
    A, B, _ = rand_pair(rng)
    return f"meta {A.tok()} {B.tok()} {rng.randrange(1, 10**9)}"


def g_metaf(rng):
    ps = c19_corpus_pairs()
    if not ps:
        return g_meta(rng)
    a, b, e = rng.choice(ps)
    return f"meta {a} {b} {rng.randrange(1, 10**9)}" + (f" {e}" if e in ("0", "1") else "")


# ---------------------------------------------------------------- exhaustive small scopes (thorough tier)
def enum_tas(nstates=2, max_rules=3, alphabet=((0, 0), (3, 1), (4, 2))):
    """every automaton over the alphabet with states 0..nstates-1, at most max_rules rules, any final set"""
    st = list(range(nstates))
    rules = []
    for f, rk in alphabet:
        for kids in itertools.product(st, repeat=rk):
            for p in st:
                rules.append((f, tuple(kids), p))
    out = []
    for k in range(max_rules + 1):
        for rs in itertools.combinations(rules, k):
            for fm in range(1 << nstates):
                out.append(TA(list(rs), [q for q in st if (fm >> q) & 1]))
    return out


def enum_nfas(nstates=2, max_trans=2, nsyms=2):
    st = list(range(nstates))
    trans = [(a, s, b) for a in st for s in range(nsyms) for b in st]
    out = []
    for k in range(max_trans + 1):
        for ts in itertools.combinations(trans, k):
            for sm in range(1 << nstates):
                for fm in range(1 << nstates):
                    out.append(NFA(list(ts), [q for q in st if (sm >> q) & 1], [q for q in st if (fm >> q) & 1]))
    return out


def enumerated(prop):
    """(description, cases) of the completely enumerated small scope of a property, or None"""
    if prop == "C03":
        tas = enum_tas(2, 3)
        return ("all automata over {a/0, f/1, g/2} with 2 states, ≤ 3 rules, any final set", [f"trim {a.tok()}" for a in tas])
    if prop == "C15":
        tas = enum_tas(2, 3)
        return ("all automata over {a/0, f/1, g/2} with 2 states, ≤ 3 rules, any final set", [f"cand {a.tok()}" for a in tas])
    if prop == "C05":
        tas = enum_tas(2, 3)
        return ("all automata over {a/0, f/1, g/2} with 2 states, ≤ 3 rules, any final set", [f"reduce {a.tok()}" for a in tas])
    if prop == "C01":
        tas = [a for a in enum_tas(2, 2) if a.finals]
        return ("all ordered pairs of automata over {a/0, f/1, g/2} with 2 states, ≤ 2 rules, non-empty final set",
                [f"incl {a.tok()} {b.tok()}" for a in tas for b in tas])
    if prop == "C07":
        tas = [a for a in enum_tas(2, 2) if a.finals and a.rules]
        tas = tas[::3]
        return ("every third automaton (in enumeration order) over {a/0, f/1, g/2} with 2 states, 1–2 rules, non-empty final set: all ordered pairs",
                [f"bddincl {a.tok()} {b.tok()}" for a in tas for b in tas])
    if prop == "C09":
        ns = [n for n in enum_nfas(2, 2, 2) if n.starts and n.finals]
        return ("all ordered pairs of NFAs over {a,b} with 2 states, ≤ 2 transitions, non-empty start and final sets",
                [f"nfah def:{a.tok()} def:{b.tok()} incl:0:1" for a in ns for b in ns])
    if prop == "C06":
        tas = enum_tas(2, 3, alphabet=((0, 0), (1, 2)))
        return ("all automata over {s0/0, s1/2} with 2 states, ≤ 3 rules, any final set; alphabet {s0/0, s1/2, s2/0}",
                [f"compl {a.tok()} 0,2,0" for a in tas])
    return None


def nfa_as_ta(N):
    """an NFA as the tree automaton its Timbuk text denotes: symbol 0 = the nullary start symbol, letter b = unary symbol b+1"""
    return TA([(0, (), q) for q in N.starts] + [(b + 1, (a,), c) for (a, b, c) in N.trans], list(N.finals))


def cliop_case(rng, rep, op):
    if rep == "expl_fa":
        NA, NB = nfa_pair(rng)
        A, B = nfa_as_ta(NA), nfa_as_ta(NB)
    elif op == "cmpl":
        toks = g_compl(rng).split(" ")
        return f"cliop {rep} cmpl {toks[1]} {toks[2]}"
    elif op == "simup":
        A = py_trim(rand_ta(rng, nmax=5))
        B = None
    elif op in ("union", "isect", "unions", "unionp", "isects", "isectp"):
        A, B, _ = rand_pair(rng)
    else:
        A = rand_ta(rng, nmax=5, dials=dict(dead_child=0.25, final_norule=0.15))
        B = None
    # the text format cannot express a rule twice or an automaton without any symbol: normalise
    A = TA(list(dict.fromkeys(A.rules)), sorted(set(A.finals)))
    if op in ("union", "isect", "unions", "unionp", "isects", "isectp"):
        B = TA(list(dict.fromkeys(B.rules)), sorted(set(B.finals)))
        # a third of the cases: state names that contain the CLI's own name separators (`_1|`)
        return f"cliop {rep} {op} {A.tok()} {B.tok()}" + (" nm=1" if rng.random() < 0.35 else "")
    return f"cliop {rep} {op} {A.tok()}"


def mk_cliop(choices):
    def g(rng):
        rep, op = rng.choice(choices)
        return cliop_case(rng, rep, op)
    return g


CLIOPS = {
    "cliop_c02": [("expl", "union"), ("expl", "isect"), ("expl", "union"), ("expl", "isect"), ("expl", "unions"), ("expl", "unionp"), ("expl", "isects"), ("expl", "isectp")],
    "cliop_c03": [("expl", "load"), ("expl", "loadp"), ("expl", "loads")],
    "cliop_c04": [("expl", "simdown"), ("expl", "simup")],
    "cliop_c05": [("expl", "red")],
    "cliop_c06": [("expl", "cmpl")],
    "cliop_c08": [(r, o) for r in ("bdd-td", "bdd-bu") for o in ("load", "loadp", "loads", "union", "isect", "unions", "isectp")],
    "cliop_c10": [("expl_fa", o) for o in ("load", "loadp", "loads", "witness", "union", "isect", "unionp", "isects")],
    "cliop_c15": [("expl", "witness")],
}


def g_apisweep(rng):
    """two tree automata (loaded into all three tree encodings) and two NFAs for the API sweep of C20"""
    A, B, _ = rand_pair(rng)
    NA, NB = nfa_pair(rng)
    return f"apisweep {A.tok()} {B.tok()} {NA.tok()} {NB.tok()}"


from gen_ordvec import g_ordvec
from gen_achain import g_achain
from gen_bddsim import g_bddsim
from gen_binrel import g_binrel
from gen_cacheh import g_cacheh
from gen_glue import g_glue
from gen_cliargs import g_cliargs
from gen_ltsutil import g_ltsutil
from gen_nfas import g_nfas
from gen_bddwild import g_bddpre
from gen_bddload import g_bddload


GENERATORS = {
    "apisweep": g_apisweep,
    "ordvec": g_ordvec, "achain": g_achain, "bddsim": g_bddsim, "binrel": g_binrel, "cacheh": g_cacheh, "glue": g_glue, "cliargs": g_cliargs, "ltsutil": g_ltsutil, "nfas": g_nfas, "bddpre": g_bddpre, "bddload": g_bddload,
    **{k: mk_cliop(v) for k, v in CLIOPS.items()},
    "meta": g_meta, "metaf": g_metaf,
    "parse": g_parse,
    "bddincl": g_bddincl, "bddinclall": g_bddinclall, "bddtd": g_bddtd, "bddh": g_bddh,
    "mth": g_mth, "mthrc": g_mthrc,
    "tah_store": g_tah_store, "tah_hist": g_tah_hist,
    "lts": g_lts,
    "nfah_incl": g_nfah_incl, "nfah_inclsim": g_nfah_inclsim, "nfah_cli": g_nfah_cli, "nfah_ops": g_nfah_ops, "nfah_hist": g_nfah_hist,
    "incl": g_incl, "inclall": g_inclall, "union": g_union, "unionpre": g_unionpre, "mapsx": g_mapsx, "parse2": g_parse2, "ownalpha": g_ownalpha, "ltsc": g_ltsc, "uniondisj": g_uniondisj,
    "isect": g_isect, "isectbu": g_isectbu, "trim": g_trim, "cand": g_cand, "reduce": g_reduce, "simdown": g_simdown, "simup": g_simup,
    "compl": g_compl, "rename": g_rename,
}


def widen_symbols(rng, case, prob=0.5):
    """BDD encodings number symbol NAMES through a process-wide dictionary and counter: with only s0..s7 a process never sees the
    counter beyond 8.  In a fraction of the BDD cases every symbol id f becomes f + 8·K (K random per symbol, consistent inside
    the case; the rank class f mod 8 is kept), so that one harness process registers hundreds of names."""
    if rng.random() >= prob:
        return case
    toks = case.split(" ")
    mp = {}

    def remap_tok(tok):
        if "|" not in tok:
            return tok
        head, sep_, body = "", "", tok
        for sepc in ("!",):
            if sepc in tok:
                i = tok.rindex(sepc)
                head, sep_, body = tok[:i], sepc, tok[i + 1:]
        try:
            A = TA.parse(body)
        except Exception:
            return tok
        rules = []
        for (f, ks, p_) in A.rules:
            if f not in mp:
                mp[f] = f + 8 * rng.randrange(0, 128)
            rules.append((mp[f], ks, p_))
        return head + sep_ + TA(rules, A.finals).tok()
    return " ".join([toks[0]] + [remap_tok(t) for t in toks[1:]])


def _widened(g):
    return lambda rng: widen_symbols(rng, g(rng))


def _capped(g, sep, cap):
    return lambda rng: cap_products(g(rng), sep, cap)


for _k, _sep, _cap in [("nfah_ops", ":", 2), ("nfah_hist", ":", 2), ("tah_hist", "!", 1), ("nfas", ":", 2), ("bddpre", "!", 1)]:
    GENERATORS[_k] = _capped(GENERATORS[_k], _sep, _cap)


for _k in ("bddh", "bddtd", "bddincl", "bddpre"):
    GENERATORS[_k] = _widened(GENERATORS[_k])


def generate(kind_weights, n, seed):
    """n cases from the weighted kinds; one PRNG"""
    rng = random.Random(seed)
    kinds = [k for k, _ in kind_weights]
    ws = [w for _, w in kind_weights]
    out = []
    for _ in range(n):
        k = rng.choices(kinds, ws)[0]
        out.append(GENERATORS[k](rng))
    return out


if __name__ == "__main__":
    import sys
    for i, c in enumerate(generate([(k, 1) for k in sys.argv[3:]], int(sys.argv[1]), int(sys.argv[2]))):
        print(i, c)
