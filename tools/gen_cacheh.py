#!/usr/bin/env python3
"""Case generator for the kind `cacheh`: histories on Util::Cache + Util::CachedBinaryOp wired as the inclusion algorithms wire
them, and calls of bottomUpIndex / bottomUpIndex2.  Formats: harness/op_cacheh.inc.  Every random choice derives from `rng`.

    python3 tools/gen_cacheh.py <seed> <N> [w]     prints N lines  `C <id> cacheh ...`
                                                   w = 0 (default, the library's wiring) | 1 | 2 (wrong wirings, inside the harness
                                                   only: for the sensitivity demonstration, never produced by g_cacheh itself)
"""
import random
import sys


def set_tok(s):
    return ".".join(map(str, sorted(s))) if s else "e"


def rand_pool(rng):
    """a small pool of sets with many inclusions, the empty set, singletons (the macro-states `{q}` of the downward algorithm)"""
    U = rng.randint(2, 7)
    base = frozenset(x for x in range(U) if rng.random() < 0.6)
    pool = [base, frozenset()]
    for _ in range(rng.randint(2, 7)):
        s = rng.choice(pool)
        r = rng.random()
        if r < 0.3:
            s = frozenset(x for x in s if rng.random() < 0.6)                # subset
        elif r < 0.6:
            s = s | frozenset(x for x in range(U) if rng.random() < 0.4)     # superset
        elif r < 0.8:
            s = frozenset([rng.randrange(U)])                                # singleton
        else:
            s = frozenset(x for x in range(U) if rng.random() < 0.5)         # unrelated
        pool.append(frozenset(s))
    if rng.random() < 0.2:
        pool.append(frozenset(range(U)))
    if rng.random() < 0.15:
        pool = [p for p in pool if p] or [frozenset([0])]                    # no empty set at all
    return pool


def g_hist(rng, w=0):
    ty = rng.choice(["set", "ov"])
    m = rng.choice([1, 2, 2, 3, 3, 4, 5])
    pool = rand_pool(rng)
    r = rng.random()
    nsteps = rng.randint(0, 6) if r < 0.1 else rng.randint(6, 40) if r < 0.9 else rng.randint(80, 160)
    # modes: `algo` = what the inclusion algorithms do (lookup, compare, drop), `churn` = many deaths followed by new values (address
    # reuse), `raw` = every member function
    mode = rng.choices(["algo", "churn", "raw"], [35, 40, 25])[0]
    slot = [None] * m
    steps = []
    fresh = [100]          # source of values never seen before (new objects for reused addresses)
    pairs = []             # remembered (i, j) pairs: repeat them to hit the memo table
    ekeys = [(rng.randrange(3), rng.randrange(3)) for _ in range(rng.randint(1, 3))]
    flushes = [rng.choice([1, 2]) if (mode == "churn" and rng.random() < 0.3) else 0]   # step Q costs ~50 ms under ASan: sparingly

    def live():
        return [i for i in range(m) if slot[i] is not None]

    def new_value():
        r2 = rng.random()
        if r2 < 0.7:
            return rng.choice(pool)
        if r2 < 0.9:                      # a value nobody holds: a NEW object
            cands = [p for p in pool if p not in slot]
            if cands:
                return rng.choice(cands)
        fresh[0] += 1
        return frozenset([fresh[0] % 7, fresh[0]])

    def do_lookup(i=None, v=None):
        i = rng.randrange(m) if i is None else i
        v = new_value() if v is None else v
        steps.append("L!%d!%s" % (i, set_tok(v)))
        slot[i] = v

    def do_release(i=None):
        i = rng.randrange(m) if i is None else i
        steps.append("R!%d" % i)
        slot[i] = None

    def do_cmp():
        lv = live()
        if not lv:
            return do_lookup()
        if pairs and rng.random() < 0.45:
            i, j = rng.choice(pairs)
            if slot[i] is None or slot[j] is None:
                i, j = rng.choice(lv), rng.choice(lv)
        else:
            i, j = rng.choice(lv), rng.choice(lv)
        pairs.append((i, j))
        op = "T" if (mode == "algo" or rng.random() < 0.5) else "M"
        steps.append("%s!%d!%d" % (op, i, j))

    def do_eval():
        lv = live()
        if not lv:
            return do_lookup()
        a, p = rng.choice(ekeys)
        steps.append("E!%d!%d!%d" % (a, p, rng.choice(lv)))

    while len(steps) < nsteps:
        r = rng.random()
        lv = live()
        if mode == "algo":
            if r < 0.30:
                do_lookup()
            elif r < 0.65:
                do_cmp()
            elif r < 0.78:
                do_eval()
            elif r < 0.90:
                do_release()
            elif lv:
                i, j = rng.choice(lv), rng.randrange(m)
                steps.append("C!%d!%d" % (i, j))
                slot[j] = slot[i]
            else:
                do_lookup()
        elif mode == "churn":
            # fill, compare everything with everything, kill some, bring NEW values in (the allocator may hand the dead
            # addresses out again), compare again
            if r < 0.25:
                do_lookup()
            elif r < 0.55:
                do_cmp()
            elif r < 0.65:
                do_eval()
            elif r < 0.85 and lv:
                i = rng.choice(lv)
                v = slot[i]
                for j in range(m):                       # drop EVERY handle of the object: it dies
                    if slot[j] == v and len(steps) < nsteps + 4:
                        do_release(j)
                if flushes[0] > 0 and rng.random() < 0.5:
                    flushes[0] -= 1
                    steps.append("Q")                    # let an allocator with a quarantine recycle the dead node
                fresh[0] += 1
                nv = frozenset([fresh[0] % 5, fresh[0]]) if rng.random() < 0.6 else new_value()
                do_lookup(i, nv)                         # a new object, possibly at the old address
                # the comparisons this slot took part in, once more: a stale entry would answer them
                again = [pr for pr in pairs if i in pr][-3:] + pairs[-2:]
                for (a, b) in again:
                    if slot[a] is not None and slot[b] is not None and rng.random() < 0.7:
                        steps.append("%s!%d!%d" % (rng.choice("TM"), a, b))
            else:
                do_release()
        else:
            if r < 0.22:
                do_lookup()
            elif r < 0.30:
                i = rng.randrange(m)
                v = rng.choice(pool) if rng.random() < 0.7 else frozenset([99])
                steps.append("F!%d!%s" % (i, set_tok(v)))
                slot[i] = v if v in slot else None
            elif r < 0.40:
                i, j = rng.randrange(m), rng.randrange(m)
                if rng.random() < 0.1:
                    j = i
                steps.append("C!%d!%d" % (i, j))
                slot[j] = slot[i]
            elif r < 0.52:
                do_release()
            elif r < 0.72:
                do_cmp()
            elif r < 0.82:
                do_eval()
            elif r < 0.94 and lv:
                op = rng.choice(["I1", "I2", "J2", "I1", "I2"])
                steps.append("%s!%d" % (op, rng.choice(lv)))
            elif r < 0.97:
                a, p = rng.choice(ekeys) if rng.random() < 0.8 else (7, 7)
                steps.append("J1!%d!%d" % (a, p))
            else:
                steps.append(rng.choice(["CL", "CE"]))
    return "cacheh H!%s!%d!%d%s" % (ty, m, w, (" " + " ".join(steps)) if steps else "")


# ranked alphabet of the index cases: symbol number -> rank
def g_index(rng):
    nsym = rng.randint(1, 6)
    ranks = [rng.choice([0, 0, 1, 1, 2, 2, 3]) for _ in range(nsym)]
    syms = [rng.randrange(0, 12) for _ in range(nsym)]
    syms = list(dict.fromkeys(syms))
    ranks = ranks[:len(syms)]
    nst = rng.randint(1, 6)
    states = rng.sample(range(0, 9), nst)

    def rules(empty_p):
        if rng.random() < empty_p:
            return []
        out = []
        use = [i for i in range(len(syms)) if rng.random() < 0.8] or [0]
        for _ in range(rng.randint(1, 14)):
            k = rng.choice(use)
            kids = [rng.choice(states) for _ in range(ranks[k])]
            if ranks[k] >= 2 and rng.random() < 0.3:
                kids = [kids[0]] * ranks[k]                      # the same state at several positions
            out.append((syms[k], tuple(kids), rng.choice(states)))
        if out and rng.random() < 0.3:
            out.append(rng.choice(out))                          # a duplicate rule in the input
        if out and rng.random() < 0.4:                           # several tuples in one cluster
            f, ks, p = rng.choice(out)
            for _ in range(rng.randint(1, 3)):
                out.append((f, tuple(rng.choice(states) for _ in ks), p))
        return out

    def tok(rs):
        return ";".join("%d:%s>%d" % (f, ",".join(map(str, ks)), p) for (f, ks, p) in rs) if rs else "-"

    return "cacheh B!%s!%s" % (tok(rules(0.08)), tok(rules(0.08)))


def g_cacheh(rng):
    if rng.random() < 0.15:
        return g_index(rng)
    return g_hist(rng, 0)


if __name__ == "__main__":
    seed = int(sys.argv[1]) if len(sys.argv) > 1 else 1
    N = int(sys.argv[2]) if len(sys.argv) > 2 else 10
    w = int(sys.argv[3]) if len(sys.argv) > 3 else 0
    rng = random.Random(seed)
    for i in range(N):
        case = g_cacheh(rng) if w == 0 else g_hist(rng, w)
        print("C c%d_%d %s" % (seed, i, case))
