#!/usr/bin/env python3
"""Runs the repository's own test-suite with the verification guard OFF (no -DVATA_VERIF) on a scratch copy of /repo's
working tree (outside /repo) and compares with the baseline: every case passes except the two bdd-bu "not implemented"
cases (aut_down_inclusion_rec_nosim, aut_down_inclusion_opt_rec_nosim)."""
import os, re, shutil, subprocess, sys
VERIF = os.path.dirname(os.path.dirname(os.path.abspath(__file__)))
REPO = os.environ.get("VERIF_REPO", "/repo")
d = os.path.join(VERIF, ".work", "baseline_off")
shutil.rmtree(d, ignore_errors=True)
os.makedirs(d)
src = os.path.join(d, "src")
subprocess.check_call(["rsync", "-a", "--exclude", "_build", "--exclude", ".git", "--exclude", "build", REPO + "/", src + "/"])
subprocess.check_call(["cmake", "-G", "Ninja", "-S", src, "-B", os.path.join(src, "_build"), "-DCMAKE_BUILD_TYPE=RelWithDebInfo",
                       "-DCMAKE_CXX_FLAGS=-Wno-error"], stdout=subprocess.DEVNULL)
subprocess.check_call(["ninja", "-C", os.path.join(src, "_build"), "-j16"], stdout=subprocess.DEVNULL)
ok = True
tot_fail = 0
for t in ["ondriks_mtbdd_c_test", "timbuk_parser_test", "bdd_td_tree_aut_test", "explicit_tree_aut_test", "bdd_bu_tree_aut_test"]:
    p = subprocess.run(["./" + t, "--log_level=test_suite"], cwd=os.path.join(src, "_build", "unit_tests"), stdout=subprocess.PIPE, stderr=subprocess.STDOUT, text=True)
    failed = sorted(set(re.findall(r'error: in "suite/(\w+)"', p.stdout)))
    print(t, "failed cases:", failed)
    exp = ["aut_down_inclusion_opt_rec_nosim", "aut_down_inclusion_rec_nosim"] if t == "bdd_bu_tree_aut_test" else []
    if failed != exp:
        ok = False
shutil.rmtree(d, ignore_errors=True)
print("BASELINE-OFF", "OK" if ok else "DIFFERS")
sys.exit(0 if ok else 1)
