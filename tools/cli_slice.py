#!/usr/bin/env python3
"""Drives the real `vata` command-line binary (the sanitised build of /repo's working tree) on inclusion cases, so that the
glue around the library – argument parsing, loading with state dictionaries, SanitizeAutsForInclusion, simulation set-up –
is inside the compared behaviour.  The verdicts are put into the result-line format of the in-process harness and judged
by the same compiled Lean driver (proved reference `inclM` / `inclW`)."""
import os, subprocess, tempfile, concurrent.futures as cf
import gen


def tricky_name(side, q):
    """state names that are legal Timbuk names but contain the separators the CLI uses when it builds product / union names
    (`[l_1|r_2]`, `l_1`, `r_2`): with them ("s0_1|t0", "u0") and ("s0", "t0_1|u0") are two product states with ONE naive name"""
    k = q // 2
    if side == "A":
        return f"s{k}" if q % 2 == 0 else f"s{k}_1|t{k}"
    return f"u{k}" if q % 2 == 0 else f"t{k}_1|u{k}"


def ta_timbuk(A, name="A", extra_ops=(), names=None):
    rank = {}
    for (f, ks, p) in A.rules:
        rank[f] = len(ks)
    ops = [f"s{f}:{r}" for f, r in sorted(rank.items())]
    ops += [o for o in extra_ops if o not in ops]
    if names:
        st = A.states()
        nm = {q: tricky_name(names, i) for i, q in enumerate(st)}
        out = ["Ops " + " ".join(ops), f"Automaton {name}", "States " + " ".join(nm[q] for q in st),
               "Final States " + " ".join(nm[q] for q in A.finals), "Transitions"]
        for (f, ks, p) in A.rules:
            out.append(f"s{f}" + (("(" + ",".join(nm[k] for k in ks) + ")") if ks else "") + f" -> {nm[p]}")
        return "\n".join(out) + "\n"
    out = ["Ops " + " ".join(ops), f"Automaton {name}",
           "States " + " ".join(f"q{q}" for q in A.states()), "Final States " + " ".join(f"q{q}" for q in A.finals), "Transitions"]
    for (f, ks, p) in A.rules:
        out.append(f"s{f}" + (("(" + ",".join(f"q{k}" for k in ks) + ")") if ks else "") + f" -> q{p}")
    return "\n".join(out) + "\n"


def nfa_timbuk(N, name="N"):
    syms = sorted({b for (_, b, _) in N.trans})
    out = ["Ops st:0 " + " ".join(f"a{b}:1" for b in syms), f"Automaton {name}", "States " + " ".join(f"q{q}" for q in N.states()),
           "Final States " + " ".join(f"q{q}" for q in N.finals), "Transitions"]
    for q in N.starts:
        out.append(f"st -> q{q}")
    for (a, b, c) in N.trans:
        out.append(f"a{b}(q{a}) -> q{c}")
    return "\n".join(out) + "\n"


def run_vata(vata, args, fa, fb, timeout):
    try:
        p = subprocess.run([vata] + args + ["incl", fa, fb], stdout=subprocess.PIPE, stderr=subprocess.PIPE, text=True, timeout=timeout)
    except subprocess.TimeoutExpired:
        return "T"
    out = p.stdout.strip().split("\n")[-1].strip() if p.stdout.strip() else ""
    if p.returncode != 0 and ("AddressSanitizer" in p.stderr or "runtime error" in p.stderr or p.returncode < 0):
        return "C"
    if out in ("0", "1"):
        return out
    if "Not implemented" in p.stderr or "Not implemented" in p.stdout or "not implemented" in (p.stderr + p.stdout).lower():
        return "N"
    return "E"


EXPL = [["-r", "expl", "-o", "dir=up,sim=no"], ["-r", "expl", "-o", "dir=up,sim=yes"],
        ["-r", "expl", "-o", "dir=down,rec=no,sim=no"], ["-r", "expl", "-o", "dir=down,rec=no,sim=yes"],
        ["-r", "expl", "-o", "dir=down,rec=yes,optC=no,sim=no"], ["-r", "expl", "-o", "dir=down,rec=yes,optC=no,sim=yes"],
        ["-r", "expl", "-o", "dir=down,rec=yes,optC=yes,sim=no"], ["-r", "expl", "-o", "dir=down,rec=yes,optC=yes,sim=yes"],
        ["-r", "expl"]]
BDD = [["-r", "bdd-td", "-o", "dir=down,rec=yes,optC=no,sim=no"], ["-r", "bdd-td", "-o", "dir=down,rec=yes,optC=yes,sim=no"], None,
       ["-r", "bdd-bu", "-o", "dir=up,sim=no"], ["-r", "bdd-bu", "-o", "dir=down,rec=yes,sim=yes"], ["-r", "bdd-bu"], None, None]
FA = [["-r", "expl_fa", "-o", "alg=antichains"], ["-r", "expl_fa", "-o", "alg=congr,order=depth"],
      ["-r", "expl_fa", "-o", "alg=congr,order=breadth"], ["-r", "expl_fa"]]


CLI_FLAGS = {"load": ["load"], "loadp": ["-p", "load"], "loads": ["-s", "load"], "witness": ["witness"], "cmpl": ["cmpl"],
             "union": ["union"], "isect": ["isect"], "unions": ["-s", "union"], "unionp": ["-p", "union"],
             "isects": ["-s", "isect"], "isectp": ["-p", "isect"], "red": ["red"], "simdown": ["-o", "dir=down", "sim"], "simup": ["-o", "dir=up", "sim"]}


def parse_dump(text, keep_names):
    """the printed Timbuk text -> TA token; state names: q<N> -> N when keep_names, a number -> itself, else first appearance"""
    import re
    names = {}

    def st(name):
        if keep_names and re.fullmatch(r"q\d+", name):
            return int(name[1:])
        if re.fullmatch(r"\d+", name):
            return int(name)
        if name not in names:
            names[name] = len(names)
        return names[name]
    lines = text.split("\n")
    if "Transitions" not in [l.strip() for l in lines]:
        return None
    finals, rules, in_tr = [], [], False
    for l in lines:
        l = l.strip()
        if l.startswith("Final States"):
            finals = [st(x) for x in l[len("Final States"):].split()]
        elif l == "Transitions":
            in_tr = True
        elif in_tr and l:
            m = re.fullmatch(r"(\S+?)(?:\((.*)\))?\s*->\s*(\S+)", l)
            if not m or not re.fullmatch(r"s\d+", m.group(1)):
                return None
            kids = [st(x.strip()) for x in m.group(2).split(",")] if m.group(2) else []
            rules.append((int(m.group(1)[1:]), tuple(kids), st(m.group(3))))
    return gen.TA(rules, sorted(set(finals))).tok()


def cli_op(vata, toks, fa, fb, budget):
    import re
    rep, op = toks[1], toks[2]
    A = gen.TA.parse(toks[3])
    extra = []
    if op == "cmpl":
        ranks = [int(x) for x in toks[4].split(",")] if toks[4] != "-" else []
        extra = [f"s{i}:{r}" for i, r in enumerate(ranks)]
    two = op in ("union", "isect", "unions", "unionp", "isects", "isectp")
    tricky = two and len(toks) > 5 and toks[5] == "nm=1"
    open(fa, "w").write(ta_timbuk(A, "A", extra, names="A" if tricky else None))
    files = [fa]
    if two:
        open(fb, "w").write(ta_timbuk(gen.TA.parse(toks[4]), "B", names="B" if tricky else None))
        files.append(fb)
    try:
        p = subprocess.run([vata, "-r", rep] + CLI_FLAGS[op][:-1] + [CLI_FLAGS[op][-1]] + files, stdout=subprocess.PIPE, stderr=subprocess.PIPE,
                           text=True, timeout=budget)
    except subprocess.TimeoutExpired:
        return "out=T"
    if p.returncode != 0:
        if "AddressSanitizer" in p.stderr or "runtime error" in p.stderr or p.returncode < 0:
            return "out=C"
        if "not implemented" in (p.stderr + p.stdout).lower() or "unimplemented" in (p.stderr + p.stdout).lower():
            return "out=N"
        return "out=E"
    if op in ("simdown", "simup"):
        ls = [l for l in p.stdout.split("\n") if l.strip()]
        if len(ls) < 1:
            return "out=E"
        idx = {}
        for m in re.finditer(r"(\d+): q(\d+),", ls[0]):
            idx[int(m.group(1))] = int(m.group(2))
        pairs = re.findall(r"\((\d+), (\d+)\)", ls[1]) if len(ls) > 1 else []
        try:
            rel = sorted({(idx[int(a)], idx[int(b)]) for a, b in pairs})
        except KeyError:
            return "out=E"
        return "rel=" + (",".join(f"{a}.{b}" for a, b in rel) or "-")
    tok = parse_dump(p.stdout, keep_names=op in ("load", "loadp", "loads", "witness", "red"))
    if tok is None:
        return "out=E"
    extra_fields = ""
    if op in ("union", "isect") and rep in ("expl", "expl_fa"):
        # the file contents and the printed text themselves (hex), for the name-for-name comparison with the model of what the
        # command line prints (Vata/CliPipeline.lean, Vata/NfaCliPipeline.lean)
        hx = lambda t: t.encode().hex() or "00"
        extra_fields = f" txa={hx(open(fa).read())} txb={hx(open(fb).read())} txo={hx(p.stdout)}"
    return "R=" + tok + extra_fields


def one_case(vata, case, tmp, k, budget):
    toks = case.split(" ")
    kind = toks[0]
    fa, fb = os.path.join(tmp, f"a{k}.txt"), os.path.join(tmp, f"b{k}.txt")
    if kind == "cliop":
        return cli_op(vata, toks, fa, fb, budget)
    if kind in ("incl", "bddincl"):
        A, B = gen.TA.parse(toks[1]), gen.TA.parse(toks[2])
        A = gen.TA(list(dict.fromkeys(A.rules)), sorted(set(A.finals)))
        B = gen.TA(list(dict.fromkeys(B.rules)), sorted(set(B.finals)))
        open(fa, "w").write(ta_timbuk(A, "A"))
        open(fb, "w").write(ta_timbuk(B, "B"))
        sels = EXPL if kind == "incl" else BDD
        v = "".join("-" if s is None else run_vata(vata, s, fa, fb, budget) for s in sels)
        if kind == "incl":
            # downward selections are exponential by design: overruns are not judged (as in the in-process harness)
            return f"v={v} A={A.tok()} B={B.tok()}"
        return f"v={v}"
    if kind == "nfah":
        # nfah def:A def:B incl:0:1
        A, B = toks[1][4:], toks[2][4:]

        def parse(t):
            tr, st, fi = t.split("|")
            return gen.NFA([tuple(int(x) for x in e.split(",")) for e in tr.split(";") if e],
                           [int(x) for x in st.split(",") if x], [int(x) for x in fi.split(",") if x])
        NA, NB = parse(A), parse(B)
        open(fa, "w").write(nfa_timbuk(NA, "A"))
        open(fb, "w").write(nfa_timbuk(NB, "B"))
        v = "".join(run_vata(vata, s, fa, fb, budget) for s in FA)
        return ("S0 0.0=%s S1 1.0=%s 1.1=%s v2=%s S2 2.0=%s 2.1=%s" % (canon_nfa(NA), canon_nfa(NA), canon_nfa(NB), v, canon_nfa(NA), canon_nfa(NB)))
    raise ValueError(kind)


def canon_nfa(N):
    tr = sorted(set(N.trans))
    return (";".join(f"{a},{b},{c}" for (a, b, c) in tr) + "|" + ",".join(map(str, sorted(set(N.starts)))) + "|" +
            ",".join(map(str, sorted(set(N.finals)))))


def run(vata, cases, jobs=16, budget=4):
    """returns result texts (same order) in the harness' result-line format"""
    with tempfile.TemporaryDirectory(prefix="vcli") as tmp:
        with cf.ThreadPoolExecutor(max_workers=jobs) as ex:
            return list(ex.map(lambda kc: one_case(vata, kc[1], tmp, kc[0], budget), enumerate(cases)))
