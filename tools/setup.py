#!/usr/bin/env python3
"""Offline setup after a fresh restore: build the Lean library + driver and the sanitised build of /repo's working tree."""
import os, subprocess, sys
HERE = os.path.dirname(os.path.abspath(__file__))
sys.path.insert(0, HERE)
import build_repo
LEAN = os.path.join(os.path.dirname(HERE), "lean")
try:
    import extract_tables
    extract_tables.regenerate(os.environ.get("VERIF_REPO", "/repo"), os.path.join(LEAN, "Vata", "Generated", "Tables.lean"))
except ImportError:
    pass
rc = subprocess.call(["lake", "build", "Vata", "vdriver"], cwd=LEAN)
if rc != 0:
    sys.exit(rc)
r = build_repo.ensure_build()
print("setup ok:", r["harness"])
