#!/usr/bin/env python3
"""Case generator for the `cliargs` kind: argv vectors for the `vata` command line (without the program name).

    g_cliargs(rng) -> "cliargs <tok> <tok> ..."     (rng: random.Random; token syntax: harness/op_cliargs.inc)

Every case is ONE argv vector; the harness runs the real parseArguments on it and then either the real main() (parse
errors, help, version, no arguments) or the real performOperation / CheckInclusion / ComputeSimulation / ComputeReduction /
CheckEquiv on a recording automaton.  Expected results are NOT generated here (the driver computes them from the model).

Shapes (mostly valid, every branch of the parser and of the option handling is aimed at):
  * a valid command line: a subset of the flags (-t -V -p -s -n, -r <repr>, -I/-O/-F <format>, -o <list>) in random order,
    before / after / between the command word and its file operands; all 9 commands, all 4 representations;
  * `-o` lists: the inclusion options over their full product (all 2^7 combinations are drawn uniformly in one shape),
    the options of sim / red / equiv / `symbolic`, and damaged lists: unknown names, unknown values, values in another
    case (`YES`), `opt` without `=`, `=v`, `opt=`, `a==b`, empty pieces (`a,,b`, leading / trailing comma, the empty
    string), the same option twice, very long lists;
  * damaged vectors: truncated after any element (flag without its argument, missing operands), an extra operand,
    a flag given twice, -F combined with -I / -O, unknown flags (`-x`, `-`, `--`, `-tt`, `-help`, `--Help`), unknown command /
    representation / format words, empty strings, help / version (word or flag) at any position – also after something
    that is only wrong later, strings with blanks, `%`, `=`, `,`, quotes and bytes >= 0x80;
  * file names that are command words, look like options, are prefixes of one another (the order of the dictionary of a
    union dump is the std::string order of `<f1>_1` and `<f2>_2`).
"""
import random
import sys

KEEP = set("ABCDEFGHIJKLMNOPQRSTUVWXYZabcdefghijklmnopqrstuvwxyz0123456789_.'/+-")

CMD1 = ["load", "witness", "cmpl", "sim", "red"]
CMD2 = ["union", "isect", "incl", "equiv"]
REPRS = ["expl", "bdd-td", "bdd-bu", "expl_fa"]

INCL = [("alg", ["antichains", "congr"]), ("dir", ["up", "down"]), ("rec", ["no", "yes"]), ("optC", ["no", "yes"]),
        ("sim", ["no", "yes"]), ("order", ["depth", "breadth"]), ("timeS", ["yes", "no"])]

FILES = ["a", "b", "a", "x.timbuk", "/tmp/A", "a_1", "a_2", "a_", "B", "aa", "ab", "[q]", "q|r", "q>0", "x;y", "f(x)",
         "help", "version", "load", "incl", "timbuk", "expl", "a b", "100%", "a=b", "a,b", "\xc3\xa9", "\xff", "z",
         "it's", "\"q\"", "\t", "a\nb", "0", "", "~", "A" * 40]

BAD_FLAGS = ["-x", "-", "--", "-tt", "-help", "--Help", "-H", "-R", "-i", "-f", "-o=dir=up", "-rexpl", "- t", "-\xc3\xa9", "-%",
             "--version=1", "-vv", "-hh", "-P", "-S", "-N", "-T"]
BAD_WORDS = ["Load", "LOAD", "loads", "include", "complement", "intersect", "reduce", "simulation", "inc", "eq", " load",
             "load ", "un ion", "\xc3\xa9", "0", "+", "h", "v", "?"]


def esc(s):
    """the token for one argv string (str of code points < 256 = bytes)"""
    out = [":"]
    for ch in s:
        o = ord(ch)
        assert o < 256
        if ch in KEEP:
            out.append(ch)
        else:
            out.append("%%%02X" % o)
    return "".join(out)


def _incl_opts(rng, full=False):
    """a list of (name, value) for the inclusion options"""
    opts = []
    for (k, vs) in INCL:
        if full or rng.random() < 0.45:
            opts.append((k, rng.choice(vs)))
    rng.shuffle(opts)
    return opts


def _opts_for(rng, cmd):
    r = rng.random()
    if cmd == "incl":
        if r < 0.35:
            return _incl_opts(rng, full=True)
        return _incl_opts(rng)
    if cmd == "sim":
        return [("dir", rng.choice(["up", "down", "fwd", "bwd", "down", "sideways"]))] if r < 0.8 else []
    if cmd == "red":
        return [("dir", rng.choice(["up", "down", "down", "fwd", ""]))] if r < 0.8 else []
    if cmd == "equiv":
        return [("order", rng.choice(["depth", "breadth", "deep"]))] if r < 0.8 else []
    if r < 0.3:
        return _incl_opts(rng)           # options of another command: ignored
    return []


def _damage_opts(rng, opts):
    """returns the `-o` string for the option list, possibly damaged"""
    pieces = [k + "=" + v for (k, v) in opts]
    r = rng.random()
    if r < 0.50:
        pass
    elif r < 0.56:
        pieces.insert(rng.randint(0, len(pieces)), rng.choice(["foo=bar", "Dir=down", "simulation=yes", "x=1", "optc=yes", "alg =congr"]))
    elif r < 0.64 and opts:
        i = rng.randrange(len(opts))
        k = opts[i][0]
        pieces[i] = k + "=" + rng.choice(["YES", "Yes", "NO", "true", "1", "0", "maybe", "yes ", " yes", "upward", "downward",
                                           "antichain", "congruence", "bfs", "dfs", "y", "n", "=", "yes=no", "\xc3\xa9"])
    elif r < 0.70 and opts:
        i = rng.randrange(len(opts))
        pieces[i] = opts[i][0]                                    # `opt` without `=`: the value is ""
    elif r < 0.74:
        pieces.insert(rng.randint(0, len(pieces)), rng.choice(["=yes", "=", "==", "sim=", "dir=", "=dir=up"]))
    elif r < 0.80:
        pieces.insert(rng.randint(0, len(pieces)), "")            # `a,,b` / leading / trailing comma / the empty string
    elif r < 0.86 and opts:
        k, v = rng.choice(opts)
        other = rng.choice([v, "yes", "no", ""])
        pieces.insert(rng.randint(0, len(pieces)), k + ("=" + other if other else ""))   # the same option twice
    elif r < 0.90:
        pieces.insert(rng.randint(0, len(pieces)), rng.choice(["a==b", "sim==yes", "dir=up=down", "k=v=w="]))
    elif r < 0.94:
        pieces.insert(rng.randint(0, len(pieces)), rng.choice(["symbolic=yes", "symbolic=no", "symbolic=YES", "symbolic", "symbolic=maybe"]))
    elif r < 0.97:
        pieces += ["o%d=v%d" % (i, i) for i in range(rng.randint(10, 40))]
        rng.shuffle(pieces)
    else:
        pieces = [p.replace("=", rng.choice([" = ", ":", "= "])) for p in pieces] or [" "]
    return ",".join(pieces)


def _flags(rng, cmd):
    """a list of groups (each group = the argv elements of one flag)"""
    groups = []
    for fl, p in (("-t", 0.25), ("-V", 0.15), ("-n", 0.2), ("-p", 0.3), ("-s", 0.3)):
        if rng.random() < p:
            groups.append([fl])
    if rng.random() < 0.6:
        groups.append(["-r", rng.choice(REPRS)])
    r = rng.random()
    if r < 0.12:
        groups.append([rng.choice(["-I", "-O", "-F"]), "timbuk"])
    elif r < 0.18:
        groups.append(["-I", "timbuk"])
        groups.append(["-O", "timbuk"])
    opts = _opts_for(rng, cmd)
    sym = rng.random()
    if sym < 0.12:
        opts = opts + [("symbolic", rng.choice(["yes", "no", "yes", "Yes", ""]))]
        rng.shuffle(opts)
    if opts or rng.random() < 0.08:
        groups.append(["-o", _damage_opts(rng, opts)])
    rng.shuffle(groups)
    return groups


def _valid(rng):
    cmd = rng.choice(CMD1 + CMD2 + ["incl", "incl", "incl"])
    nfiles = 1 if cmd in CMD1 else 2
    files = [rng.choice(FILES[:24]) if rng.random() < 0.8 else rng.choice(FILES) for _ in range(nfiles)]
    files = [f for f in files]
    words = [[cmd]] + [[f] for f in files]
    groups = _flags(rng, cmd)
    # flags before / after / between the words (the words keep their order)
    r = rng.random()
    if r < 0.6:
        seq = groups + words
    elif r < 0.75:
        seq = words + groups
    else:
        seq = list(groups)
        pos = sorted(rng.randint(0, len(seq)) for _ in words)
        for off, (p, w) in enumerate(zip(pos, words)):
            seq.insert(p + off, w)
    return [x for g in seq for x in g], cmd


def _all_incl(rng):
    """every combination of the seven inclusion options, on every representation"""
    opts = [(k, rng.choice(vs)) for (k, vs) in INCL]
    rng.shuffle(opts)
    if rng.random() < 0.3:
        # drop the options that have their default value
        dfl = {"alg": "antichains", "dir": "up", "rec": "no", "optC": "no", "sim": "no", "order": "depth", "timeS": "yes"}
        opts = [(k, v) for (k, v) in opts if dfl[k] != v or rng.random() < 0.3]
    argv = ["-r", rng.choice(REPRS)]
    if opts:
        argv += ["-o", ",".join(k + "=" + v for (k, v) in opts)]
    if rng.random() < 0.2:
        argv.insert(0, rng.choice(["-t", "-n", "-s", "-p"]))
    return argv + ["incl", rng.choice(["a", "b", "x"]), rng.choice(["a", "b", "y"])]


def _damaged(rng):
    argv, cmd = _valid(rng)
    r = rng.random()
    if r < 0.22:
        argv = argv[:rng.randint(0 if rng.random() < 0.05 else 1, max(1, len(argv) - 1))]  # truncated
    elif r < 0.32:
        argv.insert(rng.randint(0, len(argv)), rng.choice(FILES))                   # an extra operand / wrong command position
    elif r < 0.44:
        cands = [x for x in argv if x in ("-t", "-V", "-n", "-p", "-s", "-r", "-I", "-O", "-F", "-o")]
        fl = rng.choice(cands) if cands and rng.random() < 0.8 else rng.choice(["-t", "-V", "-n", "-p", "-s"])
        extra = [fl]
        if fl == "-r":
            extra.append(rng.choice(REPRS))
        elif fl in ("-I", "-O", "-F"):
            extra.append("timbuk")
        elif fl == "-o":
            extra.append("x=y")
        p = rng.randint(0, len(argv))
        argv[p:p] = extra                                                           # a flag twice (possibly splitting a pair)
    elif r < 0.50:
        p = rng.randint(0, len(argv))
        argv[p:p] = [rng.choice(["-F", "-I", "-O"]), "timbuk", rng.choice(["-F", "-I", "-O"]), "timbuk"]
    elif r < 0.60:
        argv.insert(rng.randint(0, len(argv)), rng.choice(BAD_FLAGS))
    elif r < 0.68:
        # unknown command / representation / format word
        which = rng.random()
        if which < 0.4:
            argv = [rng.choice(BAD_WORDS) if x == cmd else x for x in argv]
        elif which < 0.7:
            p = rng.randint(0, len(argv))
            argv[p:p] = ["-r", rng.choice(["explicit", "bdd", "bdd_td", "expl-fa", "EXPL", "", "expl ", "-r"])]
            argv = [x for i, x in enumerate(argv) if not (x == "-r" and i != p and rng.random() < 0.9 and False)]
        else:
            p = rng.randint(0, len(argv))
            argv[p:p] = [rng.choice(["-I", "-O", "-F"]), rng.choice(["Timbuk", "tim", "", "timbuk ", "xml", "-F"])]
    elif r < 0.76:
        argv.insert(rng.randint(0, len(argv)), "")                                  # an empty string
    elif r < 0.90:
        argv.insert(rng.randint(0, len(argv)), rng.choice(["help", "version", "-h", "--help", "-v", "--version"]))
    elif r < 0.95:
        rng.shuffle(argv)                                                           # permuted
    else:
        argv = [rng.choice(FILES + BAD_FLAGS + BAD_WORDS + CMD1 + CMD2) for _ in range(rng.randint(1, 6))]
    return argv


def g_cliargs(rng):
    r = rng.random()
    if r < 0.02:
        argv = []
    elif r < 0.06:
        argv = [rng.choice(["help", "version", "-h", "--help", "-v", "--version"])]
        if rng.random() < 0.5:
            argv += _valid(rng)[0]
    elif r < 0.40:
        argv = _valid(rng)[0]
    elif r < 0.62:
        argv = _all_incl(rng)
    else:
        argv = _damaged(rng)
    return "cliargs" + "".join(" " + esc(a) for a in argv)


if __name__ == "__main__":
    n = int(sys.argv[1]) if len(sys.argv) > 1 else 2000
    seed = int(sys.argv[2]) if len(sys.argv) > 2 else 1
    rng = random.Random(seed)
    for i in range(n):
        print("C %d %s" % (i, g_cliargs(rng)))
